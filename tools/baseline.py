#!/usr/bin/env python3
"""Run the repository's pinned baseline in <repo dir> (default /repo) and compare with /root/.vp/BASELINE.json.
usage: baseline.py [repo_dir]   exit 0 iff every stable_pass test passes."""
import json, os, subprocess, sys, tempfile, xml.etree.ElementTree as ET

repo = sys.argv[1] if len(sys.argv) > 1 else "/repo"
base = json.load(open("/root/.vp/BASELINE.json"))
fd, junit = tempfile.mkstemp(suffix=".xml", dir="/var/tmp")
os.close(fd)
env = dict(os.environ)
for k in list(env):
    if k.startswith(("KCONFIG_", "MCK_", "ESP_IDF_KCONFIG")):
        del env[k]
if repo != "/repo":
    env["PYTHONPATH"] = repo
cmd = ["/venv/bin/python", "-m", "pytest", "-ra", "-q", "-p", "no:cacheprovider", "--timeout=900",
       "--continue-on-collection-errors", f"--junitxml={junit}"]
p = subprocess.run(cmd, cwd=repo, env=env, stdout=subprocess.PIPE, stderr=subprocess.STDOUT, text=True)
passed = set()
for tc in ET.parse(junit).getroot().iter("testcase"):
    if not any(ch.tag in ("failure", "error", "skipped") for ch in tc):
        passed.add(f"{tc.get('classname')}::{tc.get('name')}")
os.unlink(junit)
want = set(base["stable_pass"])
missing = sorted(want - passed)
print(f"baseline: {len(want & passed)}/{len(want)} stable tests pass in {repo}")
for m in missing[:40]:
    print("  NOT PASSING:", m)
sys.exit(1 if missing else 0)

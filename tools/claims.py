CLAIMS["C01"] = dict(
    category="exploration",
    technique="bounded exhaustive enumeration (all programs of 5 families x all user assignments) on the real evaluator, reference-semantics + differential oracles",
    text="Every program of the prec/bool/nest/expr/multi families x every assignment over the per-type value domains is executed on a fresh real Kconfig; value, visibility and assignable set are compared with an independent reference evaluator, and all outputs are compared between an assignment and the same assignment minus hidden options. Complete within the stated alphabets (small-scope), nothing sampled.",
    note="Trusts mck/refsem.py as the reading of language.rst; alphabets exclude constructs the documents are silent on.",
)
CLAIMS["C03"] = dict(
    category="model_checking",
    technique="explicit-state BFS over histories of write and READ events on the real evaluator (cache-fill bits in the state key); twin-instance recompute / fresh-instance / read-order oracles",
    text="For one program per dependency-edge kind (and all 2-hop chains) every interleaving of set/unset/reset/load/merge with reads of individual options up to depth 4 (quick) / 5 (thorough) is executed on fresh real instances; after each transition the API observation is compared with the observation after discarding all caches, with a fresh instance given the final user state (both orders) and with a reversed read order. Exhaustive within the op alphabet and depth; states merged only on an over-fine key.",
    note="Final user state is read from the implementation's own _user_value/_user_selection; op alphabet per program is 2 values per settable option.",
)
CLAIMS["C05"] = dict(
    category="model_checking",
    technique="explicit-state BFS over set/reset/load/merge histories on the real evaluator; state invariant + reference selection (pick tracked along the history) + output agreement",
    text="For every program of the choice families every operation history up to depth 3 (quick) / 4 (thorough) is replayed on a fresh real Kconfig; in every distinct reachable user state the exactly-one / none-when-invisible invariant, the documented selection rule (pick, else first enabled visible default, else first visible member) and the header/CMake/JSON/sdkconfig agreement are evaluated. Exhaustive within the alphabet; states merged on the complete user state.",
    note="User pick semantics (last member set to y since the last reset / replacing load) is the reading of the statement encoded in refsem.RefState; default-marked loads excluded (C08).",
)
CLAIMS["C02"] = dict(
    category="model_checking",
    technique="explicit-state BFS over set/unset/reset/load/merge histories; in every distinct reachable state the real writer and a fresh real reader are composed (write, load, write) and compared byte for byte, report areas inspected",
    text="For every probe x context program (escaped strings, hex forms, floats, ranged ints, choices, set/set default, promptless-before-dependency, multi-definition; plain / conditional prompt / depends / menu / if; with a rename table) every history up to depth 3 (quick) / 4 (thorough) over set/unset/reset and load/merge of tool-written and hand-written files is replayed; each distinct state is saved, reloaded into a fresh instance and saved again: values, bytes, DefaultValues/MultipleAssignment records and unknown symbols are checked, with and without the deprecated block.",
    note="Load menu is history independent (files written at the initial and single-set states + hand-written); the no-mismatch clause is not demanded of states that carry an sdkconfig-injected default (C08 requires that mismatch to be reported).",
)
CLAIMS["C04"] = dict(
    category="exploration",
    technique="bounded exhaustive enumeration of Kconfig sources (option matrix, expression alphabet x positions, all structure shapes up to n entries, lexical variants, shipped fixtures); both real parsers run on each; structural dump + outputs compared",
    text="Every program of the option matrix (all option kinds, with/without `if`, alone and in ordered pairs, config/menuconfig/choice/menu/comment), every expression of the alphabet (all symbol forms, operators, precedence probes) in every expression position, every structure shape with <=3 (quick) / <=4 (thorough) entries incl. all four source kinds and macros, ~50 lexical variants and every Kconfig fixture under test/ is parsed with parser_version=1 and 2: accept/reject, a full structural dump (node order, nesting, types, prompts, help, every condition via expr_str, defaults/ranges/selects/implies/sets, reverse dependencies) and sdkconfig/header/JSON in the default and every single-option-perturbed configuration must agree.",
    note="Sources outside the documented language (negative family) are recorded but never alarmed; Kconfig.menus/.choices/.comments flat lists compared as multisets (tree order is compared through node_iter).",
)
CLAIMS["C09"] = dict(
    category="exploration",
    technique="bounded exhaustive enumeration: every acyclic base tree x every ordered option pair x 24 dependency-edge kinds gives one mutated tree; reference dependency graph decides cyclic/acyclic; real loader + evaluator executed",
    text="Each base tree (one per dependency-edge kind and all 2-hop chains) and every tree obtained from it by adding ONE reference 'X mentions Y' of each edge kind (depends, prompt if, default value/condition, range bounds/condition, select, imply, set/set default source/condition/value symbol, if, menu depends/visible if, choice prompt/default/depends, member prompt) is loaded by the real Kconfig(). Where the reference graph has a cycle the loader must raise KconfigError 'Dependency loop' and the items it names must form a cycle of the reference graph; where it has none the tree must load and every observation/output must be computable in every configuration of the value domain without exception.",
    note="Reference dependency graph in mck/checks/c09.py + refsem.dep_graph; member-mentions-sibling-member and defaults/select/imply on choice members excluded (documents silent / not well-formed).",
)
CLAIMS["C07"] = dict(
    category="exploration",
    technique="bounded exhaustive enumeration of trees x ALL rename files of <=3 lines over an 11-line alphabet x all configurations; the real kconfgen writers are run and every output is parsed back and cross-compared",
    text="For three trees covering all five types and every presence state (visible, conditionally hidden, promptless, n, empty, choice member, forced by set/select), every ordered sequence of up to 3 distinct lines of the rename alphabet (plain/inverted aliases of one bool, two aliases in both orders, duplicate old name, aliases of int/string/hex with and without `!`, undefined replacement, lowercase old name) and every configuration of the value domain, sdkconfig, header, CMake, JSON (kconfgen writers) and auto.conf are generated, parsed back into typed values and compared option by option and alias by alias (header aliases under C truthiness).",
    note="Quick tier takes all 1- and 2-line rename files plus all 3-line files over the bool alias lines; thorough all 3-line files.",
)
CLAIMS["C06"] = dict(
    category="exploration",
    technique="bounded exhaustive enumeration of numeric-option programs x malformed-input alphabet x 3 input routes x all condition/bound assignments on the real evaluator and writers; well-formedness, range and cross-format oracles",
    text="Every program of type{int,hex,float} x range kind x default kind x indirect-set kind x prompt kind is driven with every input of a per-type alphabet containing malformed classes (underscores, blanks, signs, other bases, huge, non-finite, empty) through Symbol.set_value, an sdkconfig line and kconfserver.handle_set, in every assignment of the condition/bound options; for every option the exposed value must be well-formed for its type, empty only if nothing provides a value, inside the first active range, and header/CMake/JSON/sdkconfig must render the same number without raising.",
    note="Exceptions escaping the server handler are counted, not alarmed (C15 owns them); inverted ranges (low > high) are not generated.",
)
CLAIMS["C10"] = dict(
    category="exploration",
    technique="bounded exhaustive enumeration (C01 families + choice and menu-label programs) x all user assignments x all writer variants; real minimal-config writer composed with a fresh real loader",
    text="For every program and every assignment of user values the minimal configuration is produced by Kconfig.write_min_config in all four labels x normalize_unset variants and by kconfgen.write_min_config (with and without ESP_IDF_KCONFIG_MIN_LABELS); every distinct file is loaded into a fresh instance of the same tree and every option's value compared with the original; labelled and unlabelled variants must list the same assignment lines in the same order.",
    note="Quick tier uses a 2-value domain per non-bool type chosen to include a value equal to a Kconfig default; thorough the full C01 domains.",
)
CLAIMS["C11"] = dict(
    category="exploration",
    technique="bounded exhaustive enumeration of rename tables (all 1- and 2-line tables over a 13-line alphabet, also split over two files) x all ordered sdkconfig files of <=2/3 lines mixing old and new names; real loader compared with a source-level translation reference; deprecated-block clauses per table x configuration",
    text="For every rename table and every ordered sdkconfig file over the old/new names it mentions (=v and `is not set` forms), loading the file into a fresh real Kconfig is compared with loading its translation (old -> new, y/n swapped for `!` renames of bools, `not set` on an inverted alias -> y; last mapping wins; names that are also defined options are not translated): option values, user values, re-written sdkconfig; deprecated names with a defined replacement must not appear in missing_syms. For every table x 5 configurations the file written with the deprecated block must load (default flag) exactly like the block-less file even when the block is edited to contradict the body, and with load_deprecated=True every alias evaluates (eval_string) to what was written.",
    note="Hand-written files carry no `# default:` markers before deprecated names; a mapping to an undefined option only has to load without raising.",
)
CLAIMS["C19"] = dict(
    category="exploration",
    technique="bounded exhaustive enumeration of directory layouts x rename/defaults file placements x every ordered argument selection, driven through the real _prepare_deprecated_options + check_deprecated_options; memo-free scope specification as oracle; CLI conformance replay",
    text="Over a fixed 7-place skeleton (IDF root with/without project(), component, projects pa / pa/nested / pb, main, orphan dir) every placement of <=3 rename files and <=3 defaults files for options X/Y, with/without IDF_PATH, explicit rename files and --includes variants, and every non-empty ordered selection of the defaults files as argument list is executed in-process exactly as kconfcheck.main does; each per-file verdict must equal a memo-free specification of 'global scope U nearest enclosing project' and be identical across all orders and subsets of one invocation. 10 (quick) / 40 (thorough) layouts are replayed through the real `python -m kconfcheck --check deprecated`.",
    note="IDF root is never a project even if its CMakeLists calls project() (as the shipped fixtures assume); verdict oracle skipped for defaults files in the orphan directory under such a root (order independence still checked).",
)
CLAIMS["C20"] = dict(
    category="exploration",
    technique="bounded exhaustive enumeration of ESP-IDF-idiom trees (every dependency expression of depth <=1/2 in every position) x targets x all assignments of the user-settable options; real docs generator instrumented at _prepare_cond; visibility, condition-equivalence and anchor oracles",
    text="For every expression of the alphabet placed as depends/if/prompt condition/menu depends/visible if/choice/menuconfig/conditional range-default-select-set, for targets chipa and chipb, the real kconfgen.write_docs is run; (a) every prompted option or choice that the real evaluator shows visible in SOME assignment of the user-settable options must have its anchor; (b) for every recorded (condition, stripped deps, shown condition) and every assignment, value(cond) AND deps == value(shown) AND deps under the real expr_value; (c) every :ref: target is an anchor defined in the same text.",
    note="Undefined symbols as relation operands are not generated (documents silent); forced-by rows filtered before _prepare_cond are not covered by (b).",
)
CLAIMS["C12"] = dict(
    category="fault_enumeration",
    technique="exhaustive crash-point enumeration (before every file-system operation and inside every write at every cut point) of every sync of every configuration history, on the real sync_deps over an interposed file system; rerun-after-crash and continuation oracles",
    text="All histories of length 3 over 12 states (quick) / length 3 over 24 and length 4 over 10 states (thorough) of a tree with nested names, bool/int/escaped string, an option that becomes unwritten, plain/inverted/int aliases and six tree versions (option added, removed, retyped); a sync after each configuration on a fresh Kconfig. Crash-free: the set of touched .cdep files equals the set of options and aliases whose header-visible value changed; an immediate repeat performs no mutating operation. For EVERY crash point of every sync: run to the crash, rerun on a fresh instance, continue the history: nothing that differs from the last completed sync may stay untouched, the rerun completes, a further repeat touches nothing, the rest of the history satisfies the crash-free clause.",
    note="Crash model is process death (completed operations persist, no reordering); 'touched' is a change from a forced epoch mtime, never a clock comparison; recovered states byte-identical to the crash-free state are merged with the crash-free continuation.",
)
CLAIMS["C13"] = dict(
    category="fault_enumeration",
    technique="exhaustive enumeration of generator x configuration pairs (unchanged / changed) with stat+byte oracles, and exhaustive crash-point / write-cut enumeration of write_config(save_old=True) over regular files and symlinks",
    text="Part A: 13 library generators (write_config variants, write_autoconf, write_min_config x4, sync_deps' auto.conf) and the real kconfgen command for all 9 --output formats (in-process and as subprocess) over every ordered pair of configurations: an unchanged output keeps (inode, mtime_ns, size, bytes) and no mutating operation is logged on it; a changed output holds exactly the new bytes. Part B: write_config(save_old=True) over a regular file, relative and absolute symlink, with .old absent or older, every crash point and write cut: at least one complete configuration (new in destination, previous in .old, or previous still in destination before the backup finished) survives.",
    note="Process-death crash model on tmpfs; kconfserver save and menuconfig _do_save reach write_config through kconfgen.write_config, which is covered.",
)
CLAIMS["C14"] = dict(
    category="model_checking",
    technique="explicit-state BFS over request histories against the real in-process run_server; model client folding every reply; fresh-server restart oracle; recompute oracle; conformance replay against a real `python -m kconfserver` subprocess",
    text="For 7 trees (shipped test Kconfig + conditional ranges, emptying menus, choice, set/set default, twice-defined, all types) and protocol pairs (3,3),(3,2),(3,1),(2,2),(1,1), every request history up to depth 3 (quick) / 4 (thorough) over a 19-22 request alphabet (set single/multi-pass/unknown/invisible/wrong type, reset symbol/menu/all/unknown, load null/snapshot/hand file, save null/other) is executed on a fresh server; after every request the model client must equal the live full state, the live state must equal a fresh server started on the file a twin save wrote, and the state recomputed after _invalidate_all; replies must be single JSON objects carrying every channel of their version. 10/200 explored traces are replayed byte-for-byte against the real subprocess.",
    note="Depth for (3,2),(2,2),(1,1) is 2 (quick) / 3 (thorough) to fit the budget; in-process driver swaps sys.stdin/stdout and captures the Kconfig the server builds.",
)
CLAIMS["C15"] = dict(
    category="exploration",
    technique="bounded exhaustive enumeration of the single-request matrix (every protocol key x JSON value alphabet x option type, non-JSON lines, 3 prior states) and all request sequences up to depth 3/4 over one representative per response class, on the real run_server; twin-history oracle",
    text="Every request of the matrix (301 at protocol 3, 269 at 2 and 1; each protocol key x {null,true,0,-1,3,4,1.5,1e999,'','x','3',[],['x'],[1],{},{'A':1}}, set per option type, load/save with missing/directory/unwritable paths, non-JSON and non-object lines) in 3 prior states, and every sequence of length <=3 (quick) / 4 (thorough) over 17 representatives: the server function must return normally at EOF with exactly one JSON object line per input line, report or ignore bad parts as documented, leave the configuration equal to the twin history without the offending entry/request, and write nothing but protocol JSON to stdout; a subset is replayed on the real subprocess.",
    note="Either reading of 'as if the offending part had not been sent' (entry removed / request removed) is accepted.",
)
CLAIMS["C18"] = dict(
    category="exploration",
    technique="bounded exhaustive enumeration of compliant renderings of all entry-kind forests (depth <=3) and of all single-site, two-site and global whitespace manglings of each; real validate_file in check and replace mode iterated to a fixed point; both real parsers on mangled input and fixed point",
    text="Every compliant rendering (all entry kinds incl. six config flavours with help/continuation/comment variants, named/unnamed choices, all source spellings, macros; under mainmenu and as sourced file) must be reported OK, left byte-identical by replace mode with no *.new left. Every single-site, every two-site (distance-bounded) and four global manglings from {indent +-1..4, indent 0, tab per unit, leading tab, trailing blanks/tab, tab in string} that leave parser 1's reading unchanged must reach within 5 replace passes a file that is reported OK, on which a further (really executed) pass is the identity, and which parser 1 and parser 2 read like the mangled input. Same for sdkconfig.rename files.",
    note="Manglings that change what parser 1 reads (misleading formatting, exempted by the documentation) and inputs on which the two parsers already disagree (C04) are counted as skipped; help texts are compared modulo leading/trailing blanks of their lines.",
)
CLAIMS["C08"] = dict(
    category="model_checking",
    technique="exhaustive enumeration of (old tree, single-change new tree) pairs x every file written in a configuration reachable by <=2 operations x both policies x every edit history of <=2/3 operations, on the real loader; differential against the same file with marked entries removed on a source-level patched tree",
    text="For three base trees and every single change of the menu (default literal / condition, range, dependency, option added / removed, prompt removed / conditioned, promptless default, set default source, choice default / members, upstream default; and no change), every sdkconfig the tool writes under the old tree in a configuration reachable by <=2 operations is loaded into the new tree under policy sdkconfig and kconfig and followed by every edit history of <=2 (quick) / 3 (thorough) operations: values, visibilities and the re-written file must equal those obtained from the file without its default-marked entries on the new tree (policy kconfig / unchanged tree) or on the new tree with the stored values written as the options' own defaults (policy sdkconfig); unmarked entries must be user values after load; the mismatch records must name exactly the visible options / choices whose stored default differs.",
    note="T_new' is computed by patching one option at a time in definition order (trees define options after their dependencies); retyping an option is outside the statement's menu of changes.",
)
CLAIMS["C16"] = dict(
    category="model_checking",
    technique="explicit-state BFS over UI action histories on a headless harness that runs the REAL MenuConfigState / MenuConfigApp glue (dialog answers are explorer choices); file-vs-needs_save oracle; conformance replay of explored traces through Textual's Pilot on the real app",
    text="For 6 trees x 9-12 initial sdkconfig kinds (absent, tool-written at default / elsewhere, hand-edited with unknown, duplicate, partial, stale-default, deprecated entries, IDF_TARGET headers) every history of compound UI actions up to depth 4 (quick) / 5 (thorough) (select row + Enter/Space/y/n/r[+confirm]/typed value, leave, show-all, jump-to, load file [+confirm], save, quit [+answer]) is replayed on a fresh harness; in every state: needs_save()==False implies the bytes on disk equal what saving would write; right after a successful save and after (re)loading a tool-written file needs_save() is False. 5/100 explored traces are replayed key by key through Pilot on the real Textual app and must match the headless run (menu, rows, highlight, values, needs_save).",
    note="Screen stack, query_one, notify/exit and OptionList storage are stand-ins (validated by the Pilot replay); y/n on plain bools omitted in quick (same path as Space).",
)
CLAIMS["C17"] = dict(
    category="model_checking",
    technique="explicit-state BFS over UI action histories (same headless harness as C16) plus a sweep of malformed typed values from every expanded state; model-consistency oracles after every action; Pilot conformance replay",
    text="For trees with menus whose conditions mention outside options, menuconfig options with children, implicit sub-menus, a named choice defined twice, empty menus, comments, options locked by select and by set, ranges with symbol bounds that can be empty: every action history up to depth 4/5 plus every value of the malformed int/hex/float lists typed as the last action from every expanded state. After every action: no exception; 0 <= sel_node_i < len(shown) and shown == shown_nodes(cur_menu); the list widget rows equal the model rows; leave_menu lands on the left menu's row; a toggle applies only a member of the pre-action assignable set; options forced by set or locked to y keep their value; a value the validator accepts is the value the option then denotes.",
    note="Trees whose visible-if / depends mention an option inside the same menu are rejected by the parser as dependency loops and counted as skipped.",
)

# what the three waves of independently seeded changes added (DESIGN.md §3 "Added after the seeded waves", §9)
ADDED = {
    "C01": "live walk -- every configuration also reached by single changes on ONE instance in reflected Gray order (forwards and backwards) and compared with the fresh instance; choice family (selection precedence with hidden default members).",
    "C02": "live-instance variant (history replayed with a complete read before and after every operation; what it writes must round-trip too); symbolic range bounds; CR / separator characters in strings. Fourth wave: options following choice members, separators in the quick alphabet.",
    "C03": "oracle 'reads are pure' (same history without its reads gives the same observation); merge loads of tool-written files; targets with nothing but a dependency; prompt on the second definition. Fourth wave: retired names with load_deprecated loads; every memoised Choice attribute; caches reset by hand in oracle (1).",
    "C04": "families source_twice / source_nested / after_help / strlit (string literals from quotes, escapes, macro and environment references in 24 positions); every parse under a CPU-time limit (non-termination is an observation). Fourth wave: environment states of referenced variables.",
    "C05": "second search on ONE live instance evaluated after every operation (states merged on user state + memo-cell contents) under several read kinds; choices hidden by a choice-level or enclosing condition; `if` inside a choice. Fourth wave: loads of files written for other states of the tree (both policies); select / imply of a member.",
    "C06": "upper bounds given by options (also value-less), option defined twice with a range per definition, range taken from the program text, live steps on an already evaluated instance. Fourth wave: both parsers; several range lines per option.",
    "C07": "every configuration generated over its neighbours' outputs at the same paths; aliases switched off (write_deprecated=False); strings spelling a tristate letter; empty rename file.",
    "C08": "trees reversed / multidef / strname; replacing loads on one instance; converse oracle 'inferred stays inferred' against the configuration that wrote the file. Fourth wave: stored member invisible in the new tree; load histories with a merge between replacing loads.",
    "C09": "linked choices; value-less range bounds; every tree also loaded under KCONFIG_WARN_UNDEF / KCONFIG_STRICT with an undefined reference (same verdict demanded).",
    "C10": "each minimal config written over the previous one; string values that read like sdkconfig entries. Fourth wave: non-default option prefix.",
    "C11": "trees whose expressions mention the old names; prefix text inside names; rename files listed in and against path order / twice; composed sdkconfig files (text after the deprecated block, two blocks, unclosed block). Fourth wave: rename-file routes (list / environment / kconfgen CLI); undefined replacement mentioned in the tree.",
    "C12": "sessions of several sync_deps() by one instance over kept / emptied / removed / new directories; duplicated and re-targeted rename lines; tristate-looking string values.",
    "C13": "separator characters; histories of 2-3 changed saves with every crash point inside each; destination name shapes and sibling configurations; unchanged-output clause across kconfgen processes with different PYTHONHASHSEED.",
    "C14": "symbolic ranges, choice trees, one prompt-hidden option per value type; combined requests; 'fresh server on the file this request saved' and 'after a load == fresh server on the loaded content' oracles. Fourth wave: failed load / save followed by null-path requests; pragma-like titles.",
    "C15": "strictly encoding byte-level stdout (utf-8 / ascii); unicode matrix incl. lone surrogates in every echoed position; numeric values beyond the representable range; console-markup strings; strict JSON replies.",
    "C16": "load files differing only in a choice selection; falsy-looking values of every type. Fourth wave: choice members with their own dependencies.",
    "C17": "conditional range before the fallback range with typed values in the gap.",
    "C18": "names at the documented length limits; odd characters inside texts; manglings of lines with a tab inside a quoted string; one-over-the-limit files as informational controls. Fourth wave: literals + trailing comments on expression lines; keywords inside quoted texts.",
    "C19": "chain / deep / SPELL (IDF_PATH spellings incl. symlinks) / TWIN (equally named project directories) layout families. Fourth wave: CMakeLists.txt content shapes.",
    "C20": "rendered conditions read back with eval_string; mirror symbols; target-gated choice members referenced outside conditions; the generator's special menu names as menu title and as option prompt. Fourth wave: reverse rows read modulo the right dependencies; twice-defined operands; several (unnamed) choices.",
}
for _k, _v in ADDED.items():
    CLAIMS[_k]["text"] += " Widened after three waves of independently seeded changes: " + _v

CLAIMS["C01"] = dict(
    category="exploration",
    technique="bounded exhaustive enumeration (all programs of 5 families x all user assignments) on the real evaluator, reference-semantics + differential oracles",
    text="Every program of the prec/bool/nest/expr/multi families x every assignment over the per-type value domains is executed on a fresh real Kconfig; value, visibility and assignable set are compared with an independent reference evaluator, and all outputs are compared between an assignment and the same assignment minus hidden options. Complete within the stated alphabets (small-scope), nothing sampled.",
    note="Trusts mck/refsem.py as the reading of language.rst; alphabets exclude constructs the documents are silent on.",
)

#!/bin/sh
# Runs every mck/mutants/cNN_*.diff against check CNN (quick tier) and writes mck/mutants/RESULTS.md.
# usage: tools/run_mutants.sh [pattern]     (pattern defaults to all)
cd /verif || exit 2
out=mck/mutants/RESULTS.md
tmp=$(mktemp /var/tmp/mutres.XXXXXX)
ls mck/mutants/${1:-c}*.diff | xargs -P 4 -I{} sh -c '
  f={}; b=$(basename "$f" .diff); id=$(echo "$b" | cut -c1-3 | tr c C)
  r=$(tools/mutant.sh "$f" "$id" 2>&1)
  base=$(echo "$r" | grep -c "baseline still passes")
  det=$(echo "$r" | grep -E "^(DETECTED|MISSED|HARNESS-ERROR|PATCH-FAILED)" | head -1 | cut -d" " -f1)
  sig=$(echo "$r" | grep -o "sig={.*}" | head -1 | cut -c1-160)
  echo "| $b | $id | $([ "$base" = 1 ] && echo passes || echo BROKEN) | $det | $sig |"
' > "$tmp"
{
  echo "# Mutant results (quick tier, $(git -C /repo log --format=%h -1))"
  echo
  echo "| mutant | check | repository baseline with the mutant | verdict | first violation class |"
  echo "|---|---|---|---|---|"
  sort "$tmp"
} > "$out"
rm -f "$tmp"
grep -c DETECTED "$out"; grep -c MISSED "$out"

#!/usr/bin/env python3
"""seed_eval.py <CNN-x> [<ID> ...]  -- verifies an independently seeded change and runs our checks against it.
Reads /tmp/seed/out/<CNN-x>/{patch.diff,demo.py,meta.json}; in a scratch COPY of /repo: demo must exit 0 unpatched and 1
patched, baseline must pass patched; then runs the named checks (default: the property's own check) via MCK_REPO.
Keeps the change under /verif/seeded/<CNN-x>/ with an augmented meta.json.  The copy is removed."""
import json, os, shutil, subprocess, sys, tempfile

name = sys.argv[1]
src = os.path.join(os.environ.get("SEED_DIR", "/tmp/seed/out"), name)
prop = name.split("-")[0]
checks = sys.argv[2:] or [prop]
# second / third wave (SEED_WAVE=2 / 3): a/b are stored as c/d resp. e/f
wave = os.environ.get("SEED_WAVE", "1")
dst_name = name if wave == "1" else prop + "-" + {"2": {"a": "c", "b": "d"}, "3": {"a": "e", "b": "f"}, "4": {"a": "g", "b": "h"}, "5": {"a": "i", "b": "j"}}[wave][name.split("-")[1]]
d = tempfile.mkdtemp(prefix="seedeval-", dir="/var/tmp")
subprocess.run(["rsync", "-a", "--exclude", ".git", "--exclude", "__pycache__", "/repo/", d + "/"], check=True)
env = dict(os.environ, PYTHONPATH=d, KCONFIG_REPORT_VERBOSITY="quiet")
def demo():
    p = subprocess.run(["/venv/bin/python", f"{src}/demo.py"], cwd=d, env=env, stdout=subprocess.PIPE, stderr=subprocess.STDOUT, text=True, timeout=600)
    return p.returncode, p.stdout[-600:]
res = {"verified_by": "tools/seed_eval.py"}
res["demo_unpatched_exit"], out0 = demo()
ap = subprocess.run(["patch", "-p1", "-s", "-i", f"{src}/patch.diff"], cwd=d, stdout=subprocess.PIPE, stderr=subprocess.STDOUT, text=True)
res["patch_applies_to_current_repo"] = ap.returncode == 0
if ap.returncode != 0:
    res["patch_error"] = ap.stdout[-400:]
else:
    res["demo_patched_exit"], out1 = demo()
    res["demo_patched_output_tail"] = out1[-300:]
    b = subprocess.run(["/verif/tools/baseline.py", d], stdout=subprocess.PIPE, text=True)
    res["baseline_with_patch"] = b.stdout.strip().splitlines()[0] if b.stdout else "?"
    res["baseline_passes_with_patch"] = b.returncode == 0
    res["checks"] = {}
    for c in checks:
        p = subprocess.run(["./check", c, "--tier", os.environ.get("TIER", "quick")], cwd="/verif", env=dict(os.environ, MCK_REPO=d), stdout=subprocess.PIPE, stderr=subprocess.STDOUT, text=True)
        first = next((l for l in p.stdout.splitlines() if l.startswith("  ")), "")
        res["checks"][c] = {"exit": p.returncode, "verdict": {0: "MISSED", 1: "DETECTED"}.get(p.returncode, "HARNESS-ERROR"), "first_violation": first.strip()[:300]}
shutil.rmtree(d, ignore_errors=True)
shutil.rmtree("/var/tmp/mck-out-" + os.path.basename(d), ignore_errors=True)
meta = json.load(open(f"{src}/meta.json")) if os.path.exists(f"{src}/meta.json") else {}
meta["our_verification"] = res
dst = f"/verif/seeded/{dst_name}"
os.makedirs(dst, exist_ok=True)
for f in ("patch.diff", "demo.py"):
    shutil.copy(f"{src}/{f}", dst)
json.dump(meta, open(f"{dst}/meta.json", "w"), indent=1)
ok = res.get("demo_unpatched_exit") == 0 and res.get("demo_patched_exit") == 1 and res.get("baseline_passes_with_patch")
print(dst_name, "VALID" if ok else "INVALID", {c: v["verdict"] for c, v in res.get("checks", {}).items()}, "" if ok else res)

#!/bin/sh
# usage: tools/mutant.sh <patch.diff> <ID> [<ID>...]   [env SKIP_BASELINE=1] [env TIER=quick]
# Applies the patch to a scratch copy of /repo, runs the pinned baseline there (must still pass for the mutant to
# count), runs the named checks against the copy (MCK_REPO), prints DETECTED / MISSED per check, removes the copy.
patch=$(readlink -f "$1"); shift
d=$(mktemp -d /var/tmp/mut-XXXXXX)
rsync -a --exclude .git --exclude __pycache__ /repo/ "$d/"
if ! (cd "$d" && patch -p1 -s < "$patch"); then echo "PATCH-FAILED $patch"; rm -rf "$d"; exit 3; fi
if [ -z "$SKIP_BASELINE" ]; then
  if /verif/tools/baseline.py "$d" >/tmp/mut-baseline.$$ 2>&1; then echo "baseline still passes with $patch"; else echo "BASELINE-BROKEN by $patch"; tail -5 /tmp/mut-baseline.$$; fi
  rm -f /tmp/mut-baseline.$$
fi
for id in "$@"; do
  out=$(cd /verif && MCK_REPO="$d" ./check "$id" --tier "${TIER:-quick}" 2>&1); rc=$?
  if [ $rc -eq 1 ]; then echo "DETECTED $id $(basename "$patch")"; echo "$out" | grep -A1 '^VIOLATION' | head -4
  elif [ $rc -eq 0 ]; then echo "MISSED $id $(basename "$patch")"
  else echo "HARNESS-ERROR($rc) $id $(basename "$patch")"; echo "$out" | tail -5; fi
done
rm -rf "$d" "/var/tmp/mck-out-$(basename "$d")"

#!/usr/bin/env python3
"""mkmutant.py <name> <relative file> : reads OLD and NEW from two files given as argv[3], argv[4] (or '-' markers on stdin
separated by a line '=====') and writes /verif/mck/mutants/<name>.diff (unified diff against /repo)."""
import difflib, sys
name, rel = sys.argv[1], sys.argv[2]
data = sys.stdin.read()
old, new = data.split("\n=====\n")
old = old.rstrip("\n"); new = new.rstrip("\n")
src = open(f"/repo/{rel}").read()
assert src.count(old) == 1, f"OLD occurs {src.count(old)} times"
dst = src.replace(old, new)
d = difflib.unified_diff(src.splitlines(True), dst.splitlines(True), f"a/{rel}", f"b/{rel}")
open(f"/verif/mck/mutants/{name}.diff", "w").write("".join(d))
print("wrote", name)

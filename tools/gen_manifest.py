#!/usr/bin/env python3
"""Regenerates /verif/MANIFEST.json from the table below and validates it against the schema."""
import json, os, subprocess, sys

V = "/verif"
props = [json.loads(l) for l in open(f"{V}/properties.jsonl")]

# id -> (category, technique, text, note, design_ref)
CLAIMS = {}
exec(open(f"{V}/tools/claims.py").read())

checks = []
na = []
for p in props:
    pid = p["id"]
    if pid in CLAIMS:
        c = CLAIMS[pid]
        checks.append({
            "property_id": pid,
            "quick_cmd": f"./check {pid} --tier quick",
            "thorough_cmd": f"./check {pid} --tier thorough",
            "evidence_file": f"/verif/evidence/{pid}.json",
            "replay_cmd_template": f"./check {pid} --replay {{path}}",
            "engine": "mck",
            "level_claimed": {"category": c["category"], "text": c["text"], "design_ref": f"DESIGN.md §3 {pid}"},
            "level_note": c["note"],
            "technique": c["technique"],
        })
    else:
        na.append({"property_id": pid, "reason": "check not built yet in this session (planned in DESIGN.md §3 %s); no claim is made" % pid})

m = {
    "version": 1,
    "setup_cmd": "/venv/bin/python -c \"import esp_kconfiglib, kconfgen, kconfserver, esp_menuconfig, kconfcheck; print('ok')\"",
    "hooks": {
        "guard": "ESP_IDF_KCONFIG_VERIF",
        "enable": "none needed: checks import the working tree of /repo (editable install) and interpose from /verif at run time; no source hooks exist",
        "baseline_off_cmd": "/verif/tools/baseline.py /repo",
        "source_commits": [],
        "add_only": True,
    },
    "engines": [{
        "name": "mck",
        "path": "/verif/mck",
        "serves_properties": [c["property_id"] for c in checks],
        "kind_free_text": "hand-written explicit-state / bounded-exhaustive explorer for Python: complete enumeration of program families x configurations x operation histories x crash points, executed on the real implementation (fresh instance per explored state), with reference-model and differential oracles",
    }],
    "checks": checks,
    "not_applicable": na,
    "notes": "All checks run against /repo's working tree through /venv/bin/python (editable install); MCK_REPO=<dir> points them at a scratch copy (mutants only). Known genuine defects are listed in /verif/known_findings.json.",
}
json.dump(m, open(f"{V}/MANIFEST.json", "w"), indent=1)
open(f"{V}/MANIFEST.json", "a").write("\n")
r = subprocess.run(["python3-vt", "-c", "import json,jsonschema;jsonschema.validate(json.load(open('/verif/MANIFEST.json')),json.load(open('/root/.vp/MANIFEST.schema.json')));print('MANIFEST valid: %d checks, %d not applicable')" % (len(checks), len(na))])
sys.exit(r.returncode)

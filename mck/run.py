"""Entry point:  python -m mck.run <ID> [--tier quick|thorough] [--replay file] [--jobs N]"""
import argparse
import os
import sys

from . import common


def main() -> int:
    ap = argparse.ArgumentParser()
    ap.add_argument("prop")
    ap.add_argument("--tier", default=None)
    ap.add_argument("--replay", default=None)
    ap.add_argument("--jobs", type=int, default=None)
    a = ap.parse_args()
    prop = a.prop.upper()
    modname = f"mck.checks.{prop.lower()}"
    if a.replay:
        return common.run_replay(modname, a.replay)
    tier, seed = common.tier_and_seed(a.tier)
    return common.run_check(modname, tier, seed, a.jobs)


if __name__ == "__main__":
    sys.exit(main())

"""Headless execution of the REAL glue code of esp_menuconfig.app.MenuConfigApp (no terminal, no event loop).

What is real:   MenuConfigState (created by the real esp_menuconfig.menuconfig(kconf, headless=True)), every plain
                function of MenuConfigApp (action_*, _on_*, _handle_*, _apply_input, _do_save, _refresh_menu, on_mount ...)
                bound as methods of a stand-in app object, the functions of MenuOptionList that do the highlighted-row
                bookkeeping (populate / current_node / _select_current / action_*), the key -> action tables (taken from
                the BINDINGS of the two classes), the message -> handler table (taken from the @on decorations), the
                dialog objects (real KeyDialogScreen / InputScreen / LoadScreen / JumpToScreen / InvalidValueScreen
                instances; their on_key / on_input_submitted / action_cancel are the real methods, only `dismiss` is
                redirected to the stand-in screen stack).
What is a stand-in: the Textual App/Widget machinery: a screen STACK (push_screen queues the dialog together with its
                callback; the answer is chosen by the explorer; dismiss pops and calls the callback as Textual does),
                `query_one`, `notify`, `exit` (recorded), the OptionList storage (`clear_options/add_option/highlighted`
                with Textual's validate/watch behaviour), Static.update.

UI alphabet (compound actions, JSON-able tuples):
    ("row", i, KEY, *answers)     highlight row i of the list (row 0 is "<-- Back" inside a menu), press KEY
                                  (enter | space | y | n | r)
    ("key", KEY, *answers)        press KEY on the main screen: a | left | escape | s | q | o | slash | question_mark
                                  (question_mark + ("jump", k): info screen of the highlighted row, `/` inside it)
    answers (at most one per dialog kind; a dialog without an answer is cancelled with Escape):
        ("kd", "y"|"n"|"c"|"o")   key pressed in a KeyDialogScreen (quit / load-anyway / restore-menu / warning)
        ("text", v)               value typed into an InputScreen, then Enter (a rejected value leaves the dialog open:
                                  the "invalid value" pop-up is acknowledged and the dialog cancelled)
        ("file", name)            file name typed into the LoadScreen, then Enter ("@conf" = the session's own file,
                                  other names are resolved through Harness.files)
        ("jump", k)               JumpToScreen: type ".", move down k times, Enter
Every compound action is executed as a list of micro steps (("hl", i) | ("key", k) | ("text", v)); the list is recorded
so that the same keys can be replayed through textual's Pilot on the real MenuConfigApp (see `pilot_replay`).
"""

from __future__ import annotations

import functools
import os
import shutil
import traceback
import types
from types import SimpleNamespace
from typing import Any, Dict, List, Optional, Tuple

from . import common, impl

MCK_DIR = os.path.dirname(os.path.abspath(__file__))

_cls_cache: Dict[str, Any] = {}


# --------------------------------------------------------------------------------------------------
# stand-ins
# --------------------------------------------------------------------------------------------------


class StaticStub:
    def __init__(self) -> None:
        self.text = ""
        self.display = True

    def update(self, text: Any = "") -> None:
        self.text = text


class ListBase:
    """Storage part of textual's OptionList; the menuconfig specific part is copied from the real MenuOptionList."""

    def __init__(self, harness: "Harness") -> None:
        self._h = harness
        self._menu_nodes: list = []
        self.options: list = []
        self._hl: Optional[int] = None

    # -- OptionList storage
    def clear_options(self) -> "ListBase":
        self.options = []
        self.highlighted = None
        return self

    def add_option(self, label: Any = None) -> "ListBase":
        self.options.append(label)
        return self

    @property
    def highlighted(self) -> Optional[int]:
        return self._hl

    @highlighted.setter
    def highlighted(self, v: Optional[int]) -> None:
        # OptionList.validate_highlighted + watch_highlighted
        if v is None or not self.options:
            v = None
        elif v < 0:
            v = 0
        elif v >= len(self.options):
            v = len(self.options) - 1
        if v != self._hl:
            self._hl = v
            if v is not None:
                self._h._deferred.append(v)  # OptionHighlighted message, handled after the current handler

    def focus(self) -> None:
        pass

    def post_message(self, msg: Any) -> bool:
        self._h._dispatch(msg)
        return True

    # -- inherited OptionList cursor actions (only used through the real BINDINGS table)
    def action_cursor_down(self) -> None:
        if self.options:
            self.highlighted = 0 if self._hl is None else (self._hl + 1) % len(self.options)

    def action_cursor_up(self) -> None:
        if self.options:
            self.highlighted = len(self.options) - 1 if self._hl is None else (self._hl - 1) % len(self.options)

    def action_first(self) -> None:
        if self.options:
            self.highlighted = 0

    def action_last(self) -> None:
        if self.options:
            self.highlighted = len(self.options) - 1


class AppBase:
    def __init__(self, harness: "Harness", state: Any) -> None:
        self._h = harness
        self.state = state
        self.exited = False
        self.return_value: Any = None
        self.notes: List[Tuple[str, str]] = []

    def query_one(self, selector: str, _type: Any = None) -> Any:
        return self._h.widgets[selector]

    def push_screen(self, screen: Any, callback: Any = None, **_kw: Any) -> None:
        self._h._push(screen, callback)

    def pop_screen(self) -> None:
        self._h.stack.pop()

    def notify(self, message: str, *, title: str = "", severity: str = "information", **_kw: Any) -> None:
        self.notes.append((severity, str(message)))

    def exit(self, result: Any = None, *_a: Any, **_kw: Any) -> None:
        self.exited = True
        self.return_value = result


def _keymap(bindings: Any) -> Dict[str, str]:
    m: Dict[str, str] = {}
    for b in bindings:
        keys, action = (b.key, b.action) if hasattr(b, "key") else (b[0], b[1])
        for k in keys.split(","):
            m[k.strip()] = action
    return m


def _classes() -> Dict[str, Any]:
    """Builds (once per process) the stand-in classes out of the functions of the real classes."""
    if _cls_cache:
        return _cls_cache
    from esp_menuconfig.app import MenuConfigApp
    from esp_menuconfig.widgets import MenuOptionList

    ns: Dict[str, Any] = {}
    handlers: List[Tuple[Any, str]] = []
    for name, f in vars(MenuConfigApp).items():
        if isinstance(f, types.FunctionType) and name not in ("__init__", "compose"):
            ns[name] = f
            for mtype, _sel in getattr(f, "_textual_on", []) or []:
                handlers.append((mtype, name))
    app_cls = type("HeadlessMenuConfigApp", (AppBase,), ns)

    lns: Dict[str, Any] = {}
    for name, f in vars(MenuOptionList).items():
        if name in ("__init__", "get_content_height", "on_option_list_option_selected", "BINDINGS", "__module__", "__dict__", "__weakref__", "__doc__"):
            continue
        if isinstance(f, (types.FunctionType, property, type)) or name == "_BACK_LABEL":
            lns[name] = f
    list_cls = type("HeadlessMenuOptionList", (ListBase,), lns)

    _cls_cache.update(
        app=app_cls,
        list=list_cls,
        handlers=handlers,
        app_keys=_keymap(MenuConfigApp.BINDINGS),
        list_keys=_keymap(MenuOptionList.BINDINGS),
    )
    return _cls_cache


KEYCHAR = {"space": " ", "slash": "/", "question_mark": "?", "enter": "\r", "escape": "\x1b"}


class Raised(Exception):
    """An exception escaped from the implementation while a UI step was executed (an observation)."""

    def __init__(self, index: int, action: Any, micro: Any, exc: BaseException):
        tb = traceback.extract_tb(exc.__traceback__)
        site = "?"
        for fr in reversed(tb):
            if not fr.filename.startswith(MCK_DIR + os.sep):
                site = f"{os.path.basename(fr.filename)}:{fr.name}"
                break
        self.index, self.action, self.micro = index, action, micro
        self.exc_type, self.site, self.text = type(exc).__name__, site, str(exc)[:200]
        self.ctx: Dict[str, Any] = {}
        super().__init__(f"action #{index} {action!r} (at step {micro!r}) raised {self.exc_type}: {self.text} at {site}")


def _is_harness_frame(exc: BaseException) -> bool:
    tb = traceback.extract_tb(exc.__traceback__)
    return bool(tb) and tb[-1].filename.startswith(MCK_DIR + os.sep)


_live: List["Harness"] = []
_counter = 0


class quiet_stderr:
    """fd 2 -> /dev/null for the duration (the library prints through rich); restored afterwards"""

    def __enter__(self) -> "quiet_stderr":
        self.saved = None
        if not os.environ.get("MCK_DEBUG"):
            import sys

            sys.stderr.flush()
            self.saved = os.dup(2)
            dn = os.open(os.devnull, os.O_WRONLY)
            os.dup2(dn, 2)
            os.close(dn)
        return self

    def __exit__(self, *a: Any) -> None:
        if self.saved is not None:
            import sys

            sys.stderr.flush()
            os.dup2(self.saved, 2)
            os.close(self.saved)


def close_all() -> None:
    while _live:
        _live.pop().close()


class Harness:
    """One fresh session: fresh Kconfig, fresh sdkconfig file, real MenuConfigState, stand-in app."""

    def __init__(self, spec: Dict[str, Any], keep: bool = False):
        """spec: files {name: text} (root "Kconfig"; further entries are files offered to the Load dialog),
        sdk (text of the initial sdkconfig or None = absent), renames (list of rename-file texts or None),
        env ({} or e.g. {"IDF_TARGET": "esp32", "IDF_VERSION": "v9.9"} -- decides the header _do_save builds)."""
        global _counter
        if not keep:
            close_all()
        _counter += 1
        self.spec = spec
        # one live session per process in the normal case: the directory is reused, only the files are replaced
        self.dir = os.path.join(impl.wdir(), f"hl{_counter}" if keep else "hl")
        os.makedirs(self.dir, exist_ok=True)
        _live.append(self)
        self.conf = os.path.join(self.dir, "sdkconfig")
        self._rm_files()
        if spec.get("sdk") is not None:
            with open(self.conf, "w") as f:
                f.write(spec["sdk"])
        self.env = {"KCONFIG_CONFIG": self.conf}
        self.env.update(spec.get("env") or {})
        self.stack: List[Tuple[Any, Any]] = []
        self._values: Dict[int, str] = {}
        self._jump_hl: Dict[int, Optional[int]] = {}
        self._deferred: List[int] = []
        self.micro: List[tuple] = []  # executed micro steps (all actions)
        self.obs_log: List[dict] = []  # observation after every micro step (only with observe=True)
        self.observe_steps = False
        self.setval_log: List[tuple] = []
        self.input_log: List[tuple] = []  # (typed value, accepted by the dialog's validator)
        self.empty = False
        self.rejected: Optional[str] = None
        self.app: Any = None
        self.state: Any = None
        self.last_target: Any = None
        self.last_menu_kind = "top"
        self.last_target_kind: Optional[str] = None
        self._apply_env()
        try:
            self.inst = impl.Inst(spec["files"], renames=spec.get("renames") or None)
        except Exception as e:  # noqa: BLE001 -- the parser rejects the tree (e.g. dependency loop): not a well-formed tree
            if _is_harness_frame(e):
                raise
            self.rejected = f"{type(e).__name__}: {str(e).strip()[:120]}"
            self.empty = True
            return
        try:
            self.k = self.inst.k
            self.progdir = os.path.dirname(self.inst.path)
            import esp_menuconfig

            esp_menuconfig._module_state = None
            self.k.report.reset()
            esp_menuconfig.menuconfig(self.k, headless=True)
            self.state = esp_menuconfig._module_state
        except Exception as e:  # noqa: BLE001
            if _is_harness_frame(e):
                raise
            raise Raised(-1, ("init",), ("init",), e) from e
        if self.state is None:
            self.empty = True  # "Empty configuration -- nothing to configure": the UI never starts
            return
        self._index_nodes()
        self._wrap_set_val()
        c = _classes()
        self.app = c["app"](self, self.state)
        self.ml = c["list"](self)
        self.widgets = {"#menu-list": self.ml, "#path-bar": StaticStub(), "#mode-bar": StaticStub(), "#help-bar": StaticStub()}
        self._guard(-1, ("mount",), ("mount",), self.app.on_mount)

    # ---------------------------------------------------------------- environment
    def _apply_env(self) -> None:
        for k, v in self.env.items():
            os.environ[k] = v

    def _rm_files(self) -> None:
        for n in ("sdkconfig", "sdkconfig.old", "expected.out"):
            try:
                os.unlink(os.path.join(self.dir, n))
            except OSError:
                pass

    def close(self) -> None:
        if os.path.basename(self.dir) == "hl":
            self._rm_files()
        else:
            shutil.rmtree(self.dir, ignore_errors=True)
        for k in self.env:
            os.environ.pop(k, None)
        if self in _live:
            _live.remove(self)

    # ---------------------------------------------------------------- nodes
    def _index_nodes(self) -> None:
        self.nodes: List[Any] = []

        def rec(n):
            while n:
                self.nodes.append(n)
                if n.list:
                    rec(n.list)
                n = n.next

        self.nodes.append(self.k.top_node)
        rec(self.k.top_node.list)
        self.node_ix = {id(n): i for i, n in enumerate(self.nodes)}

    def nid(self, node: Any) -> int:
        if node is None:
            return -1
        return self.node_ix.get(id(node), -2)

    def node_kind(self, node: Any) -> str:
        """abstract kind of a menu node, used in violation signatures"""
        if node is None:
            return "back"
        from esp_kconfiglib.core import COMMENT, MENU, TYPE_TO_STR, Choice, Symbol

        it = node.item
        if node is self.k.top_node:
            return "top"
        if it == MENU:
            k = "menu"
        elif it == COMMENT:
            k = "comment"
        elif isinstance(it, Choice):
            k = "choice" if node.prompt else "choice_noprompt"
            if len(it.nodes) > 1:
                k += f"#{it.nodes.index(node)}"
        elif isinstance(it, Symbol):
            k = "sym:" + TYPE_TO_STR.get(it.orig_type, "?")
            if it.choice is not None:
                k += ":member"
            if node.is_menuconfig and node.list:
                k += ":menuconfig"
            elif node.list:
                k += ":implicit_submenu"
            if it.warning:
                k += ":warning"
            if not node.prompt:
                k += ":noprompt"
        else:
            k = "?"
        return k

    def node_label(self, node: Any) -> str:
        if node is None:
            return "<back>"
        it = node.item
        name = getattr(it, "name", None)
        if name:
            return name
        return f"{self.node_kind(node)}:{node.prompt[0] if node.prompt else ''}"

    # ---------------------------------------------------------------- instrumentation (pure observation)
    def _wrap_set_val(self) -> None:
        st = self.state
        real = st._set_val  # bound real method
        log = self.setval_log

        def _set_val(sc: Any, val: Any) -> None:
            # same reads _perform_toggle / set_sel_node_bool_val have just done
            try:
                asg = tuple(sc.assignable)
            except Exception:  # noqa: BLE001
                asg = None
            log.append((getattr(sc, "name", None), val, asg, sc.str_value))
            real(sc, val)

        st._set_val = _set_val  # instance attribute shadows the method for self._set_val(...) calls

    # ---------------------------------------------------------------- stand-in plumbing
    def _push(self, screen: Any, callback: Any) -> None:
        screen.dismiss = functools.partial(self._dismiss, screen)
        self.stack.append((screen, callback))
        name = type(screen).__name__
        if name == "InputScreen":
            self._values[id(screen)] = screen.initial_text
        elif name == "LoadScreen":
            self._values[id(screen)] = screen.default_filename
        elif name == "JumpToScreen":
            self._values[id(screen)] = ""
            self._jump_hl[id(screen)] = None

    def _dismiss(self, screen: Any, result: Any = None) -> None:
        if not self.stack or self.stack[-1][0] is not screen:
            raise RuntimeError("harness: dismiss of a screen that is not on top")
        _, cb = self.stack.pop()
        if cb is not None:
            cb(result)

    def _dispatch(self, msg: Any) -> None:
        for mtype, name in _classes()["handlers"]:
            if type(msg) is mtype:
                getattr(self.app, name)(msg)

    def _flush_deferred(self) -> None:
        while self._deferred:
            idx = self._deferred.pop(0)
            self.app._on_option_highlighted(SimpleNamespace(option_index=idx))

    def top_screen(self) -> str:
        return type(self.stack[-1][0]).__name__ if self.stack else "main"

    # ---------------------------------------------------------------- micro steps
    def _guard(self, index: int, action: Any, micro: Any, fn: Any, *a: Any) -> None:
        from textual._context import active_app

        tok = active_app.set(self.app)
        try:
            fn(*a)
            self._flush_deferred()
        except Exception as e:  # noqa: BLE001
            if isinstance(e, Raised) or _is_harness_frame(e):
                raise
            raise Raised(index, action, micro, e) from e
        finally:
            active_app.reset(tok)

    def _do_micro(self, m: tuple) -> None:
        kind = m[0]
        if self.app.exited:
            return
        if kind == "hl":
            self.ml.highlighted = m[1]
        elif kind == "key":
            self._key(m[1])
        elif kind == "text":
            self._text(m[1])
        else:
            raise ValueError(m)

    def _key(self, key: str) -> None:
        from textual import events

        c = _classes()
        if not self.stack:
            a = c["list_keys"].get(key)
            if a is not None:
                getattr(self.ml, "action_" + a)()
                return
            a = c["app_keys"].get(key)
            if a is not None and a != "command_palette":
                getattr(self.app, "action_" + a)()
            return
        scr, _cb = self.stack[-1]
        name = type(scr).__name__
        ch = KEYCHAR.get(key, key if len(key) == 1 else None)
        if name == "KeyDialogScreen":
            if key == "escape":
                scr.action_cancel()
            else:
                scr.on_key(events.Key(key, ch))
        elif name == "InvalidValueScreen":
            scr.on_key(events.Key(key, ch))
        elif name in ("InputScreen", "LoadScreen"):
            if key == "escape":
                scr.action_cancel()
            elif key == "enter":
                v = self._values[id(scr)]
                scr.on_input_submitted(SimpleNamespace(value=v))
                if name == "InputScreen":
                    self.input_log.append((v, not any(x[0] is scr for x in self.stack)))
        elif name == "InfoScreen":
            if key == "slash":
                scr.action_jump_to()
            elif key in ("escape", "q", "h", "left", "backspace"):
                scr.action_dismiss_screen()
        elif name == "JumpToScreen":
            hl = self._jump_hl[id(scr)]
            if key == "escape":
                scr.action_cancel()
            elif key == "down":
                if scr._matches:
                    self._jump_hl[id(scr)] = 0 if hl is None else (hl + 1) % len(scr._matches)
            elif key == "up":
                if scr._matches:
                    self._jump_hl[id(scr)] = len(scr._matches) - 1 if hl is None else (hl - 1) % len(scr._matches)
            elif key == "enter":
                if scr._matches and hl is not None:  # JumpToScreen.on_key
                    scr.dismiss(scr._matches[hl])
        else:
            raise RuntimeError(f"harness: no key model for screen {name}")

    def _text(self, v: str) -> None:
        scr, _cb = self.stack[-1]
        name = type(scr).__name__
        self._values[id(scr)] = v
        if name == "JumpToScreen":  # JumpToScreen.on_input_changed
            scr._matches, error = scr._state.search_nodes(v)
            self._jump_hl[id(scr)] = 0 if (scr._matches and not error) else None

    # ---------------------------------------------------------------- compound actions
    def resolve_file(self, name: str) -> str:
        if name == "@conf":
            return self.conf
        if name.startswith("@missing"):
            return os.path.join(self.dir, "no-such-file")
        return os.path.join(self.progdir, name)

    def run_action(self, index: int, action: tuple) -> None:
        """Executes one compound action; raises Raised if the implementation raises."""
        self._apply_env()
        if action[0] == "row":
            first = [("hl", action[1]), ("key", action[2])]
            answers = action[3:]
        elif action[0] == "key":
            first = [("key", action[1])]
            answers = action[2:]
        else:
            raise ValueError(action)
        ans: Dict[str, Any] = {}
        for a in answers:
            ans[a[0]] = a[1]

        def step(m: tuple) -> None:
            self.micro.append(m)
            self._guard(index, action, m, self._do_micro, m)
            if self.observe_steps:
                self.obs_log.append(self.observe())

        for m in first:
            step(m)
        budget = 12
        info_searched = False
        while self.stack and not self.app.exited:
            budget -= 1
            if budget < 0:
                raise RuntimeError("harness: dialogs do not settle")
            name = self.top_screen()
            if name == "KeyDialogScreen":
                k = ans.pop("kd", None)
                step(("key", k if k is not None else "escape"))
            elif name == "InvalidValueScreen":
                step(("key", "space"))
                step(("key", "escape"))  # the input dialog underneath is cancelled
            elif name == "InputScreen":
                if "text" in ans:
                    step(("text", ans.pop("text")))
                    step(("key", "enter"))
                else:
                    step(("key", "escape"))
            elif name == "LoadScreen":
                if "file" in ans:
                    step(("text", self.resolve_file(ans.pop("file"))))
                    step(("key", "enter"))
                else:
                    step(("key", "escape"))
            elif name == "InfoScreen":
                if "jump" in ans and not info_searched:
                    info_searched = True
                    step(("key", "slash"))
                else:
                    step(("key", "escape"))
            elif name == "JumpToScreen":
                if "jump" in ans:
                    k = ans.pop("jump")
                    step(("text", "."))
                    for _ in range(k):
                        step(("key", "down"))
                    step(("key", "enter"))
                    if self.top_screen() == "JumpToScreen":
                        step(("key", "escape"))
                else:
                    step(("key", "escape"))
            else:
                step(("key", "escape"))

    # ---------------------------------------------------------------- observations
    def file_text(self) -> Optional[str]:
        try:
            with open(self.conf, newline="") as f:
                return f.read()
        except FileNotFoundError:
            return None

    def expected_text(self) -> str:
        """what `s` would write now: write_config with the header exactly as _do_save builds it"""
        from esp_menuconfig.idf_headers import idf_sdkconfig_header

        self._apply_env()
        p = os.path.join(self.dir, "expected.out")
        self.k.write_config(p, header=idf_sdkconfig_header(), save_old=False, write_deprecated=False)
        with open(p, newline="") as f:
            t = f.read()
        os.unlink(p)
        return t

    def observe(self) -> dict:
        """everything compared between the headless run and the Pilot run (reads all values on both sides)"""
        st = self.state
        app = self.app
        return observe_app(self, st, app.exited, app.return_value, self.ml._menu_nodes, self.ml.highlighted, self.top_screen(), self.conf)

    def user_key(self) -> tuple:
        k = self.k
        syms = tuple(
            (s._user_value, s._sdkconfig_value, s._loaded_as_default, repr(s.defaults[0][0].name) if getattr(s, "_default_value_injected", False) else 0)
            for s in k.unique_defined_syms
        )
        chs = tuple((c._user_selection.name if c._user_selection is not None else None, c._user_value) for c in k.unique_choices)
        return syms, chs, tuple(k.missing_syms)

    def canon(self) -> tuple:
        """canonical key of a session state (deliberately fine)"""
        if self.empty:
            return ("empty",)
        st = self.state
        app = self.app
        ret = app.return_value
        if isinstance(ret, str):
            ret = ret.replace(self.dir, "<dir>")
        return (
            self.user_key(),
            self.nid(st.cur_menu),
            st.show_all,
            st.sel_node_i,
            tuple(self.nid(n) for n in st.shown),
            tuple(self.nid(n) for n in self.ml._menu_nodes),
            self.ml.highlighted,
            st.conf_changed,
            app.exited,
            ret,
            common.h64(self.file_text() or "\0absent"),
        )

    # ---------------------------------------------------------------- alphabet
    def rows(self) -> List[Tuple[int, Any]]:
        return list(enumerate(self.ml._menu_nodes))

    def jump_targets(self) -> List[Any]:
        return list(self.state.search_nodes(".")[0])


def observe_app(h: Harness, st: Any, exited: bool, ret: Any, menu_nodes: list, hl: Optional[int], top: str, conf: str) -> dict:
    try:
        with open(conf, newline="") as f:
            ft: Optional[str] = f.read()
    except FileNotFoundError:
        ft = None
    if isinstance(ret, str):
        ret = ret.replace(os.path.dirname(conf), "<dir>")
    return {
        "cur_menu": h.nid(st.cur_menu),
        "shown": [h.nid(n) for n in st.shown],
        "rows": [h.nid(n) for n in menu_nodes],
        "hl": hl,
        "sel_node_i": st.sel_node_i,
        "show_all": st.show_all,
        "conf_changed": st.conf_changed,
        "values": {s.name: s.str_value for s in st.kconf.unique_defined_syms},
        "needs_save": st.needs_save(),
        "screen": top,
        "exited": exited,
        "ret": ret,
        "file": ft,
    }


def norm_action(a: Any) -> tuple:
    """JSON round trip: lists back to tuples"""
    return tuple(tuple(x) if isinstance(x, list) else x for x in a)


def norm_history(h: Any) -> tuple:
    return tuple(norm_action(a) for a in h)


def replay(spec: Dict[str, Any], history: Any, observe: bool = False, keep: bool = False) -> Harness:
    """Fresh session, then the history.  Raises Raised (with .harness) when the implementation raises."""
    try:
        h = Harness(spec, keep=keep)
    except Raised as e:
        e.ctx = {"menu": "init", "target": None}
        raise
    if h.empty:
        return h
    h.observe_steps = observe
    if observe:
        h.obs_log.append(h.observe())
    for i, a in enumerate(history):
        if h.app.exited:
            break
        pre_menu = h.node_kind(h.state.cur_menu)
        target = None
        if a[0] == "row" and a[1] < len(h.ml._menu_nodes):
            target = h.node_kind(h.ml._menu_nodes[a[1]])
            n = h.ml._menu_nodes[a[1]]
            if n is not None and not h.state._visible(n):
                target += ":hidden"
        if i == len(history) - 1:
            del h.setval_log[:]
            del h.input_log[:]
            h.last_target = h.ml._menu_nodes[a[1]] if (a[0] == "row" and a[1] < len(h.ml._menu_nodes)) else None
            h.last_menu_kind = pre_menu
            h.last_target_kind = target
        try:
            h.run_action(i, a)
        except Raised as e:
            e.ctx = {"menu": pre_menu, "target": target, "show_all": bool(h.state.show_all)}
            raise
    return h


def action_abstract(a: tuple) -> str:
    """abstract form of a compound action for signatures: key + kinds of the answers"""
    key = a[2] if a[0] == "row" else a[1]
    ans = a[3:] if a[0] == "row" else a[2:]
    parts = [("row:" if a[0] == "row" else "") + key]
    for x in ans:
        parts.append(x[0] + ("=" + str(x[1]) if x[0] == "kd" else ""))
    return "+".join(parts)


FAMILY = {"a": "show_all", "slash": "jump", "question_mark": "info_jump", "o": "load", "s": "save", "q": "quit", "r": "reset", "left": "leave", "escape": "leave", "y": "set_bool", "n": "set_bool"}


def action_family(a: tuple, target_kind: Optional[str] = None) -> str:
    """coarse family of a compound action for signatures: leave | activate | input | set_bool | reset | show_all | jump |
    info_jump | load | save | quit"""
    if a[0] not in ("row", "key"):
        return str(a[0])
    key = a[2] if a[0] == "row" else a[1]
    ans = a[3:] if a[0] == "row" else a[2:]
    if a[0] == "row" and key == "enter" and target_kind is not None and target_kind.startswith("back"):
        return "leave"
    if key in FAMILY:
        return FAMILY[key]
    if any(x[0] == "text" for x in ans):
        return "input"
    return "activate"  # Enter / Space


def fmt_history(h: Any) -> str:
    return " ; ".join(repr(tuple(a)) for a in h)


# --------------------------------------------------------------------------------------------------
# the compact UI alphabet
# --------------------------------------------------------------------------------------------------


def enumerate_actions(h: Harness, typed: Dict[str, List[str]], loads: List[str], full: bool, jumps: bool = True, info: bool = False) -> List[tuple]:
    """All compound actions offered in the current state.
    typed: values typed into the input dialog per option type; loads: file names for the Load dialog;
    full=False leaves out keys whose handler provably takes the same path as another offered key
    (Enter vs Space on a plain bool, y/n vs Space on a plain bool, Escape vs Left inside a menu, cancelled dialogs)."""
    from esp_kconfiglib.core import BOOL, COMMENT, MENU, TYPE_TO_STR, Choice, Symbol

    if h.empty or h.app.exited:
        return []
    st = h.state
    out: List[tuple] = []
    for i, n in h.rows():
        if n is None:
            out.append(("row", i, "enter"))
            if full:
                out.append(("row", i, "y"))
                out.append(("row", i, "r"))
            continue
        it = n.item
        if it == MENU:
            out.append(("row", i, "enter"))
            out.append(("row", i, "r", ("kd", "y")))
            if full:
                out.append(("row", i, "space"))
                out.append(("row", i, "r", ("kd", "n")))
        elif it == COMMENT:
            out.append(("row", i, "r"))
            if full:
                out.append(("row", i, "enter"))
                out.append(("row", i, "y"))
        elif isinstance(it, Choice):
            out.append(("row", i, "enter"))
            out.append(("row", i, "r"))
            if full:
                out.append(("row", i, "space"))
                out.append(("row", i, "y"))
                out.append(("row", i, "n"))
        elif isinstance(it, Symbol):
            warn = [("kd", "y")] if it.warning else []
            if it.orig_type == BOOL:
                if full or warn:
                    keys = ["space", "y", "n"]  # y / n bypass the warning dialog
                elif it.choice is not None:
                    keys = ["space", "y"]  # Space selects the member and leaves the choice menu, y only selects
                else:
                    keys = ["space"]  # on a plain bool y / n call the same _set_val as Space (or do nothing)
                if full or (n.is_menuconfig and n.list):
                    keys.insert(0, "enter")
                for k in keys:
                    if warn and k in ("space", "enter"):
                        out.append(("row", i, k, ("kd", "y")))
                        out.append(("row", i, k, ("kd", "n")))
                    else:
                        out.append(("row", i, k))
                out.append(("row", i, "r"))
            else:
                vals = typed.get(TYPE_TO_STR.get(it.orig_type, ""), [])
                for v in vals:
                    out.append(("row", i, "enter", *warn, ("text", v)))
                if full:
                    if vals:
                        out.append(("row", i, "space", *warn, ("text", vals[0])))
                    out.append(("row", i, "enter", *warn))  # dialog opened and cancelled
                    if warn:
                        out.append(("row", i, "enter", ("kd", "n")))
                out.append(("row", i, "r"))
    out.append(("key", "a"))
    if st.cur_menu is not h.k.top_node:
        out.append(("key", "left"))
        if full:
            out.append(("key", "escape"))
    if jumps:
        nt = len(h.jump_targets())
        for k in range(nt):
            out.append(("key", "slash", ("jump", k)))
        if info:
            # `?` (info screen of the highlighted row), `/` inside it, pick match k
            for k in range(nt):
                out.append(("key", "question_mark", ("jump", k)))
    for f in loads:
        out.append(("key", "o", ("kd", "o"), ("file", f)))
    if full and loads:
        out.append(("key", "o", ("kd", "c")))
    out.append(("key", "s"))
    out.append(("key", "q", ("kd", "y")))
    out.append(("key", "q", ("kd", "n")))
    if full:
        out.append(("key", "q", ("kd", "c")))
    return out


# --------------------------------------------------------------------------------------------------
# conformance: the same micro steps through textual's Pilot on the real MenuConfigApp
# --------------------------------------------------------------------------------------------------


def pilot_replay(spec: Dict[str, Any], history: Any, timeout: float = 120.0) -> Tuple[int, Optional[dict]]:
    """Runs `history` headless (recording the observation after every micro step) and then feeds the same micro steps
    to the real MenuConfigApp under App.run_test().  Returns (number of compared observations, first mismatch or None).
    Raises RuntimeError if Pilot cannot be driven here."""
    import asyncio

    history = norm_history(history)
    hh = replay(spec, history, observe=True)
    if hh.empty:
        return 0, None
    steps = list(hh.micro)
    want = list(hh.obs_log)
    hdir = hh.dir
    # second, independent session for the real app
    ph = Harness.__new__(Harness)
    global _counter
    _counter += 1
    ph.spec = spec
    ph.dir = os.path.join(impl.wdir(), f"pl{_counter}")
    os.makedirs(ph.dir, exist_ok=True)
    _live.append(ph)
    ph.conf = os.path.join(ph.dir, "sdkconfig")
    if spec.get("sdk") is not None:
        with open(ph.conf, "w") as f:
            f.write(spec["sdk"])
    ph.env = {"KCONFIG_CONFIG": ph.conf}
    ph.env.update(spec.get("env") or {})
    ph._apply_env()
    ph.inst = impl.Inst(spec["files"], renames=spec.get("renames") or None)
    ph.k = ph.inst.k
    ph.progdir = os.path.dirname(ph.inst.path)
    import esp_menuconfig
    from esp_menuconfig.app import MenuConfigApp
    from esp_menuconfig.widgets import MenuOptionList

    esp_menuconfig._module_state = None
    ph.k.report.reset()
    esp_menuconfig.menuconfig(ph.k, headless=True)
    state = esp_menuconfig._module_state
    ph.state = state
    ph._index_nodes()
    app = MenuConfigApp(state)
    got: List[dict] = []

    def obs() -> dict:
        ml = app.query_one("#menu-list", MenuOptionList)
        scr = app.screen
        top = "main" if len(app.screen_stack) <= 1 else type(scr).__name__
        exited = app._exit or app.return_value is not None
        return observe_app(ph, state, bool(exited), app.return_value, ml._menu_nodes, ml.highlighted, top, ph.conf)

    def fix(d: dict) -> dict:
        d = dict(d)
        if isinstance(d.get("ret"), str):
            d["ret"] = d["ret"]
        return d

    async def go() -> None:
        async with app.run_test() as pilot:
            await pilot.pause()
            got.append(obs())
            for m in steps:
                if app._exit:
                    got.append(obs())
                    continue
                if m[0] == "hl":
                    app.query_one("#menu-list", MenuOptionList).highlighted = m[1]
                elif m[0] == "key":
                    await pilot.press(m[1])
                elif m[0] == "text":
                    v = m[1]
                    if isinstance(v, str) and v.startswith(hdir):
                        v = ph.dir + v[len(hdir):]
                    inp = app.screen.query_one("Input")
                    inp.value = v
                await pilot.pause()
                got.append(obs())

    try:
        asyncio.run(asyncio.wait_for(go(), timeout))
    finally:
        ph.close()
    mismatch = None
    for i, (w, g) in enumerate(zip(want, got)):
        w, g = fix(w), fix(g)
        if w.get("exited") and g.get("exited"):
            # after exit only the outcome is compared (the real app has torn its widgets down)
            w = {k: w[k] for k in ("values", "needs_save", "file", "ret", "exited")}
            g = {k: g[k] for k in ("values", "needs_save", "file", "ret", "exited")}
        if w != g:
            keys = sorted(k for k in w if w.get(k) != g.get(k))
            mismatch = {"step_index": i, "step": list(steps[i - 1]) if i else ["mount"], "fields": keys, "headless": {k: w[k] for k in keys}, "pilot": {k: g.get(k) for k in keys}}
            break
    if mismatch is None and len(want) != len(got):
        mismatch = {"step_index": min(len(want), len(got)), "step": ["length"], "fields": ["length"], "headless": len(want), "pilot": len(got)}
    return len(got), mismatch

"""Reference semantics over the kgen AST -- deliberately boring, memoised recursion on acyclic trees.

Encodes what docs/en/kconfiglib/language.rst, defaults.rst and property C01/C05 state:

  visible(x)  = OR over definitions of (prompt_cond AND inherited deps AND visible-if chain)
  num/string  = forced `set` (source y, cond, source deps)  >  user value (visible, present, in range)
                > `set default` (enabled AND deps(x)) > first default whose condition holds > ""
                ; numbers are finally clamped into the first range whose condition holds
  bool        = user value if visible and present, else (first default  OR  (imply AND deps(x)));
                then raised to y by any enabled select
  choice      = mode y iff visible; selected = user pick if visible, else first default whose condition holds
                and whose member is visible, else first visible member
  expressions = n/y algebra; relations numeric when both sides parse, else lexicographic

Inherited conditions: `depends on`, enclosing `if`, `menu depends on`, enclosing choice (its mode) reach every
property condition; `visible if` reaches prompts only.
"""

from __future__ import annotations

import math
from typing import Any, Dict, List, Optional, Tuple

from . import kgen
from .kgen import RELS


class Cyclic(Exception):
    pass


def AND(a, b):
    if a is None:
        return b
    if b is None:
        return a
    return ("&&", a, b)


class Def:
    __slots__ = ("prompt", "prompt_cond", "dep", "defaults", "ranges")


class SymInfo:
    def __init__(self, name: str, typ: str):
        self.name = name
        self.type = typ
        self.defs: List[Def] = []
        self.choice: Optional[int] = None
        self.selects: List[Tuple[str, Any]] = []  # (source, cond)   -- things that select me
        self.implies: List[Tuple[str, Any]] = []
        self.sets: List[Tuple[tuple, Any, str]] = []  # (value atom, cond, source)
        self.wsets: List[Tuple[tuple, Any, str]] = []


class ChoiceInfo:
    def __init__(self, idx: int, name: Optional[str]):
        self.idx = idx
        self.name = name
        self.prompts: List[Any] = []  # full prompt conditions (one per definition that has a prompt)
        self.has_prompt = False
        self.defaults: List[Tuple[str, Any]] = []
        self.members: List[str] = []


class Model:
    def __init__(self, prog: kgen.Program):
        self.syms: Dict[str, SymInfo] = {}
        self.order: List[str] = []
        self.choices: List[ChoiceInfo] = []
        self.named: Dict[str, ChoiceInfo] = {}
        self._walk(prog.children, None, None, None)

    def _walk(self, children, dep, vis_if, choice: Optional[ChoiceInfo]):
        for n in children:
            k = n.kind
            if k == "cfg":
                self._cfg(n, dep, vis_if, choice)
            elif k == "menu":
                d = dep
                for e in n.depends:
                    d = AND(d, e)
                v = vis_if
                for e in n.visible_if:
                    v = AND(v, e)
                # a menu inside a choice: children are not choice members; `dep` already carries the choice mode
                self._walk(n.children, d, v, None)
            elif k == "if":
                # `if` inside a choice keeps membership
                self._walk(n.children, AND(dep, n.cond), vis_if, choice)
            elif k == "choice":
                if n.name and n.name in self.named:
                    ci = self.named[n.name]
                else:
                    ci = ChoiceInfo(len(self.choices), n.name)
                    self.choices.append(ci)
                    if n.name:
                        self.named[n.name] = ci
                d = dep
                for e in n.depends:
                    d = AND(d, e)
                if n.prompt is not None:
                    ci.has_prompt = True
                    ci.prompts.append(AND(AND(n.prompt_cond, vis_if), d) or ("l", "y"))
                for m, cond in n.defaults:
                    ci.defaults.append((m, AND(cond, d)))
                self._walk(n.children, ("c", ci.idx), vis_if, ci)
            elif k == "source":
                if n.children:
                    self._walk(n.children, dep, vis_if, choice)
            # comment, macro: no semantics

    def _cfg(self, n: kgen.Cfg, dep, vis_if, choice: Optional[ChoiceInfo]):
        si = self.syms.get(n.name)
        if si is None:
            si = SymInfo(n.name, n.type)
            self.syms[n.name] = si
            self.order.append(n.name)
        d = Def()
        dd = dep
        for e in n.depends:
            dd = AND(e, dd)
        d.dep = dd
        d.prompt = n.prompt
        d.prompt_cond = AND(AND(n.prompt_cond, vis_if), dd) if n.prompt is not None else None
        d.defaults = [(v, AND(c, dd)) for v, c in n.defaults]
        d.ranges = [(lo, hi, AND(c, dd)) for lo, hi, c in n.ranges]
        si.defs.append(d)
        if choice is not None and n.type == "bool":
            if n.name not in choice.members:
                choice.members.append(n.name)
            si.choice = choice.idx
        src = ("s", n.name)
        for t, c in n.selects:
            self._target(t).selects.append((n.name, AND(src, AND(c, dd))))
        for t, c in n.implies:
            self._target(t).implies.append((n.name, AND(src, AND(c, dd))))
        for t, v, c in n.sets:
            self._target(t).sets.append((v, AND(src, AND(c, dd)), n.name))
        for t, v, c in n.wsets:
            self._target(t).wsets.append((v, AND(src, AND(c, dd)), n.name))

    def _target(self, name: str) -> SymInfo:
        si = self.syms.get(name)
        if si is None:
            # forward reference: created now, typed when defined
            si = SymInfo(name, "unknown")
            self.syms[name] = si
            self._fwd = getattr(self, "_fwd", set())
            self._fwd.add(name)
        return si

    def finish(self):
        return self


def build(prog: kgen.Program) -> Model:
    m = Model(prog)
    # fix up forward-referenced targets: a Cfg defined later replaces type and joins order
    for n in kgen.walk(prog.children):
        if n.kind == "cfg":
            si = m.syms[n.name]
            if si.type == "unknown":
                si.type = n.type
            if n.name not in m.order:
                m.order.append(n.name)
    # definition order must follow the program text
    seen = []
    for n in kgen.walk(prog.children):
        if n.kind == "cfg" and n.name not in seen:
            seen.append(n.name)
        if n.kind == "source" and n.children:
            pass
    m.order = seen
    return m


def _is_int(s: str, base: int) -> bool:
    try:
        int(s, base)
        return True
    except ValueError:
        return False


def _is_float(s: str) -> bool:
    try:
        return math.isfinite(float(s))
    except ValueError:
        return False


def _norm_float(s: str) -> str:
    try:
        return str(float(s))
    except ValueError:
        return s


BASE = {"int": 10, "hex": 16}


class Eval:
    """Evaluation of one configuration: user = {name: value}, value "y"/"n" for bools, text otherwise;
    picks = {choice idx: member name} (the user's pick)."""

    def __init__(self, model: Model, user: Dict[str, str], picks: Optional[Dict[int, str]] = None):
        self.m = model
        self.user = user
        self.picks = picks or {}
        self._val: Dict[str, str] = {}
        self._vis: Dict[str, int] = {}
        self._cvis: Dict[int, int] = {}
        self._sel: Dict[int, Optional[str]] = {}
        self._busy: set = set()

    # ---- expressions
    def ev(self, e) -> int:
        if e is None:
            return 2
        k = e[0]
        if k == "s":
            si = self.m.syms.get(e[1])
            if si is None or not si.defs:
                return 0
            if si.type != "bool":
                return 0
            return 2 if self.value(e[1]) == "y" else 0
        if k == "l":
            t = e[1]
            if t in ("y", '"y"', "'y'"):
                return 2
            return 0
        if k == "c":
            return self.choice_vis(e[1])
        if k == "!":
            return 2 - self.ev(e[1])
        if k == "&&":
            a = self.ev(e[1])
            return 0 if not a else min(a, self.ev(e[2]))
        if k == "||":
            a = self.ev(e[1])
            return 2 if a == 2 else max(a, self.ev(e[2]))
        if k in RELS:
            return self.rel(k, e[1], e[2])
        raise ValueError(e)

    def atom(self, a) -> Tuple[str, str]:
        """(type, string value) of an operand"""
        if a[0] == "s":
            si = self.m.syms.get(a[1])
            if si is None or not si.defs:
                return ("unknown", a[1])
            return (si.type, self.value(a[1]))
        t = a[1]
        if t in ("y", "n"):
            return ("bool", t)
        if len(t) >= 2 and t[0] == t[-1] and t[0] in "\"'":
            body = t[1:-1].replace('\\"', '"').replace("\\\\", "\\")
            if body in ("y", "n"):
                return ("bool", body)
            return ("unknown", body)
        return ("unknown", t)

    @staticmethod
    def _num(typ: str, s: str):
        if typ == "bool":
            return 2 if s == "y" else 0
        base = {"hex": 16, "int": 10}.get(typ, 0)
        try:
            return int(s, base)
        except ValueError:
            return float(s)

    def rel(self, op, a, b) -> int:
        ta, sa = self.atom(a)
        tb, sb = self.atom(b)
        if ta == "string" and tb == "string":
            comp = (sa > sb) - (sa < sb)
        else:
            try:
                comp = self._num(ta, sa) - self._num(tb, sb)
            except ValueError:
                comp = (sa > sb) - (sa < sb)
        r = {"=": comp == 0, "!=": comp != 0, "<": comp < 0, "<=": comp <= 0, ">": comp > 0, ">=": comp >= 0}[op]
        return 2 if r else 0

    # ---- visibility
    def visible(self, name: str) -> int:
        if name in self._vis:
            return self._vis[name]
        key = ("v", name)
        if key in self._busy:
            raise Cyclic(name)
        self._busy.add(key)
        si = self.m.syms[name]
        v = 0
        for d in si.defs:
            if d.prompt is not None:
                v = max(v, self.ev(d.prompt_cond))
        self._busy.discard(key)
        self._vis[name] = v
        return v

    def choice_vis(self, idx: int) -> int:
        if idx in self._cvis:
            return self._cvis[idx]
        key = ("cv", idx)
        if key in self._busy:
            raise Cyclic(f"choice{idx}")
        self._busy.add(key)
        ci = self.m.choices[idx]
        v = 0
        for p in ci.prompts:
            v = max(v, self.ev(p))
        self._busy.discard(key)
        self._cvis[idx] = v
        return v

    def selection(self, idx: int) -> Optional[str]:
        if idx in self._sel:
            return self._sel[idx]
        key = ("cs", idx)
        if key in self._busy:
            raise Cyclic(f"choice{idx}")
        self._busy.add(key)
        ci = self.m.choices[idx]
        sel = None
        if self.choice_vis(idx) == 2:
            pick = self.picks.get(idx)
            if pick is not None and self.visible(pick):
                sel = pick
            else:
                for m, cond in ci.defaults:
                    if self.ev(cond) and m in self.m.syms and self.m.syms[m].defs and self.visible(m):
                        sel = m
                        break
                else:
                    for m in ci.members:
                        if self.visible(m):
                            sel = m
                            break
        self._busy.discard(key)
        self._sel[idx] = sel
        return sel

    def direct_dep(self, si: SymInfo) -> int:
        v = 0
        for d in si.defs:
            v = max(v, self.ev(d.dep))
        return v

    # ---- values
    def value(self, name: str) -> str:
        if name in self._val:
            return self._val[name]
        key = ("x", name)
        if key in self._busy:
            raise Cyclic(name)
        self._busy.add(key)
        try:
            v = self._value(name)
        finally:
            self._busy.discard(key)
        self._val[name] = v
        return v

    def _value(self, name: str) -> str:
        si = self.m.syms[name]
        t = si.type
        vis = self.visible(name)
        u = self.user.get(name)
        if t == "bool":
            if si.choice is not None:
                if vis == 2:
                    return "y" if self.selection(si.choice) == name else "n"
                return "n"
            val = 0
            if vis and u is not None:
                val = 2 if u == "y" else 0
            else:
                for d in si.defs:
                    hit = False
                    for v, c in d.defaults:
                        cv = self.ev(c)
                        if cv:
                            val = min(self.ev(v), cv)
                            hit = True
                            break
                    if hit:
                        break
                if any(self.ev(c) for _, c in si.implies) and self.direct_dep(si):
                    val = 2
            if any(self.ev(c) for _, c in si.selects):
                val = 2
            return "y" if val else "n"

        defaults = [x for d in si.defs for x in d.defaults]
        ranges = [x for d in si.defs for x in d.ranges]

        if t == "string":
            for v, c, _src in si.sets:
                if self.ev(c):
                    return self.atom(v)[1]
            if vis and u is not None:
                return u
            val = ""
            for v, c, _src in si.wsets:
                if self.ev(c) and self.direct_dep(si):
                    val = self.atom(v)[1]
                    break
            if not val:
                for v, c in defaults:
                    if self.ev(c):
                        val = self.atom(v)[1]
                        break
            return val

        if t in ("int", "hex"):
            base = BASE[t]
            rng = None
            for lo, hi, c in ranges:
                if self.ev(c):
                    ls, hs = self.atom(lo)[1], self.atom(hi)[1]
                    rng = (int(ls, base) if _is_int(ls, base) else 0, int(hs, base) if _is_int(hs, base) else 0)
                    break
            val = ""
            num = 0
            forced = False
            for v, c, _src in si.sets:
                if self.ev(c):
                    s = v[1]  # literal text / symbol *name* (as documented: a value)
                    if _is_int(s, base):
                        val, num, forced = s, int(s, base), True
                    break
            use_defaults = not forced
            if not forced and vis and u:
                un = int(u, base)
                if rng is None or rng[0] <= un <= rng[1]:
                    val, num, use_defaults = u, un, False
            if use_defaults:
                for v, c, _src in si.wsets:
                    if self.ev(c) and self.direct_dep(si):
                        s = v[1]
                        if _is_int(s, base):
                            val, num = s, int(s, base)
                        break
                if not val:
                    for v, c in defaults:
                        if self.ev(c):
                            val = self.atom(v)[1]
                            num = int(val, base) if _is_int(val, base) else 0
                            break
            if rng is not None:
                cl = None
                if num < rng[0]:
                    cl = rng[0]
                elif num > rng[1]:
                    cl = rng[1]
                if cl is not None:
                    val = str(cl) if t == "int" else hex(cl)
            return val

        if t == "float":
            rng = None
            for lo, hi, c in ranges:
                if self.ev(c):
                    ls, hs = self.atom(lo)[1], self.atom(hi)[1]
                    rng = (float(ls) if _is_float(ls) else 0.0, float(hs) if _is_float(hs) else 0.0)
                    break
            val = ""
            num = 0.0
            forced = False
            for v, c, _src in si.sets:
                if self.ev(c):
                    s = v[1]
                    if _is_float(s):
                        val = _norm_float(s)
                        num, forced = float(val), True
                    break
            use_defaults = not forced
            if not forced and vis and u is not None:
                un = float(u)
                if rng is None or rng[0] <= un <= rng[1]:
                    val, num, use_defaults = _norm_float(u), un, False
            if use_defaults:
                for v, c, _src in si.wsets:
                    if self.ev(c) and self.direct_dep(si):
                        s = v[1]
                        if _is_float(s):
                            val = _norm_float(s)
                            num = float(val)
                        break
                if not val:
                    for v, c in defaults:
                        if self.ev(c):
                            val = _norm_float(self.atom(v)[1])
                            num = float(val) if _is_float(val) else 0.0
                            break
            if rng is not None:
                cl = None
                if num < rng[0]:
                    cl = rng[0]
                elif num > rng[1]:
                    cl = rng[1]
                if cl is not None:
                    val = str(cl)
            return val
        raise ValueError(t)

    def assignable(self, name: str) -> tuple:
        si = self.m.syms[name]
        if si.type != "bool":
            return ()
        if not self.visible(name):
            return ()
        if si.choice is not None:
            return (2,)
        if any(self.ev(c) for _, c in si.selects):
            return (2,)
        return (0, 2)

    def all_values(self) -> Dict[str, str]:
        return {n: self.value(n) for n in self.m.order}


# --------------------------------------------------------------------------------------------------
# reference dependency graph (C09): edges  X -> Y  "X's value or visibility mentions Y"
# --------------------------------------------------------------------------------------------------


def dep_graph(model: Model) -> Dict[str, set]:
    g: Dict[str, set] = {}

    def add(a: str, e) -> None:
        if e is None:
            return
        if e[0] == "s":
            if e[1] in model.syms and model.syms[e[1]].defs:
                g.setdefault(a, set()).add(e[1])
        elif e[0] == "c":
            g.setdefault(a, set()).add(f"<choice{e[1]}>")
        elif e[0] == "l":
            return
        else:
            for x in e[1:]:
                add(a, x)

    for name, si in model.syms.items():
        if not si.defs:
            continue
        g.setdefault(name, set())
        for d in si.defs:
            add(name, d.prompt_cond)
            add(name, d.dep)
            for v, c in d.defaults:
                add(name, v)
                add(name, c)
            for lo, hi, c in d.ranges:
                add(name, lo)
                add(name, hi)
                add(name, c)
        for _s, c in si.selects + si.implies:
            add(name, c)
        for v, c, _s in si.sets + si.wsets:
            add(name, v)
            add(name, c)
    for ci in model.choices:
        cn = f"<choice{ci.idx}>"
        g.setdefault(cn, set())
        for p in ci.prompts:
            add(cn, p)
        for _m, c in ci.defaults:
            add(cn, c)
    return g


# --------------------------------------------------------------------------------------------------
# reference tracking of the USER state through an operation history (C05, C02 oracles)
# --------------------------------------------------------------------------------------------------


class RefState:
    """user values and choice picks as the documents describe them:
    set -> user value (a member set to y becomes the pick of its choice); reset of an option -> no user value
    (for a member / a choice: the whole choice forgets pick and member values); loading a file replaces (or, merged,
    overrides) user values by the file's unmarked assignments, for a choice the LAST member assigned y is the pick."""

    def __init__(self, model: Model):
        self.m = model
        self.user: Dict[str, str] = {}
        self.picks: Dict[int, str] = {}

    def copy(self) -> "RefState":
        r = RefState(self.m)
        r.user = dict(self.user)
        r.picks = dict(self.picks)
        return r

    def apply(self, op: tuple) -> None:
        k = op[0]
        if k == "set":
            self._set(op[1], op[2])
        elif k == "unset":
            self.user.pop(op[1], None)
        elif k == "reset":
            self.user.pop(op[1], None)
            ci = self.m.syms[op[1]].choice
            if ci is not None:
                self._reset_choice(ci)
        elif k == "resetc":
            self._reset_choice(op[1])
        elif k == "load":
            self._load(op[1], op[2])
        elif k in ("read", "readc", "readall", "snap"):
            pass
        else:
            raise ValueError(op)

    def _set(self, name: str, v: str) -> None:
        self.user[name] = v
        ci = self.m.syms[name].choice
        if ci is not None and v == "y":
            self.picks[ci] = name

    def _reset_choice(self, ci: int) -> None:
        self.picks.pop(ci, None)
        for m in self.m.choices[ci].members:
            self.user.pop(m, None)

    def _load(self, text: str, replace: bool) -> None:
        import re

        assigned: List[Tuple[str, str]] = []
        marked = False
        for line in text.splitlines():
            line = line.rstrip()
            if line.strip() == "# default:":
                marked = True
                continue
            m = re.match(r"CONFIG_([^=]+)=(.*)", line)
            u = re.match(r"# CONFIG_([^ ]+) is not set", line)
            if m:
                name, val = m.group(1), m.group(2)
            elif u:
                name, val = u.group(1), "n"
            else:
                marked = False
                continue
            was_marked, marked = marked, False
            if was_marked:
                continue
            si = self.m.syms.get(name)
            if si is None or not si.defs:
                continue
            if si.type == "bool":
                if not val.startswith(("y", "n")):
                    continue
                val = val[0]
            elif si.type == "string":
                mm = re.fullmatch(r'"((?:[^\\"]|\\.)*)"', val)
                if not mm:
                    continue
                val = re.sub(r"\\(.)", r"\1", mm.group(1))
            elif u:
                continue
            assigned.append((name, val))
        if replace:
            self.user = {}
            self.picks = {}
        for name, val in assigned:
            if self.m.syms[name].choice is None:
                self._set(name, val)
        # choice members are applied after everything else, in file order: last y wins
        for name, val in assigned:
            if self.m.syms[name].choice is not None:
                self._set(name, val)

    def eval(self) -> Eval:
        return Eval(self.m, self.user, self.picks)

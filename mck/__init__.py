"""mck -- bounded exhaustive exploration of esp-idf-kconfig (see /verif/DESIGN.md)."""

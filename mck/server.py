"""Drivers for the real config server (kconfserver.core.run_server).

In-process driver (`run`): one fresh server per call, fed a scripted list of request lines through a replaced
`sys.stdin`; `sys.stdout` is captured; the `Kconfig` instance the server creates is captured by replacing the name
`kconfiglib` *inside the kconfserver.core module namespace* with a proxy whose `Kconfig` records the instance (the
library module itself is not touched).  Every run gets its own directory on tmpfs holding the Kconfig tree, the sdkconfig
file and any auxiliary files, and runs with that directory as cwd and `--kconfig Kconfig` relative, like the repository's
tests do (menu ids embed the path that was passed).

Request lines and auxiliary file names use the placeholder `$D` for that directory; captured stdout has the real path
replaced back by `$D`, so outputs of different runs (and of the subprocess driver) are comparable byte by byte.

Subprocess driver (`run_subprocess`): `python -m kconfserver` over plain pipes.
"""

from __future__ import annotations

import io
import json
import os
import shutil
import subprocess
import sys
import threading
import traceback
from typing import Any, Dict, List, Optional, Sequence, Tuple

from . import common

PH = "$D"

_ks = None
_seq = 0


def ks():
    """the real kconfserver.core module"""
    global _ks
    if _ks is None:
        import kconfserver.core as m

        _ks = m
    return _ks


class _LibProxy:
    """Stands in for the name `kconfiglib` in kconfserver.core for the duration of one run."""

    def __init__(self, real, sink: list):
        object.__setattr__(self, "_real", real)
        object.__setattr__(self, "_sink", sink)

    def Kconfig(self, *a, **kw):
        k = self._real.Kconfig(*a, **kw)
        k.report.reset()  # process-wide singleton; not reset by the constructor
        self._sink.append(k)
        return k

    def __getattr__(self, name):
        return getattr(self._real, name)


_seq_lock = threading.Lock()


def new_dir(tag: str = "srv") -> str:
    global _seq
    with _seq_lock:  # the subprocess driver may be used from several threads
        _seq += 1
        n = _seq
    d = os.path.join(common.scratch_dir(tag), f"r{n}")
    os.makedirs(d)
    return d


def subst(s: str, d: str) -> str:
    return s.replace(PH, d)


def unsubst(s: str, d: str) -> str:
    return s.replace(d, PH)


def populate(d: str, files: Dict[str, str], sdkconfig: Optional[str], aux: Optional[Dict[str, Any]]) -> None:
    """files: the Kconfig tree; sdkconfig: text or None (file absent); aux: {relative name: text | bytes | None (=mkdir)}"""
    for name, text in files.items():
        p = os.path.join(d, name)
        if os.path.dirname(name):
            os.makedirs(os.path.dirname(p), exist_ok=True)
        with open(p, "w") as f:
            f.write(text)
    if sdkconfig is not None:
        with open(os.path.join(d, "sdkconfig"), "w") as f:
            f.write(sdkconfig)
    for name, content in (aux or {}).items():
        p = os.path.join(d, name)
        if content is None:
            os.makedirs(p, exist_ok=True)
        elif isinstance(content, bytes):
            with open(p, "wb") as f:
                f.write(content)
        else:
            with open(p, "w") as f:
                f.write(subst(content, d))


def snapshot_files(d: str, skip: Sequence[str] = ()) -> Dict[str, Optional[str]]:
    """{relative name: text (placeholder-normalised) | None for directories} of everything in the run directory"""
    out: Dict[str, Optional[str]] = {}
    for name in sorted(os.listdir(d)):
        if name in skip:
            continue
        p = os.path.join(d, name)
        if os.path.isdir(p):
            out[name] = None
        else:
            with open(p, "rb") as f:
                out[name] = unsubst(f.read().decode("utf-8", "backslashreplace"), d)
    return out


def _site(exc: BaseException) -> str:
    tb = traceback.extract_tb(exc.__traceback__)
    for fr in reversed(tb):
        fn = fr.filename
        if "/mck/" in fn:
            continue
        if fn.startswith(common.REPO_ROOT + os.sep):
            return f"{os.path.basename(fn)}:{fr.name}"
    for fr in reversed(tb):
        if "/mck/" not in fr.filename:
            return f"{os.path.basename(fr.filename)}:{fr.name}"
    return "?"


class Run:
    """Outcome of one server life.

    lines     stdout split at newlines (placeholder-normalised); a trailing partial line is kept as last element
    raw       complete stdout text (placeholder-normalised)
    exc       None or (exception type name, "file.py:function" of the innermost frame inside the implementation, message)
    kconfig   the Kconfig instance the server created (None if construction failed)
    files     files in the run directory after the run (without the Kconfig tree)
    """

    __slots__ = ("lines", "raw", "exc", "kconfig", "files", "n_in")

    def __init__(self):
        self.lines: List[str] = []
        self.raw = ""
        self.exc: Optional[Tuple[str, str, str]] = None
        self.kconfig = None
        self.files: Dict[str, Optional[str]] = {}
        self.n_in = 0


def stdin_text(requests: Sequence[str], d: str) -> str:
    """Request lines -> bytes on stdin.  A request ending in the marker NO_NL is sent without the terminating newline
    (only meaningful for the last one)."""
    out = []
    for q in requests:
        q = subst(q, d)
        if q.endswith(NO_NL):
            out.append(q[: -len(NO_NL)])
        else:
            out.append(q + "\n")
    return "".join(out)


NO_NL = "\x00<no-newline>"


def run(
    files: Dict[str, str],
    requests: Sequence[str],
    sdkconfig: Optional[str] = "",
    default_version: int = 3,
    aux: Optional[Dict[str, Any]] = None,
    rename: Optional[str] = None,
    keep_dir: bool = False,
    want_files: bool = True,
    stdout_encoding: Optional[str] = None,
) -> Run:
    """One in-process life of the real server on a fresh directory.

    stdout_encoding None: `sys.stdout` is a StringIO (accepts any str).  Otherwise it is what a real process has: a text
    layer that STRICTLY encodes to that encoding over a byte buffer (a character the encoding cannot represent -- e.g. a
    lone surrogate for utf-8, any non-ASCII character for ascii -- raises UnicodeEncodeError out of the write, leaving the
    bytes written so far); `raw` / `lines` are those bytes decoded with errors=backslashreplace."""
    m = ks()
    d = new_dir()
    populate(d, files, sdkconfig, aux)
    res = Run()
    res.n_in = len(requests)
    sink: list = []
    real_lib = m.kconfiglib
    old_in, old_out, cwd = sys.stdin, sys.stdout, os.getcwd()
    buf: Optional[io.BytesIO] = None
    if stdout_encoding is None:
        out: Any = io.StringIO()
    else:
        buf = io.BytesIO()
        out = io.TextIOWrapper(buf, encoding=stdout_encoding, errors="strict", newline="\n", write_through=True)
    try:
        os.chdir(d)
        m.kconfiglib = _LibProxy(real_lib, sink)
        sys.stdin = io.StringIO(stdin_text(requests, d))
        sys.stdout = out
        try:
            m.run_server("Kconfig", os.path.join(d, "sdkconfig"), rename, default_version)
        except KeyboardInterrupt:
            raise
        except BaseException as e:  # noqa: BLE001 -- anything escaping the server function is an observation
            res.exc = (type(e).__name__, _site(e), unsubst(str(e), d)[:300])
    finally:
        sys.stdin, sys.stdout = old_in, old_out
        m.kconfiglib = real_lib
        os.chdir(cwd)
    if buf is None:
        text = out.getvalue()
    else:
        try:
            out.flush()
        except (UnicodeError, ValueError):
            pass
        text = buf.getvalue().decode(stdout_encoding, "backslashreplace")
    res.raw = unsubst(text, d)
    res.lines = res.raw.split("\n")
    if res.lines and res.lines[-1] == "":
        res.lines.pop()
    res.kconfig = sink[0] if sink else None
    if want_files:
        res.files = snapshot_files(d, skip=tuple(files))
    if keep_dir:
        res.files["__dir__"] = d
    else:
        shutil.rmtree(d, ignore_errors=True)
    return res


# --------------------------------------------------------------------------------------------------
# observations on the captured Kconfig
# --------------------------------------------------------------------------------------------------


def config_state(k) -> tuple:
    """server-side configuration: effective values, user values, choice picks (for canonical keys / twin comparison)"""
    syms = tuple((s.name, s.str_value, s._user_value) for s in k.unique_defined_syms)
    chs = tuple(
        (c.selection.name if c.selection is not None else None, c._user_selection.name if c._user_selection is not None else None)
        for c in k.unique_choices
    )
    return syms, chs


def config_diff(a: tuple, b: tuple) -> List[str]:
    out = []
    for x, y in zip(a[0], b[0]):
        if x != y:
            out.append(f"{x[0]}: value {x[1]!r} user {x[2]!r} vs value {y[1]!r} user {y[2]!r}")
    for i, (x, y) in enumerate(zip(a[1], b[1])):
        if x != y:
            out.append(f"choice#{i}: {x} vs {y}")
    return out


def full_state(k, version: int = 3) -> Dict[str, Any]:
    """What the server would announce for this live configuration (same functions the server uses), JSON round-tripped."""
    m = ks()
    import kconfgen.core as kg

    st = {"values": kg.get_json_values(k), "ranges": m.get_ranges(k), "visible": m.get_visible(k)}
    if version >= 3:
        st["defaults"] = m.get_sym_default_value_dict(k)
    return json.loads(json.dumps(st))


# --------------------------------------------------------------------------------------------------
# strict protocol JSON
# --------------------------------------------------------------------------------------------------


def _no_const(name):
    raise ValueError(f"non-standard JSON constant {name}")


def parse_reply(line: str) -> Tuple[Optional[dict], Optional[str]]:
    """(object, None) if the line is exactly one strict (RFC 8259) JSON object, else (None, reason)"""
    try:
        obj = json.loads(line, parse_constant=_no_const)
    except ValueError as e:
        return None, f"not JSON ({str(e)[:60]})"
    if not isinstance(obj, dict):
        return None, f"JSON {type(obj).__name__}, not an object"
    return obj, None


# --------------------------------------------------------------------------------------------------
# real subprocess
# --------------------------------------------------------------------------------------------------


def run_subprocess(
    files: Dict[str, str],
    requests: Sequence[str],
    sdkconfig: Optional[str] = "",
    default_version: Optional[int] = None,
    aux: Optional[Dict[str, Any]] = None,
    timeout: float = 60.0,
    env_extra: Optional[Dict[str, str]] = None,
    errors: Optional[str] = None,
) -> Dict[str, Any]:
    """`python -m kconfserver` over plain pipes.  default_version None omits --version.
    env_extra: additional environment of the server process (e.g. PYTHONIOENCODING); errors: error handler the PARENT
    uses to encode stdin / decode stdout (None = strict).
    Returns {"lines": [...], "raw": str, "rc": int, "stderr": str}; stdout is placeholder-normalised."""
    d = new_dir("sub")
    populate(d, files, sdkconfig, aux)
    cmd = [common.PY, "-u", "-m", "kconfserver", "--kconfig", "Kconfig", "--config", os.path.join(d, "sdkconfig")]
    if default_version is not None:
        cmd += ["--version", str(default_version)]
    env = dict(os.environ)
    env["PYTHONUNBUFFERED"] = "1"
    pp = env.get("PYTHONPATH", "")
    if common.REPO_ROOT not in pp.split(os.pathsep):
        env["PYTHONPATH"] = common.REPO_ROOT + (os.pathsep + pp if pp else "")
    if env_extra:
        env.update(env_extra)
    errf = open(os.path.join(d, "__stderr__"), "w+", errors="backslashreplace")
    p = subprocess.Popen(cmd, stdin=subprocess.PIPE, stdout=subprocess.PIPE, stderr=errf, cwd=d, env=env, text=True, errors=errors)
    try:
        # the whole script is written at once and stdin closed: the server reads it line by line exactly as it would
        # from an interactive client, and a server that stops answering cannot dead-lock the harness
        out, _ = p.communicate(stdin_text(requests, d), timeout=timeout)
        rc = p.returncode
    except subprocess.TimeoutExpired:
        p.kill()
        out, _ = p.communicate()
        rc = -9
    errf.seek(0)
    err = errf.read()
    errf.close()
    shutil.rmtree(d, ignore_errors=True)
    raw = unsubst(out, d)
    out_lines = raw.split("\n")
    if out_lines and out_lines[-1] == "":
        out_lines.pop()
    return {"lines": out_lines, "raw": raw, "rc": rc, "stderr": unsubst(err, d), "n_in": len(requests)}

"""Structural dump of a parsed Kconfig tree (parser independent): used by C04 / C18."""

from __future__ import annotations

from typing import Any, Dict, List

from . import impl


def _es(e) -> str:
    c = impl.core()
    if e is None:
        return "<none>"
    try:
        return c.expr_str(e)
    except Exception as ex:  # noqa: BLE001 -- malformed expression objects are themselves an observation
        return f"<unprintable {type(ex).__name__}: {type(e).__name__}>"


def _item_kind(node) -> str:
    c = impl.core()
    it = node.item
    if isinstance(it, c.Symbol):
        return "symbol"
    if isinstance(it, c.Choice):
        return "choice"
    if it == c.MENU:
        return "menu"
    if it == c.COMMENT:
        return "comment"
    return f"other:{it!r}"


def _node_id(node) -> str:
    c = impl.core()
    if node is None:
        return "<root-parent>"
    it = node.item
    if isinstance(it, (c.Symbol, c.Choice)):
        return f"{_item_kind(node)}:{it.name}"
    return f"{_item_kind(node)}:{node.prompt[0] if node.prompt else None}"


def structural_dump(k) -> Dict[str, Any]:
    c = impl.core()
    nodes: List[dict] = []
    for node in k.node_iter():
        it = node.item
        d = {
            "kind": _item_kind(node),
            "name": getattr(it, "name", None) if isinstance(it, (c.Symbol, c.Choice)) else None,
            "prompt": node.prompt[0] if node.prompt else None,
            "prompt_cond": _es(node.prompt[1]) if node.prompt else None,
            "dep": _es(node.dep),
            "visibility": _es(node.visibility) if it == c.MENU else None,
            "help": node.help,
            "is_menuconfig": bool(node.is_menuconfig),
            "parent": _node_id(node.parent),
        }
        if isinstance(it, c.Symbol):
            d["type"] = c.TYPE_TO_STR[it.orig_type]
        nodes.append(d)
    syms: Dict[str, dict] = {}
    for s in k.unique_defined_syms:
        syms[s.name] = {
            "type": c.TYPE_TO_STR[s.orig_type],
            "defaults": [(_es(v), _es(cond)) for v, cond in s.defaults],
            "ranges": [(_es(a), _es(b), _es(cond)) for a, b, cond in s.ranges],
            "selects": [(t.name, _es(cond)) for t, cond in s.selects],
            "implies": [(t.name, _es(cond)) for t, cond in s.implies],
            "sets": [(t.name, _es(v), _es(cond)) for t, v, cond in s.sets],
            "weak_sets": [(t.name, _es(v), _es(cond)) for t, v, cond in s.weak_sets],
            "direct_dep": _es(s.direct_dep),
            "rev_dep": _es(s.rev_dep),
            "weak_rev_dep": _es(s.weak_rev_dep),
            "rev_values": [(_es(v), _es(cond), src.name) for v, cond, src in s.rev_values],
            "weak_rev_values": [(_es(v), _es(cond), src.name) for v, cond, src in s.weak_rev_values],
            "choice": (s.choice.name or "<unnamed>") if s.choice is not None else None,
            "warning": s.warning,
            "env_var": s.env_var,
            "n_nodes": len(s.nodes),
        }
    choices = []
    for ch in k.unique_choices:
        choices.append({"name": ch.name, "defaults": [(t.name, _es(cond)) for t, cond in ch.defaults], "syms": [s.name for s in ch.syms], "direct_dep": _es(ch.direct_dep), "n_nodes": len(ch.nodes)})
    # Kconfig.choices / .menus / .comments are flat convenience lists (parser 2 fills them bottom-up); the property is
    # about the menu tree, whose order is compared through `nodes`, so the flat lists are compared as multisets
    choices.sort(key=lambda d: repr(sorted(d.items())))
    return {
        "mainmenu": k.mainmenu_text,
        "nodes": nodes,
        "syms": syms,
        "choices": choices,
        "variables": sorted((n, v.value) for n, v in k.variables.items()),
        # Kconfig.menus / .comments are flat convenience lists; the tree itself is `nodes` (order is compared there)
        "menus": sorted(m.prompt[0] for m in k.menus),
        "comments": sorted(m.prompt[0] for m in k.comments),
    }


def first_diff(a: Any, b: Any, path: str = "") -> str:
    """path of the first differing field between two dumps"""
    if type(a) is not type(b):
        return path or "<type>"
    if isinstance(a, dict):
        for key in sorted(set(a) | set(b), key=str):
            if key not in a or key not in b:
                return f"{path}.{key}(missing)"
            if a[key] != b[key]:
                return first_diff(a[key], b[key], f"{path}.{key}")
        return path
    if isinstance(a, (list, tuple)):
        if len(a) != len(b):
            return f"{path}(len {len(a)} vs {len(b)})"
        for i, (x, y) in enumerate(zip(a, b)):
            if x != y:
                return first_diff(x, y, f"{path}[{i}]")
        return path
    return path


def field_class(path: str) -> str:
    """coarse class of a diff path for violation signatures: drops indices and option names"""
    import re

    p = re.sub(r"\[\d+\]", "[]", path)
    p = re.sub(r"^\.syms\.[A-Za-z0-9_]+", ".syms.*", p)
    p = re.sub(r"\(len \d+ vs \d+\)", "(len)", p)
    return p

"""Fault injector (DESIGN.md 2.5): process death at every mutating file-system operation / inside every write().

    with FaultFS(root) as fs:                 # dry run: nothing is injected, every mutating operation is logged
        action()
    points = crash_points(fs.log)             # [(k, None) | (k, cut)]: before operation k / inside write k after `cut` units
    for p in points:
        restore(root, pre)                    # fresh copy of the pre-state
        with FaultFS(root, crash=p) as fs:
            try: action()
            except Crash: pass
        assert fs.crashed                     # the crashed run replays the dry run's operation sequence (same_prefix())
        ... recovery: fresh objects against whatever is on disk ...

Interposed, for paths under `root` only (everything else passes through untouched, reads are never interposed):
  builtins.open    write modes (w a x +): one operation for the create/truncate, then one operation per write() /
                   writelines() element on the returned proxy.  Every completed write is flushed at once.
  os.open          flags with O_WRONLY / O_RDWR / O_CREAT / O_TRUNC (the truncating touch of _touch_dep_file)
  os.mkdir, os.makedirs (executed as one logged mkdir per missing level)
  os.replace, os.rename, os.remove, os.unlink, os.utime
  shutil.copyfile  replaced by the explicit model  open(dst, "wb") [create/truncate]  +  one write of the source bytes
                   with the usual cut points, so that a partial copy is representable

Crash model: process death.  Operations that completed persist on the real tmpfs, nothing is reordered, nothing that
comes after the crash point happens: once Crash has been raised the instance is dead and every further interposed
operation (e.g. from a `finally:` or `with` block that runs while the exception propagates -- code a killed process would
never execute) raises Crash again without touching the file system.  Crash derives from BaseException, so the
implementation's `except Exception` / `except EnvironmentError` handlers do not swallow it.

A crash "before write k" is the cut 0 of that write; write operations therefore contribute their cut points only:
0, every line boundary, the middle of the last line, all-but-one unit (characters for text files, bytes for binary).
"""

from __future__ import annotations

import builtins
import os
import shutil
import stat as _stat
from typing import Any, Dict, List, Optional, Tuple

_real_open = builtins.open
_real_os_open = os.open
_real_mkdir = os.mkdir
_real_makedirs = os.makedirs
_real_replace = os.replace
_real_rename = os.rename
_real_remove = os.remove
_real_unlink = os.unlink
_real_utime = os.utime
_real_copyfile = shutil.copyfile

_WRITE_FLAGS = os.O_WRONLY | os.O_RDWR | os.O_CREAT | os.O_TRUNC | os.O_APPEND


class Crash(BaseException):
    """The process dies here."""


def cut_points(data) -> List[int]:
    """Prefix lengths after which a write may die: 0, every line boundary, middle of the last line, all-but-one."""
    n = len(data)
    if n == 0:
        return []
    nl = "\n" if isinstance(data, str) else b"\n"
    pts = {0, n - 1}
    i = data.find(nl)
    while i != -1:
        if i + 1 < n:
            pts.add(i + 1)
        i = data.find(nl, i + 1)
    # the last line is the text after the last newline that is not the final character
    last_start = data.rfind(nl, 0, n - 1) + 1
    mid = last_start + (n - last_start) // 2
    if 0 < mid < n:
        pts.add(mid)
    return sorted(pts)


def crash_points(log: List[dict]) -> List[Tuple[int, Optional[int]]]:
    out: List[Tuple[int, Optional[int]]] = []
    for op in log:
        if op["op"] == "write" and op["cuts"]:
            out.extend((op["i"], c) for c in op["cuts"])
        else:
            out.append((op["i"], None))
    return out


def same_prefix(dry: List[dict], crashed: List[dict]) -> bool:
    """The crashed run must have replayed the dry run's operations up to and including the crash operation."""
    if len(crashed) > len(dry):
        return False
    return all(a["op"] == b["op"] and a["path"] == b["path"] for a, b in zip(dry, crashed))


class _FaultFile:
    """Proxy for a file object opened for writing under the root."""

    def __init__(self, fs: "FaultFS", f, rel: str):
        self.__dict__["_fs"] = fs
        self.__dict__["_f"] = f
        self.__dict__["_rel"] = rel

    def write(self, data):
        fs, f = self._fs, self._f
        cut = fs._op("write", self._rel, n=len(data), cuts=cut_points(data))
        if cut is not None:
            f.write(data[:cut])
            f.flush()
            fs._die()
        r = f.write(data)
        f.flush()
        return r

    def writelines(self, lines):
        for line in lines:
            self.write(line)

    def truncate(self, *a):
        self._fs._op("truncate", self._rel)
        return self._f.truncate(*a)

    def close(self):
        # a dead process does not flush; everything that completed was flushed already
        return self._f.close()

    def __enter__(self):
        return self

    def __exit__(self, *exc):
        self._f.close()
        return False

    def __iter__(self):
        return iter(self._f)

    def __getattr__(self, name):
        return getattr(self._f, name)

    def __setattr__(self, name, value):
        setattr(self._f, name, value)


class FaultFS:
    def __init__(self, root: str, crash: Optional[Tuple[int, Optional[int]]] = None):
        self.root = os.path.abspath(root)
        self.crash = (crash[0], crash[1]) if crash is not None else None
        self.log: List[dict] = []
        self.crashed = False
        self.crash_op: Optional[dict] = None
        self._active = False

    # ---------------------------------------------------------------- bookkeeping
    def _rel(self, path) -> Optional[str]:
        if isinstance(path, bytes):
            try:
                path = os.fsdecode(path)
            except Exception:
                return None
        if not isinstance(path, str):
            if hasattr(path, "__fspath__"):
                path = os.fspath(path)
                if not isinstance(path, str):
                    return None
            else:
                return None
        p = os.path.abspath(path)
        if p == self.root:
            return "."
        if p.startswith(self.root + os.sep):
            return p[len(self.root) + 1:]
        return None

    def _die(self):
        self.crashed = True
        raise Crash()

    def _op(self, kind: str, rel: str, **kw) -> Optional[int]:
        """Logs one mutating operation.  Returns the cut for a write that has to die inside, raises Crash if the
        process dies before this operation, returns None if the operation is to be executed completely."""
        if self.crashed:
            raise Crash()
        i = len(self.log)
        rec = {"i": i, "op": kind, "path": rel}
        rec.update(kw)
        self.log.append(rec)
        if self.crash is not None and self.crash[0] == i:
            self.crash_op = rec
            cut = self.crash[1]
            if kind == "write" and cut is not None:
                return cut
            self._die()
        return None

    # ---------------------------------------------------------------- interposed functions
    def _open(self, file, mode="r", *a, **kw):
        rel = self._rel(file) if not isinstance(file, int) else None
        if rel is None or not any(c in mode for c in "wax+"):
            return _real_open(file, mode, *a, **kw)
        self._op("open", rel, mode=mode)
        return _FaultFile(self, _real_open(file, mode, *a, **kw), rel)

    def _os_open(self, path, flags, *a, **kw):
        rel = self._rel(path)
        if rel is None or not (flags & _WRITE_FLAGS) or kw.get("dir_fd") is not None:
            return _real_os_open(path, flags, *a, **kw)
        self._op("os.open", rel, trunc=bool(flags & os.O_TRUNC), creat=bool(flags & os.O_CREAT))
        return _real_os_open(path, flags, *a, **kw)

    def _mkdir(self, path, *a, **kw):
        rel = self._rel(path)
        if rel is not None and kw.get("dir_fd") is None:
            self._op("mkdir", rel)
        return _real_mkdir(path, *a, **kw)

    def _makedirs(self, name, mode=0o777, exist_ok=False):
        rel = self._rel(name)
        if rel is None:
            return _real_makedirs(name, mode, exist_ok)
        # explicit model: one mkdir per missing level, outermost first
        p = os.path.abspath(os.fspath(name))
        missing = []
        while not os.path.isdir(p) and len(p) > len(self.root):
            missing.append(p)
            p = os.path.dirname(p)
        if not missing:
            if not exist_ok:
                raise FileExistsError(17, "File exists", os.fspath(name))
            return None
        for q in reversed(missing):
            self._mkdir(q, mode)
        return None

    def _replace(self, src, dst, **kw):
        rs, rd = self._rel(src), self._rel(dst)
        if rs is not None or rd is not None:
            self._op("replace", rd if rd is not None else os.fspath(dst), src=rs if rs is not None else os.fspath(src))
        return _real_replace(src, dst, **kw)

    def _rename(self, src, dst, **kw):
        rs, rd = self._rel(src), self._rel(dst)
        if rs is not None or rd is not None:
            self._op("rename", rd if rd is not None else os.fspath(dst), src=rs if rs is not None else os.fspath(src))
        return _real_rename(src, dst, **kw)

    def _remove(self, path, **kw):
        rel = self._rel(path)
        if rel is not None:
            self._op("remove", rel)
        return _real_remove(path, **kw)

    def _utime(self, path, *a, **kw):
        rel = self._rel(path) if not isinstance(path, int) else None
        if rel is not None:
            self._op("utime", rel)
        return _real_utime(path, *a, **kw)

    def _copyfile(self, src, dst, *, follow_symlinks=True):
        rd = self._rel(dst)
        if rd is None:
            return _real_copyfile(src, dst, follow_symlinks=follow_symlinks)
        if os.path.exists(dst) and os.path.samefile(src, dst):
            raise shutil.SameFileError(f"{src!r} and {dst!r} are the same file")
        for fn in (src, dst):
            try:
                st = os.stat(fn)
            except OSError:
                continue
            if _stat.S_ISFIFO(st.st_mode):
                raise shutil.SpecialFileError(f"`{fn}` is a named pipe")
        if not follow_symlinks and os.path.islink(src):
            self._op("symlink", rd)
            os.symlink(os.readlink(src), dst)
            return dst
        with _real_open(src, "rb") as fsrc:  # reading is not a mutating operation
            data = fsrc.read()
        with self._open(dst, "wb") as fdst:  # create / truncate: one operation
            fdst.write(data)  # chunked write: one operation with cut points
        return dst

    # ---------------------------------------------------------------- context manager
    def __enter__(self) -> "FaultFS":
        if self._active:
            raise RuntimeError("FaultFS is not re-entrant")
        if builtins.open is not _real_open or os.open is not _real_os_open:
            raise RuntimeError("another FaultFS is active")
        self._active = True
        builtins.open = self._open
        os.open = self._os_open
        os.mkdir = self._mkdir
        os.makedirs = self._makedirs
        os.replace = self._replace
        os.rename = self._rename
        os.remove = self._remove
        os.unlink = self._remove
        os.utime = self._utime
        shutil.copyfile = self._copyfile
        return self

    def __exit__(self, *exc) -> bool:
        builtins.open = _real_open
        os.open = _real_os_open
        os.mkdir = _real_mkdir
        os.makedirs = _real_makedirs
        os.replace = _real_replace
        os.rename = _real_rename
        os.remove = _real_remove
        os.unlink = _real_unlink
        os.utime = _real_utime
        shutil.copyfile = _real_copyfile
        self._active = False
        return False


# ------------------------------------------------------------------------------------------------
# pre-state snapshots (always taken / restored OUTSIDE an interposed region)
# ------------------------------------------------------------------------------------------------


def snapshot(root: str) -> List[tuple]:
    """In-memory copy of a directory tree: [(relpath, kind, payload, mtime_ns)], parents before children."""
    out: List[tuple] = []
    if not os.path.lexists(root):
        return out

    def rec(d: str, rel: str) -> None:
        for name in sorted(os.listdir(d)):
            p = os.path.join(d, name)
            r = f"{rel}/{name}" if rel else name
            st = os.lstat(p)
            if _stat.S_ISLNK(st.st_mode):
                out.append((r, "l", os.readlink(p), st.st_mtime_ns))
            elif _stat.S_ISDIR(st.st_mode):
                out.append((r, "d", None, st.st_mtime_ns))
                rec(p, r)
            else:
                with _real_open(p, "rb") as f:
                    out.append((r, "f", f.read(), st.st_mtime_ns))

    out.append(("", "d", None, os.lstat(root).st_mtime_ns))
    rec(root, "")
    return out


def restore(root: str, snap: List[tuple]) -> None:
    """Replaces `root` by a fresh copy of the snapshot (root absent if the snapshot is empty)."""
    if os.path.lexists(root):
        shutil.rmtree(root)
    dirs = []
    for r, kind, payload, mt in snap:
        p = os.path.join(root, r) if r else root
        if kind == "d":
            _real_mkdir(p)
            dirs.append((p, mt))
        elif kind == "l":
            os.symlink(payload, p)
        else:
            with _real_open(p, "wb") as f:
                f.write(payload)
            _real_utime(p, ns=(mt, mt))
    for p, mt in reversed(dirs):
        _real_utime(p, ns=(mt, mt))


def tree_state(root: str) -> Dict[str, Any]:
    """{relpath: bytes | ("l", target) | None (directory)} of everything under root ({} if root is absent)."""
    out: Dict[str, Any] = {}
    if not os.path.isdir(root):
        return out

    def rec(d: str, rel: str) -> None:
        with os.scandir(d) as it:
            entries = sorted(it, key=lambda e: e.name)
        for e in entries:
            r = f"{rel}/{e.name}" if rel else e.name
            if e.is_symlink():
                out[r] = ("l", os.readlink(e.path))
            elif e.is_dir(follow_symlinks=False):
                out[r] = None
                rec(e.path, r)
            elif e.stat(follow_symlinks=False).st_size == 0:
                out[r] = b""
            else:
                with _real_open(e.path, "rb") as f:
                    out[r] = f.read()

    out["."] = None
    rec(root, "")
    return out


def _kind(v: Any) -> str:
    return "d" if v is None else "l" if isinstance(v, tuple) else "f"


def restore_state(root: str, state: Dict[str, Any], mtime_ns: Optional[int] = None) -> None:
    """Makes `root` equal to a tree_state() (paths, kinds, bytes) by removing / rewriting only what differs; the result is
    indistinguishable from a fresh copy except for inode numbers.  Files it writes get mtime_ns (if given)."""
    cur = tree_state(root)
    if not state:
        if os.path.lexists(root):
            shutil.rmtree(root)
        return
    for r in sorted(cur, reverse=True):  # children before parents
        if r == ".":
            continue
        if r not in state or _kind(cur[r]) != _kind(state[r]) or (cur[r] != state[r] and isinstance(cur[r], tuple)):
            p = os.path.join(root, r)
            if cur[r] is None:
                shutil.rmtree(p)
            elif os.path.lexists(p):
                _real_unlink(p)
    cur = tree_state(root) if cur else {}
    for r in sorted(state):
        v = state[r]
        p = root if r == "." else os.path.join(root, r)
        if r in cur and cur[r] == v:
            continue
        if v is None:
            _real_mkdir(p)
        elif isinstance(v, tuple):
            os.symlink(v[1], p)
        else:
            with _real_open(p, "wb") as f:
                f.write(v)
            if mtime_ns is not None:
                _real_utime(p, ns=(mtime_ns, mtime_ns))

"""Explicit-state search over the real transition function.

A state is the operation history that reaches it; `build(history)` always replays the history on FRESH real objects,
so oracles can read anything without disturbing the state being explored and every history is a replay artefact.
States are merged by `canon(state)`, which is deliberately over-fine (merging too little only costs time).
"""

from __future__ import annotations

from collections import deque
from typing import Any, Callable, Iterable, List, Tuple


class Stats:
    def __init__(self) -> None:
        self.states = 0
        self.transitions = 0
        self.max_depth = 0
        self.capped = False


def bfs(
    build: Callable[[tuple], Any],
    enabled: Callable[[tuple, Any], Iterable[tuple]],
    canon: Callable[[Any], Any],
    check: Callable[[tuple, Any], None],
    depth: int,
    max_transitions: int = 0,
    on_raise: Callable[[tuple, BaseException], None] = None,
    check_revisits: bool = True,
) -> Stats:
    """check_revisits=False skips the oracle on transitions into an already seen canonical state -- only sound when
    the canonical key determines everything the oracle observes."""
    st = Stats()
    s0 = build(())
    k0 = canon(s0)  # canonical key first: the oracle may read (and thereby fill caches of) the state object
    ops0 = list(enabled((), s0))
    check((), s0)
    seen = {k0}
    frontier = deque([((), ops0)])
    while frontier:
        h, ops = frontier.popleft()
        for op in ops:
            h2 = h + (op,)
            try:
                s = build(h2)
            except Exception as e:  # the implementation raised on this transition: terminal, reported by on_raise
                st.transitions += 1
                if on_raise is None:
                    raise
                on_raise(h2, e)
                continue
            st.transitions += 1
            k = canon(s)
            nxt = list(enabled(h2, s)) if (k not in seen and len(h2) < depth) else None
            if check_revisits or k not in seen:
                check(h2, s)
            if k not in seen:
                seen.add(k)
                st.max_depth = max(st.max_depth, len(h2))
                if nxt is not None:
                    frontier.append((h2, nxt))
            if max_transitions and st.transitions >= max_transitions:
                st.capped = True
                st.states = len(seen)
                return st
    st.states = len(seen)
    return st

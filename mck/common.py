"""Runner, evidence writer, violation / known-finding handling shared by all checks.

A check module (mck/checks/cNN.py) provides

    ID            "C01"
    LEVEL         evidence level ("exploration" | "model_checking" | "fault_enumeration")
    RULE          how cases are enumerated and what makes an outcome distinct / non-trivial
    ASSUMPTIONS   list of strings
    items(tier, seed)  -> iterable of picklable work items (complete enumeration of the bounded space)
    run_item(item)     -> Result  (executed in a worker process against the real implementation)
    replay(case)       -> list of violation dicts (re-executes one self-contained case)

and optionally  post(agg, tier) -> None   to add check-specific coverage keys, and
                conformance(tier, seed) -> (n_traces, list_of_violations)  run once in the parent.

Nothing here samples: items() is always consumed to the end.  VERIF_SEED only rotates the order of the
work list and the choice of samples printed in the evidence.
"""

from __future__ import annotations

import hashlib
import importlib
import json
import multiprocessing
import os
import shutil
import subprocess
import sys
import time
from typing import Any, Dict, Iterable, List, Optional

VERIF = os.path.dirname(os.path.dirname(os.path.abspath(__file__)))
REPO_ROOT = os.path.realpath(os.environ.get("MCK_REPO", "/repo"))
PY = sys.executable
RUN_ID = f"{os.getpid()}"
SCRATCH_BASE = "/dev/shm" if os.path.isdir("/dev/shm") and os.access("/dev/shm", os.W_OK) else "/var/tmp"
RUN_DIR = os.environ.get("MCK_RUN_DIR") or os.path.join(SCRATCH_BASE, f"mck-{RUN_ID}")

SCRUB_PREFIXES = ("KCONFIG_", "IDF_", "COMPONENT_", "SDKCONFIG")
SCRUB_NAMES = ("CONFIG_", "srctree", "ESP_IDF_KCONFIG_MIN_LABELS")


def setup_env() -> None:
    """Scrubbed, deterministic environment for anything that touches the implementation."""
    for k in list(os.environ):
        if k.startswith(SCRUB_PREFIXES) or k in SCRUB_NAMES:
            del os.environ[k]
    os.environ["KCONFIG_REPORT_VERBOSITY"] = "quiet"
    os.environ["ESP_IDF_KCONFIG_VERIF"] = "1"
    os.environ["NO_COLOR"] = "1"
    os.environ["TERM"] = "dumb"
    os.environ["MCK_RUN_DIR"] = RUN_DIR
    os.makedirs(RUN_DIR, exist_ok=True)
    os.environ["TMPDIR"] = RUN_DIR
    if REPO_ROOT != "/repo" or os.environ.get("MCK_REPO"):
        if REPO_ROOT not in sys.path:
            sys.path.insert(0, REPO_ROOT)
        pp = os.environ.get("PYTHONPATH", "")
        if REPO_ROOT not in pp.split(os.pathsep):
            os.environ["PYTHONPATH"] = REPO_ROOT + (os.pathsep + pp if pp else "")


def import_repo() -> Dict[str, str]:
    """Import the implementation and assert that it is the working tree we are asked to check."""
    setup_env()
    mods = {}
    for name in ("esp_kconfiglib", "kconfgen", "kconfserver", "esp_menuconfig", "kconfcheck", "esp_idf_kconfig"):
        m = importlib.import_module(name)
        f = os.path.realpath(m.__file__)
        if not f.startswith(REPO_ROOT + os.sep):
            raise SystemExit(f"HARNESS-ERROR: {name} imported from {f}, not from {REPO_ROOT}")
        mods[name] = f
    return mods


_devnull_fd: Optional[int] = None


def silence_stderr() -> None:
    """The library prints diagnostics to stderr through rich; send fd 2 to /dev/null in workers."""
    global _devnull_fd
    if os.environ.get("MCK_DEBUG"):
        return
    if _devnull_fd is None:
        _devnull_fd = os.open(os.devnull, os.O_WRONLY)
    sys.stderr.flush()
    os.dup2(_devnull_fd, 2)


def scratch_dir(tag: str = "w") -> str:
    d = os.path.join(RUN_DIR, f"{tag}{os.getpid()}")
    os.makedirs(d, exist_ok=True)
    return d


def cleanup_run_dir() -> None:
    shutil.rmtree(RUN_DIR, ignore_errors=True)


def h64(obj: Any) -> int:
    """Stable 64-bit hash of a JSON-able / repr-able object (PYTHONHASHSEED independent)."""
    if not isinstance(obj, (bytes, str)):
        obj = repr(obj)
    if isinstance(obj, str):
        obj = obj.encode("utf-8", "surrogatepass")
    return int.from_bytes(hashlib.blake2b(obj, digest_size=8).digest(), "big")


class Result:
    """What one work item reports back.  Everything is measured, nothing is constant."""

    __slots__ = ("evals", "states", "transitions", "programs", "outcomes", "viols", "nviol", "sample", "extra", "skipped")

    def __init__(self) -> None:
        self.evals = 0
        self.states = 0
        self.transitions = 0
        self.programs = 0
        self.skipped = 0
        self.outcomes: set = set()
        self.viols: List[dict] = []
        self.nviol = 0
        self.sample: Any = None
        self.extra: Dict[str, int] = {}

    def outcome(self, obj: Any) -> None:
        self.outcomes.add(h64(obj))

    def count(self, key: str, n: int = 1) -> None:
        self.extra[key] = self.extra.get(key, 0) + n

    def violation(self, sig: Dict[str, Any], msg: str, case: Dict[str, Any]) -> None:
        """sig: small dict identifying the failure class (kind, call site, construct);
        case: self-contained replayable description."""
        self.nviol += 1
        key = json.dumps(sig, sort_keys=True)
        size = len(json.dumps(case, sort_keys=True, default=str))
        for v in self.viols:
            if v["key"] == key:
                v["n"] += 1
                if size < v["size"]:
                    v.update(msg=msg, case=case, size=size)
                return
        self.viols.append({"key": key, "sig": sig, "msg": msg, "case": case, "size": size, "n": 1})


class Agg:
    def __init__(self) -> None:
        self.evals = 0
        self.states = 0
        self.transitions = 0
        self.programs = 0
        self.skipped = 0
        self.items = 0
        self.outcomes: set = set()
        self.viols: Dict[str, dict] = {}
        self.nviol = 0
        self.samples: List[Any] = []
        self.extra: Dict[str, int] = {}
        self.traces_validated = 0
        self.herrs: List[Any] = []

    def add(self, r: Result, want_sample: bool) -> None:
        self.items += 1
        if r.extra.get("harness_errors"):
            if len(self.herrs) < 3:
                self.herrs.append(r.sample)
            self.extra["harness_errors"] = self.extra.get("harness_errors", 0) + 1
            return
        self.evals += r.evals
        self.states += r.states
        self.transitions += r.transitions
        self.programs += r.programs
        self.skipped += r.skipped
        self.outcomes |= r.outcomes
        self.nviol += r.nviol
        for k, v in r.extra.items():
            self.extra[k] = self.extra.get(k, 0) + v
        for v in r.viols:
            cur = self.viols.get(v["key"])
            if cur is None:
                self.viols[v["key"]] = dict(v)
            else:
                cur["n"] += v["n"]
                if v["size"] < cur["size"]:
                    cur.update(msg=v["msg"], case=v["case"], size=v["size"])
        if want_sample and r.sample is not None and len(self.samples) < 6:
            self.samples.append(r.sample)


# --------------------------------------------------------------------------------------------
# known findings
# --------------------------------------------------------------------------------------------

KNOWN_FILE = os.path.join(VERIF, "known_findings.json")
# runs against a scratch copy (mutants) must not overwrite the evidence / replays of the real tree
OUT_DIR = os.environ.get("MCK_OUT_DIR") or (VERIF if not os.environ.get("MCK_REPO") else "/var/tmp/mck-out-" + os.path.basename(os.environ["MCK_REPO"].rstrip("/")))


def load_known(prop: str) -> List[dict]:
    if not os.path.exists(KNOWN_FILE):
        return []
    with open(KNOWN_FILE) as f:
        data = json.load(f)
    return [e for e in data.get("findings", []) if e.get("property") == prop]


def _match_value(pattern: Any, value: Any) -> bool:
    if isinstance(pattern, dict) and "any_of" in pattern:
        return any(_match_value(p, value) for p in pattern["any_of"])
    if isinstance(pattern, dict) and "regex" in pattern:
        import re

        return isinstance(value, str) and re.search(pattern["regex"], value) is not None
    return pattern == value


def match_known(entries: List[dict], sig: Dict[str, Any]) -> Optional[dict]:
    """A violation is covered by a known finding only if *every* field of the entry's `match` is
    present in the violation's signature with the listed value.  `fixed` entries never match."""
    for e in entries:
        if e.get("status") != "known":
            continue
        m = e.get("match", {})
        if m and all(k in sig and _match_value(p, sig[k]) for k, p in m.items()):
            return e
    return None


# --------------------------------------------------------------------------------------------
# worker plumbing
# --------------------------------------------------------------------------------------------

_MODULE = None


def _worker_init(modname: str) -> None:
    global _MODULE
    setup_env()
    silence_stderr()
    import_repo()
    _MODULE = importlib.import_module(modname)
    if hasattr(_MODULE, "worker_init"):
        _MODULE.worker_init()


def _worker_run(item: Any) -> Result:
    try:
        return _MODULE.run_item(item)
    except BaseException as e:  # harness bug, not a property violation
        import traceback

        r = Result()
        r.extra["harness_errors"] = 1
        r.sample = {"harness_error": traceback.format_exc()[-3000:], "item": repr(item)[:2000]}
        return r


def tier_and_seed(argv_tier: Optional[str]) -> (str, int):
    tier = argv_tier or os.environ.get("VERIF_TIER") or "quick"
    if tier not in ("quick", "thorough"):
        tier = "quick"
    try:
        seed = int(os.environ.get("VERIF_SEED", "0"))
    except ValueError:
        seed = 0
    return tier, seed


def rotate(lst: List[Any], seed: int) -> List[Any]:
    if not lst:
        return lst
    k = seed % len(lst)
    return lst[k:] + lst[:k]


def write_evidence(prop: str, tier: str, seed: int, level: str, coverage: dict, assumptions: List[str], wall: float, nviol: int) -> str:
    ev = {
        "property_id": prop,
        "tier": tier,
        "seed": seed,
        "level": level,
        "coverage": coverage,
        "assumptions": assumptions,
        "wall_s": round(wall, 3),
        "violations": nviol,
    }
    os.makedirs(os.path.join(OUT_DIR, "evidence"), exist_ok=True)
    path = os.path.join(OUT_DIR, "evidence", f"{prop}.json")
    tmp = path + ".tmp"
    with open(tmp, "w") as f:
        json.dump(ev, f, indent=1, sort_keys=True, default=str)
        f.write("\n")
    os.replace(tmp, path)
    return path


def replay_subprocess(prop: str, path: str) -> Optional[List[str]]:
    """Re-execute a replay file in a fresh interpreter; returns the sorted signature keys it reproduces."""
    env = dict(os.environ)
    env.pop("MCK_RUN_DIR", None)
    env["PYTHONHASHSEED"] = "0"
    p = subprocess.run(
        [PY, "-m", "mck.run", prop, "--replay", path],
        cwd=VERIF,
        env=env,
        stdout=subprocess.PIPE,
        stderr=subprocess.DEVNULL,
        text=True,
        timeout=600,
    )
    if p.returncode not in (0, 1):
        return None
    keys = []
    for line in p.stdout.splitlines():
        if line.startswith("REPLAY-VIOLATION "):
            try:
                keys.append(json.dumps(json.loads(line[len("REPLAY-VIOLATION "):])["sig"], sort_keys=True))
            except Exception:
                pass
    return sorted(set(keys))


def run_check(modname: str, tier: str, seed: int, jobs: Optional[int] = None) -> int:
    t0 = time.time()
    setup_env()
    mods = import_repo()
    mod = importlib.import_module(modname)
    prop = mod.ID
    items = list(mod.items(tier, seed))
    items = rotate(items, seed)
    n_items = len(items)
    jobs = jobs or int(os.environ.get("MCK_JOBS", "0")) or min(16, os.cpu_count() or 4)
    agg = Agg()
    sample_every = max(1, n_items // 6)
    sys.stdout.flush()
    try:
        if jobs == 1 or n_items <= 1:
            _worker_init(modname)
            for i, it in enumerate(items):
                agg.add(_worker_run(it), i % sample_every == 0)
        else:
            ctx = multiprocessing.get_context("fork")
            chunks = max(1, min(32, n_items // (jobs * 8) or 1))
            with ctx.Pool(jobs, initializer=_worker_init, initargs=(modname,)) as pool:
                for i, r in enumerate(pool.imap(_worker_run, items, chunksize=chunks)):
                    agg.add(r, i % sample_every == 0)
        conf_viol: List[dict] = []
        if hasattr(mod, "conformance"):
            n, conf_viol = mod.conformance(tier, seed)
            agg.traces_validated += n
            for v in conf_viol:
                r = Result()
                r.violation(v["sig"], v["msg"], v["case"])
                agg.add(r, False)
    finally:
        pass

    if agg.extra.get("harness_errors"):
        print(f"HARNESS-ERROR property={prop}: {agg.extra['harness_errors']} work items raised inside the harness")
        for s in agg.herrs[:1]:
            print(s["harness_error"])
            print("item:", s["item"])
        cleanup_run_dir()
        return 2

    # ---------------- violations
    known = load_known(prop)
    known_hit: Dict[str, dict] = {}
    reported: List[dict] = []
    harness_nondet = False
    os.makedirs(os.path.join(OUT_DIR, "replays", prop), exist_ok=True)
    unknown = []
    for key, v in sorted(agg.viols.items()):
        e = match_known(known, v["sig"])
        if e is not None:
            ent = known_hit.setdefault(e["id"], {"entry": e, "n": 0, "witness": v})
            ent["n"] += v["n"]
        else:
            unknown.append(v)
    max_report = int(os.environ.get("MCK_MAX_REPORT", "8"))
    if os.environ.get("MCK_LIST"):
        for v in unknown:
            print(f"CLASS n={v['n']} sig={json.dumps(v['sig'], sort_keys=True)}\n      {v['msg'][:600]}")
    for v in unknown[:max(1, max_report)]:
        rid = f"{h64(v['key'] + json.dumps(v['case'], sort_keys=True, default=str)):016x}"
        path = os.path.join(OUT_DIR, "replays", prop, f"{rid}.json")
        with open(path, "w") as f:
            json.dump({"property": prop, "sig": v["sig"], "msg": v["msg"], "case": v["case"]}, f, indent=1, default=str)
            f.write("\n")
        a = replay_subprocess(prop, path)
        b = replay_subprocess(prop, path)
        if a is None or b is None or a != b:
            harness_nondet = True
            print(f"HARNESS-ERROR property={prop}: replay of {path} is not deterministic ({a!r} vs {b!r})")
            continue
        if v["key"] not in a:
            harness_nondet = True
            print(f"HARNESS-ERROR property={prop}: counter-example {path} does not reproduce from a fresh process (got {a!r})")
            continue
        reported.append({"sig": v["sig"], "msg": v["msg"], "replay": path, "count": v["n"]})

    # ---------------- evidence
    coverage: Dict[str, Any] = {
        "evaluations": agg.evals,
        "distinct_nontrivial": len(agg.outcomes),
        "rule": getattr(mod, "RULE", ""),
        "samples": agg.samples or [{"note": "no sample produced"}],
        "work_items": n_items,
        "programs": agg.programs or n_items,
        "exhaustive": True,
        "workers": jobs,
        "implementation": mods["esp_kconfiglib"],
        "violations_total": agg.nviol,
        "violation_classes": len(agg.viols),
        "known_finding_classes": {k: ent["n"] for k, ent in known_hit.items()},
    }
    if agg.skipped:
        coverage["skipped_outside_statement"] = agg.skipped
    if agg.states or getattr(mod, "LEVEL", "") == "model_checking":
        coverage["states"] = agg.states
        coverage["transitions"] = agg.transitions
        # There is no separate model: every transition is a complete history replayed on a fresh instance of the REAL
        # implementation.  `traces_validated_against_impl` counts those executions, plus (where a check has a second,
        # independent driver: real subprocess / Textual Pilot) the traces replayed through that driver.
        coverage["explored_on"] = "the real implementation (no separate model); every transition = one history replayed on fresh real objects"
        coverage["traces_replayed_through_independent_driver"] = agg.traces_validated
        coverage["traces_validated_against_impl"] = agg.transitions + agg.traces_validated
    elif agg.traces_validated:
        coverage["traces_validated_against_impl"] = agg.traces_validated
    for k, v in agg.extra.items():
        coverage.setdefault("counters", {})[k] = v
    if hasattr(mod, "post"):
        mod.post(agg, tier, coverage)
    wall = time.time() - t0
    write_evidence(prop, tier, seed, mod.LEVEL, coverage, list(getattr(mod, "ASSUMPTIONS", [])), wall, len(reported))

    for k, ent in sorted(known_hit.items()):
        print(f"KNOWN-FINDING: property={prop} {ent['entry']['what']} [{k}; {ent['n']} explored cases]")
    for r in reported:
        print(f"VIOLATION property={prop} replay={r['replay']}")
        print(f"  {r['msg']}  ({r['count']} cases in this class; sig={json.dumps(r['sig'], sort_keys=True)})")
    if len(unknown) > max_report:
        print(f"  ... and {len(unknown) - max_report} more violation classes not written out")
    print(
        f"{prop} tier={tier} seed={seed} items={n_items} evaluations={agg.evals} states={agg.states} "
        f"transitions={agg.transitions} distinct_outcomes={len(agg.outcomes)} violations={len(reported)} "
        f"known={len(known_hit)} wall={wall:.1f}s"
    )
    cleanup_run_dir()
    if harness_nondet:
        return 2
    return 1 if reported else 0


def run_replay(modname: str, path: str) -> int:
    setup_env()
    silence_stderr()
    import_repo()
    mod = importlib.import_module(modname)
    with open(path) as f:
        data = json.load(f)
    viols = mod.replay(data["case"])
    want = json.dumps(data.get("sig"), sort_keys=True) if data.get("sig") is not None else None
    hit = False
    for v in viols:
        print("REPLAY-VIOLATION " + json.dumps({"sig": v["sig"], "msg": v["msg"]}, sort_keys=True, default=str))
        if want is None or json.dumps(v["sig"], sort_keys=True) == want:
            hit = True
    cleanup_run_dir()
    if hit:
        print(f"VIOLATION property={mod.ID} replay={path}")
        return 1
    print(f"replay of {path}: recorded violation not reproduced ({len(viols)} other)")
    return 0

"""Small AST for the documented Kconfig language + canonical renderer.

Expressions are tuples:
    ("s", NAME)            option reference
    ("l", TEXT)            literal, rendered verbatim:  y  n  5  -1  0x1f  1.5  "v1"
    ("!", e)  ("&&", a, b)  ("||", a, b)
    (rel, a, b)            rel in = != < <= > >=   (a, b are "s"/"l" atoms)
None stands for "no condition".
"""

from __future__ import annotations

from dataclasses import dataclass, field
from typing import Any, Dict, Iterator, List, Optional, Tuple

Expr = Optional[tuple]
RELS = ("=", "!=", "<", "<=", ">", ">=")


def S(name: str) -> tuple:
    return ("s", name)


def L(text: str) -> tuple:
    return ("l", text)


def Not(e: tuple) -> tuple:
    return ("!", e)


def And(a: tuple, b: tuple) -> tuple:
    return ("&&", a, b)


def Or(a: tuple, b: tuple) -> tuple:
    return ("||", a, b)


def Rel(op: str, a: tuple, b: tuple) -> tuple:
    return (op, a, b)


def expr_str(e: Expr, prec: int = 0) -> str:
    """Minimal-parentheses rendering.  prec: 0 top / inside ||, 1 inside &&, 2 inside !"""
    if e is None:
        return ""
    k = e[0]
    if k == "s" or k == "l":
        return e[1]
    if k == "!":
        return "!" + expr_str(e[1], 2)
    if k in RELS:
        s = f"{expr_str(e[1], 3)} {k} {expr_str(e[2], 3)}"
        return f"({s})" if prec >= 2 else s
    if k == "&&":
        s = f"{expr_str(e[1], 1)} && {expr_str(e[2], 1)}"
        return f"({s})" if prec >= 2 else s
    if k == "||":
        s = f"{expr_str(e[1], 0)} || {expr_str(e[2], 0)}"
        return f"({s})" if prec >= 1 else s
    raise ValueError(e)


def expr_syms(e: Expr) -> List[str]:
    out: List[str] = []

    def rec(x):
        if x is None:
            return
        if x[0] == "s":
            if x[1] not in out:
                out.append(x[1])
        elif x[0] == "l":
            return
        else:
            for y in x[1:]:
                rec(y)

    rec(e)
    return out


@dataclass
class Cfg:
    name: str
    type: str = "bool"  # bool int hex string float
    prompt: Optional[str] = None
    prompt_cond: Expr = None
    defaults: List[Tuple[tuple, Expr]] = field(default_factory=list)  # (value atom/expr, cond)
    ranges: List[Tuple[tuple, tuple, Expr]] = field(default_factory=list)
    selects: List[Tuple[str, Expr]] = field(default_factory=list)
    implies: List[Tuple[str, Expr]] = field(default_factory=list)
    sets: List[Tuple[str, tuple, Expr]] = field(default_factory=list)  # (target, value atom, cond)
    wsets: List[Tuple[str, tuple, Expr]] = field(default_factory=list)
    depends: List[tuple] = field(default_factory=list)
    help: Optional[str] = None
    warning: Optional[str] = None
    menuconfig: bool = False
    explicit_prompt: bool = False  # render `prompt "..."` on its own line instead of inline with the type
    kind: str = "cfg"


@dataclass
class Choice:
    name: Optional[str] = None
    prompt: Optional[str] = "choice"
    prompt_cond: Expr = None
    defaults: List[Tuple[str, Expr]] = field(default_factory=list)
    depends: List[tuple] = field(default_factory=list)
    children: List[Any] = field(default_factory=list)
    help: Optional[str] = None
    kind: str = "choice"


@dataclass
class Menu:
    title: str = "menu"
    depends: List[tuple] = field(default_factory=list)
    visible_if: List[tuple] = field(default_factory=list)
    children: List[Any] = field(default_factory=list)
    kind: str = "menu"


@dataclass
class If:
    cond: tuple = ("l", "y")
    children: List[Any] = field(default_factory=list)
    kind: str = "if"


@dataclass
class Comment:
    text: str = "comment"
    depends: List[tuple] = field(default_factory=list)
    kind: str = "comment"


@dataclass
class Source:
    how: str = "rsource"  # source rsource osource orsource
    file: str = "Kconfig.sub"
    children: Optional[List[Any]] = None  # None => file does not exist (only valid for o*source)
    kind: str = "source"


@dataclass
class Macro:
    name: str = "M"
    op: str = "="
    value: str = "1"
    kind: str = "macro"


@dataclass
class Program:
    title: str = "T"
    children: List[Any] = field(default_factory=list)


IND = "    "


def _cond(c: Expr) -> str:
    return f" if {expr_str(c)}" if c is not None else ""


def _render_cfg(c: Cfg, ind: str, out: List[str]) -> None:
    out.append(f"{ind}{'menuconfig' if c.menuconfig else 'config'} {c.name}")
    i2 = ind + IND
    if c.prompt is not None and not c.explicit_prompt:
        out.append(f'{i2}{c.type} "{c.prompt}"{_cond(c.prompt_cond)}')
    else:
        out.append(f"{i2}{c.type}")
        if c.prompt is not None:
            out.append(f'{i2}prompt "{c.prompt}"{_cond(c.prompt_cond)}')
    for d in c.depends:
        out.append(f"{i2}depends on {expr_str(d)}")
    for lo, hi, cond in c.ranges:
        out.append(f"{i2}range {expr_str(lo)} {expr_str(hi)}{_cond(cond)}")
    for v, cond in c.defaults:
        out.append(f"{i2}default {expr_str(v)}{_cond(cond)}")
    for t, cond in c.selects:
        out.append(f"{i2}select {t}{_cond(cond)}")
    for t, cond in c.implies:
        out.append(f"{i2}imply {t}{_cond(cond)}")
    for t, v, cond in c.sets:
        out.append(f"{i2}set {t}={expr_str(v)}{_cond(cond)}")
    for t, v, cond in c.wsets:
        out.append(f"{i2}set default {t}={expr_str(v)}{_cond(cond)}")
    if c.warning is not None:
        out.append(f'{i2}warning "{c.warning}"')
    if c.help is not None:
        out.append(f"{i2}help")
        for line in c.help.split("\n"):
            out.append(f"{i2}{IND}{line}" if line else "")
    out.append("")


def _render(node: Any, ind: str, out: List[str], files: Dict[str, str]) -> None:
    k = node.kind
    if k == "cfg":
        _render_cfg(node, ind, out)
    elif k == "choice":
        out.append(f"{ind}choice{' ' + node.name if node.name else ''}")
        i2 = ind + IND
        if node.prompt is not None:
            out.append(f'{i2}prompt "{node.prompt}"{_cond(node.prompt_cond)}')
        for d in node.depends:
            out.append(f"{i2}depends on {expr_str(d)}")
        for t, cond in node.defaults:
            out.append(f"{i2}default {t}{_cond(cond)}")
        if node.help is not None:
            out.append(f"{i2}help")
            for line in node.help.split("\n"):
                out.append(f"{i2}{IND}{line}" if line else "")
        out.append("")
        for ch in node.children:
            _render(ch, i2, out, files)
        out.append(f"{ind}endchoice")
        out.append("")
    elif k == "menu":
        out.append(f'{ind}menu "{node.title}"')
        i2 = ind + IND
        for d in node.depends:
            out.append(f"{i2}depends on {expr_str(d)}")
        for d in node.visible_if:
            out.append(f"{i2}visible if {expr_str(d)}")
        out.append("")
        for ch in node.children:
            _render(ch, i2, out, files)
        out.append(f"{ind}endmenu")
        out.append("")
    elif k == "if":
        out.append(f"{ind}if {expr_str(node.cond)}")
        out.append("")
        for ch in node.children:
            _render(ch, ind + IND, out, files)
        out.append(f"{ind}endif")
        out.append("")
    elif k == "comment":
        out.append(f'{ind}comment "{node.text}"')
        for d in node.depends:
            out.append(f"{ind}{IND}depends on {expr_str(d)}")
        out.append("")
    elif k == "source":
        out.append(f'{ind}{node.how} "{node.file}"')
        out.append("")
        if node.children is not None:
            sub: List[str] = []
            for ch in node.children:
                _render(ch, "", sub, files)
            files[node.file] = "\n".join(sub).rstrip("\n") + "\n" if sub else ""
    elif k == "macro":
        out.append(f"{ind}{node.name} {node.op} {node.value}")
        out.append("")
    else:
        raise ValueError(k)


def render(p: Program) -> Dict[str, str]:
    """Returns {filename: text}; the root file is "Kconfig"."""
    files: Dict[str, str] = {}
    out: List[str] = [f'mainmenu "{p.title}"', ""]
    for ch in p.children:
        _render(ch, IND, out, files)
    files["Kconfig"] = "\n".join(out).rstrip("\n") + "\n"
    return files


def text(p: Program) -> str:
    return render(p)["Kconfig"]


def walk(children: List[Any]) -> Iterator[Any]:
    for ch in children:
        yield ch
        sub = getattr(ch, "children", None)
        if sub:
            yield from walk(sub)


def configs(p: Program) -> List[Cfg]:
    return [n for n in walk(p.children) if n.kind == "cfg"]


def choices(p: Program) -> List[Choice]:
    return [n for n in walk(p.children) if n.kind == "choice"]

"""C02 -- saving and reloading a configuration is a fixpoint.

Explicit-state search per program.  Operations: set(x, v) / unset(x) / reset(x) and load / merge of a file from a
history-independent menu F = {files the tool writes in the initial state and after each single first-value set} +
{hand-written defaults-style files without markers}.  In every distinct reachable state s:

  t1 = write(s);  k2 = fresh instance (report reset) . load(t1)
  (a) every option's value equal           (b) write(k2) == t1 byte for byte
  (c) no default-value-mismatch / multiple-assignment records and no unknown symbols after the load
  (d) same with the deprecated-options block (rename table loaded, write_deprecated=True)

Program families: one probe kind per construct whose written form / load path is special, each in every context.  The
"choice with followers" family (CHOICE_FOLLOW_KINDS) combines a 3-member choice with promptless int / string / bool options
and a prompted int whose defaults follow the members (`default 0 if M1`, `default 4 if M2`), written after or before the
choice, and with the choice's default member depending on an option defined AFTER the choice (through the condition of the
choice's `default` or through the member's `depends on`): the loader defers choice selections and default resolution, so
what it evaluates while the lines are still being read differs from the final configuration.
The "several definitions" family (MULTI_*) defines one option P of every type (bool int hex string float) at two or three
places: default-only definition first and the prompt later, prompt first and a default-only definition later, a prompt at
both places (the first conditional), the only prompt conditional (before / after the default-only definition), promptless /
prompted / promptless, and promptless everywhere; the definitions carry different defaults, one of them conditional on an
option Q that is defined between (thorough: also before / after) the definitions; every context, plus one where the later
definitions sit inside a menu.  User values: one that differs from both defaults and one equal to the first default.
String alphabet: besides quotes / backslashes / blanks / `#`, one value (quick) made of every character that
str.splitlines() treats as a line boundary although a text file does not (VT FF FS GS RS NEL U+2028 U+2029) and, in the
thorough tier, each of them alone next to a quote; the same characters in the Kconfig default of a prompted and of a
promptless option.
"""

from __future__ import annotations

import itertools
from typing import Any, Dict, Iterator, List, Optional, Tuple

from .. import common, explore, impl, kgen
from ..kgen import And, Cfg, Choice, Comment, If, L, Menu, Not, Or, Program, Rel, S

ID = "C02"
LEVEL = "model_checking"
RULE = (
    "explicit-state BFS per program over set/unset/reset and load/merge of files from a fixed menu (tool-written at the "
    "initial and at every single-set state, plus hand-written unmarked files); programs = probe kinds (escaped strings, hex "
    "forms, floats, ranged int, bool, 3-member choice, set / set default target, promptless conditional default before its "
    "dependency, multi-definition, one option of each type (bool int hex string float) defined at 2-3 places in 7 shapes "
    "(np+p, p+np, p+p, np+p-if-Q, p-if-Q+np, np+p+np, np+np; different defaults, one conditional on Q defined between -- thorough: "
    "also before / after -- the definitions; also with the later definitions inside a menu), choice with promptless/prompted options whose defaults follow its members -- written after / "
    "before the choice, default member conditional on / depending on an option defined after the choice) x contexts (plain, conditional prompt with the condition before/after, depends, menu "
    "depends, menu visible if, if) + probe pairs; each also with a rename table. Depth 3 (thorough 4); the choice-with-followers "
    "family at full depth in the plain context and one less in the others. String values and Kconfig string defaults include the "
    "characters str.splitlines() splits at (VT FF FS GS RS NEL U+2028 U+2029). States merged on (user values, selections, "
    "injected defaults). distinct_nontrivial = distinct (program, state) with at least one user value or pick."
)
ASSUMPTIONS = [
    "choice-with-followers programs in a non-plain context are explored one operation shallower than the rest (state spaces of choice programs are the largest)",
    "thorough-tier probe pairs use every earlier probe kind plus `choice_follow`; the three other choice-with-followers kinds are not paired",
    "options defined at several places are not combined with a second probe kind (no pair programs); an option that has no prompt at any of its definitions is never assigned by set / hand-written files",
    "the canonical key (user values, user selections, injected defaults) determines the written text, so revisited states are not re-checked",
    "load menu is history independent so that merging states is sound; files written deeper in a history are covered by the thorough tier's larger menu",
]

# probe kinds: (name, builder(context deps) -> list of nodes, setters)
# characters that str.splitlines() treats as line boundaries although a text file (and the writer) only ends lines at \n / \r
SEPARATORS = "\x0b\x0c\x1c\x1d\x1e\x85\u2028\u2029"
STR_VALS_Q = ['a"b', "a\\b", "trail\\", " lead ", "#x", "s" + "".join(c + "s" for c in SEPARATORS), ""]
STR_VALS_T = STR_VALS_Q + ["a\nb", "a\rb", "a\x0cb\u2028c", "'q'", "é", "$(X)", "a\\\"b"] + ["a" + c + '"b' for c in SEPARATORS]


def probe(kind: str, tier: str):
    """returns (nodes, setters {name: [values]}, renames lines)"""
    if kind == "string":
        vals = STR_VALS_Q if tier == "quick" else STR_VALS_T
        # PD / R: a prompted and a promptless option whose Kconfig DEFAULT carries the separator characters (never set)
        sep = L('"' + STR_VALS_Q[-2] + '"')
        return [Cfg("P", "string", prompt="p", defaults=[(L('"d"'), None)]), Cfg("PD", "string", prompt="pd", defaults=[(sep, None)]), Cfg("R", "string", defaults=[(sep, None)])], {"P": vals}, ["CONFIG_OLD_P CONFIG_P"]
    if kind == "hex":
        return [Cfg("P", "hex", prompt="p", defaults=[(L("0x10"), None)])], {"P": ["0x1F", "1f", "0X2a"]}, ["CONFIG_OLD_P CONFIG_P"]
    if kind == "float":
        return [Cfg("P", "float", prompt="p", defaults=[(L("1.5"), None)])], {"P": ["5", "1e3", "0.50", "-2.5"]}, ["CONFIG_OLD_P CONFIG_P"]
    if kind == "int_range":
        return [Cfg("P", "int", prompt="p", ranges=[(L("1"), L("9"), None)], defaults=[(L("5"), None)])], {"P": ["99", "-1", "007", "3"]}, ["CONFIG_OLD_P CONFIG_P"]
    if kind == "range_sym_bounds":
        # range bounds given by other options; P's value comes from its default / a user value and is clamped by the bounds
        return [Cfg("LO", "int", prompt="lo", defaults=[(L("1"), None)]), Cfg("HI", "int", prompt="hi", defaults=[(L("9"), None)]),
                Cfg("P", "int", prompt="p", ranges=[(S("LO"), S("HI"), None)], defaults=[(L("5"), None)])], {"HI": ["3", "7"], "LO": ["6"], "P": ["8"]}, ["CONFIG_OLD_P CONFIG_P"]
    if kind == "bool":
        return [Cfg("P", "bool", prompt="p", defaults=[(L("y"), None)])], {"P": ["n", "y"]}, ["CONFIG_OLD_P CONFIG_P", "CONFIG_OLD_NP !CONFIG_P"]
    if kind == "choice3":
        ch = Choice(prompt="c", defaults=[("M2", S("Q"))], children=[Cfg("M1", "bool", prompt="m1"), Cfg("M2", "bool", prompt="m2", prompt_cond=S("Q")), Cfg("M3", "bool", prompt="m3")])
        return [Cfg("Q", "bool", prompt="q"), ch], {"Q": ["y", "n"], "M1": ["y", "n"], "M2": ["y"], "M3": ["y", "n"]}, ["CONFIG_OLD_M3 CONFIG_M3", "CONFIG_OLD_NM1 !CONFIG_M1"]
    if kind == "set_target":
        src = Cfg("SRC", "bool", prompt="src", sets=[("P", L("7"), None)])
        return [Cfg("P", "int", prompt="p", defaults=[(L("3"), None)]), src], {"SRC": ["y", "n"], "P": ["4", "7"]}, ["CONFIG_OLD_P CONFIG_P"]
    if kind == "wset_target":
        src = Cfg("SRC", "bool", prompt="src", wsets=[("P", L('"w"'), None)])
        return [Cfg("P", "string", prompt="p", defaults=[(L('"d"'), None)]), src], {"SRC": ["y", "n"], "P": ["u", "w", "d"]}, ["CONFIG_OLD_P CONFIG_P"]
    if kind == "promptless_before":
        return [Cfg("P", "int", defaults=[(L("1"), S("Q")), (L("2"), None)]), Cfg("R", "string", defaults=[(S("T"), None)]), Cfg("Q", "bool", prompt="q"), Cfg("T", "string", prompt="t", defaults=[(L('"t0"'), None)])], {"Q": ["y", "n"], "T": ["t1"]}, ["CONFIG_OLD_P CONFIG_P"]
    if kind == "multi_def":
        return [Cfg("P", "int", prompt="p", prompt_cond=S("Q"), defaults=[(L("1"), S("Q"))]), Cfg("Q", "bool", prompt="q"), Cfg("P", "int", defaults=[(L("2"), None)])], {"Q": ["y", "n"], "P": ["5"]}, ["CONFIG_OLD_P CONFIG_P"]
    if kind == "nonbool_in_choice":
        ch = Choice(prompt="c", children=[Cfg("M1", "bool", prompt="m1"), If(cond=S("M1"), children=[Cfg("P", "int", prompt="p", defaults=[(L("5"), None)])]), Cfg("M2", "bool", prompt="m2")])
        return [ch], {"P": ["7", "5"], "M2": ["y"], "M1": ["y"]}, ["CONFIG_OLD_P CONFIG_P"]
    if kind == "nonbool_direct_in_choice":
        # an int / string option placed directly in a choice block (no implicit sub-menu): Symbol.choice is set for it
        ch = Choice(prompt="c", children=[Cfg("M1", "bool", prompt="m1"), Cfg("P", "int", prompt="p", defaults=[(L("5"), None)]), Cfg("M2", "bool", prompt="m2"), Cfg("PS", "string", prompt="ps", defaults=[(L('"d"'), None)])])
        return [ch], {"P": ["7", "5"], "M2": ["y"], "PS": ["u"]}, ["CONFIG_OLD_P CONFIG_P"]
    if kind == "float_noncanonical":
        src = Cfg("SRC", "bool", prompt="src", wsets=[("P", L("5"), None)], sets=[("P2", L("2.50"), None)])
        return [Cfg("P", "float", prompt="p", defaults=[(L("1e2"), None)]), Cfg("P2", "float", prompt="p2", defaults=[(L("7"), None)]), Cfg("P3", "float", defaults=[(L("3"), S("SRC")), (L("0.10"), None)]), src], {"SRC": ["y", "n"], "P": ["5", "100"], "P2": ["2.5"]}, ["CONFIG_OLD_P CONFIG_P"]
    if kind == "hex_int_indirect":
        src = Cfg("SRC", "bool", prompt="src", wsets=[("P", L("0X1F"), None)], sets=[("P2", L("007"), None)])
        return [Cfg("P", "hex", prompt="p", defaults=[(L("0x10"), None)]), Cfg("P2", "int", prompt="p2", defaults=[(L("7"), None)]), src], {"SRC": ["y", "n"], "P": ["0x1f"], "P2": ["7"]}, ["CONFIG_OLD_P CONFIG_P"]
    if kind == "select_imply":
        src = Cfg("SRC", "bool", prompt="src", selects=[("P", None)], implies=[("P2", None)])
        return [Cfg("P", "bool", prompt="p"), Cfg("P2", "bool", prompt="p2"), src], {"SRC": ["y", "n"], "P": ["n", "y"], "P2": ["n"]}, ["CONFIG_OLD_NP2 !CONFIG_P2"]
    if kind in CHOICE_FOLLOW_KINDS:
        return choice_follow(kind)
    if kind.startswith("multi:"):
        return multi_probe(kind)
    raise ValueError(kind)


def followers() -> List[Any]:
    """options whose defaults follow the members of the choice {M1, M2, M3}: promptless int / string / bool and a prompted int"""
    return [
        Cfg("P", "int", defaults=[(L("0"), S("M1")), (L("4"), S("M2")), (L("-1"), None)]),
        Cfg("PS", "string", defaults=[(L('"m1"'), S("M1")), (L('"m \\"2\\""'), S("M2")), (L('"none"'), None)]),
        Cfg("PB", "bool", defaults=[(L("y"), S("M3"))]),
        Cfg("PP", "int", prompt="pp", defaults=[(L("10"), S("M1")), (L("20"), S("M2")), (L("30"), None)]),
    ]


CHOICE_FOLLOW_KINDS = ("choice_follow", "choice_follow_before", "choice_default_cond_after", "choice_member_dep_after")


def choice_follow(kind: str):
    """a choice together with promptless and prompted options whose defaults follow its members

    choice_follow             choice (explicit default M1), followers after it
    choice_follow_before      followers written BEFORE the choice they follow
    choice_default_cond_after the choice's default member is conditional (`default M2 if X`) on an option X defined (and
                              written) AFTER the choice: while the file is being read the choice still resolves to M1
    choice_member_dep_after   the default member M2 depends on an option X defined AFTER the choice
    """
    ren = ["CONFIG_OLD_P CONFIG_P", "CONFIG_OLD_M2 CONFIG_M2", "CONFIG_OLD_NM3 !CONFIG_M3"]
    ms = [Cfg("M1", "bool", prompt="m1"), Cfg("M2", "bool", prompt="m2"), Cfg("M3", "bool", prompt="m3")]
    picks = {"M2": ["y"], "M3": ["y"], "M1": ["y"]}
    if kind in ("choice_follow", "choice_follow_before"):
        ch = Choice(prompt="c", defaults=[("M1", None)], children=ms)
        nodes = [ch] + followers() if kind == "choice_follow" else followers() + [ch]
        return nodes, dict(picks, PP=["7"]), ren
    X = Cfg("X", "bool", prompt="x")
    if kind == "choice_default_cond_after":
        ch = Choice(prompt="c", defaults=[("M2", S("X"))], children=ms)
        return [ch] + followers() + [X], dict(picks, X=["y", "n"]), ren
    if kind == "choice_member_dep_after":
        ms[1].depends.append(S("X"))
        ch = Choice(prompt="c", defaults=[("M2", None)], children=ms)
        return [ch] + followers() + [X], dict(picks, X=["y", "n"]), ren
    raise ValueError(kind)


# ---- options defined at several places ---------------------------------------------------------------------------
# type -> (default of the first definition, default of a later definition, user values: one differing from both
# defaults and one equal to the first default)
MULTI_TYPES = {
    "bool": ("y", "n", ["n", "y"]),
    "int": ("64", "32", ["128", "64"]),
    "hex": ("0x40", "0x20", ["0x1F", "0x40"]),
    "string": ('"one"', '"two"', ['u "q"', "one"]),
    "float": ("1.5", "2.5", ["5", "1.5"]),
}
# shape -> definitions in file order: (prompt or None, prompt condition on Q?, which default or None, default condition on Q?)
# "|" marks the place of the option Q the conditions refer to (position `mid`)
MULTI_SHAPES = {
    "np_p": [(None, False, 0, True), "|", ("p", False, 1, False)],  # default-only definition first, prompt later
    "p_np": [("p", False, 0, True), "|", (None, False, 1, False)],  # prompt first, default-only definition later
    "p_p": [("p1", True, 0, True), "|", ("p2", False, 1, False)],  # prompt at both places, the first conditional
    "np_pc": [(None, False, 0, False), "|", ("p", True, 1, True)],  # the only prompt is conditional: hidden user values
    "pc_np": [("p", True, 0, True), "|", (None, False, 1, False)],
    "np_p_np": [(None, False, 0, True), "|", ("p", False, None, False), (None, False, 1, False)],
    "np_np": [(None, False, 0, True), "|", (None, False, 1, False)],  # no prompt anywhere (never assigned by the user)
}
MULTI_QPOS_Q = ("mid",)
MULTI_QPOS_T = ("mid", "first", "last")
MULTI_LATER_IN_MENU = "later_in_menu"  # extra context of this family: the definitions after Q sit inside a menu


def multi_kinds(tier: str) -> List[str]:
    return [f"multi:{t}:{sh}:{qp}" for t in MULTI_TYPES for sh in MULTI_SHAPES for qp in (MULTI_QPOS_Q if tier == "quick" else MULTI_QPOS_T)]


def multi_probe(kind: str, later_in_menu: bool = False):
    """option P of every type defined at 2..3 places (promptless-then-prompted, prompted-then-promptless, prompted twice,
    conditional prompt, promptless only) with different, partly conditional defaults; Q (the condition) between / before /
    after the definitions"""
    _, t, sh, qp = kind.split(":")
    d = MULTI_TYPES[t]
    first: List[Any] = []
    later: List[Any] = []
    cur = first
    for e in MULTI_SHAPES[sh]:
        if e == "|":
            cur = later
            continue
        prompt, pc, di, dc = e
        cur.append(Cfg("P", t, prompt=prompt, prompt_cond=S("Q") if (prompt and pc) else None, defaults=[(L(d[di]), S("Q") if dc else None)] if di is not None else []))
    Q = Cfg("Q", "bool", prompt="q")
    if later_in_menu:
        later = [Menu(title="Tuning", children=later)]
    nodes = {"mid": first + [Q] + later, "first": [Q] + first + later, "last": first + later + [Q]}[qp]
    setters: Dict[str, List[str]] = {"Q": ["y", "n"]}
    if any(e != "|" and e[0] for e in MULTI_SHAPES[sh]):
        setters["P"] = list(d[2])
    ren = ["CONFIG_OLD_P CONFIG_P"] + (["CONFIG_OLD_NP !CONFIG_P"] if t == "bool" else [])
    return nodes, setters, ren


PROBES = ("string", "hex", "float", "int_range", "range_sym_bounds", "bool", "choice3", "set_target", "wset_target", "promptless_before", "multi_def", "select_imply", "nonbool_in_choice", "nonbool_direct_in_choice", "float_noncanonical", "hex_int_indirect") + CHOICE_FOLLOW_KINDS
CONTEXTS = ("plain", "prompt_if_before", "prompt_if_after", "depends", "menu_depends", "menu_visible", "if", "comment_menu", "pragma_like_titles")


def wrap(nodes: List[Any], ctx: str) -> List[Any]:
    A = Cfg("A", "bool", prompt="a", defaults=[(L("y"), None)])
    if ctx == "plain":
        return nodes
    if ctx in ("prompt_if_before", "prompt_if_after"):
        for n in kgen.walk(nodes):
            if n.kind == "cfg" and n.prompt is not None and n.name.startswith(("P", "M")):
                n.prompt_cond = And(n.prompt_cond, S("A")) if n.prompt_cond is not None else S("A")
            if n.kind == "choice":
                n.prompt_cond = S("A")
        return [A] + nodes if ctx == "prompt_if_before" else nodes + [A]
    if ctx == "depends":
        for n in nodes:
            if n.kind in ("cfg", "choice") and (n.kind == "choice" or n.name.startswith("P")):
                n.depends.append(S("A"))
        return [A] + nodes
    if ctx == "menu_depends":
        return [A, Menu(title="sub menu", depends=[S("A")], children=nodes)]
    if ctx == "menu_visible":
        return [A, Menu(title="sub menu", visible_if=[S("A")], children=nodes)]
    if ctx == "if":
        return [A, If(cond=S("A"), children=nodes)]
    if ctx == "pragma_like_titles":
        # menu / comment titles that read like the `# default:` pragma or like assignment lines once written as `# <title>`
        # (titles that look like whole assignment lines are an ambiguity of the sdkconfig format itself and not generated)
        return [Comment(text="default:"), A, Menu(title="default:", children=[Comment(text="default:"), Menu(title="inner", visible_if=[S("A")], children=nodes)])]
    if ctx == "comment_menu":
        return [Comment(text="first", depends=[S("A")]), A, Menu(title="outer", children=[Comment(text="inner"), Menu(title="inner menu", visible_if=[S("A")], children=nodes)])]
    raise ValueError(ctx)


def programs(tier: str) -> Iterator[Dict[str, Any]]:
    for pk in PROBES:
        for ctx in CONTEXTS:
            nodes, setters, ren = probe(pk, tier)
            kids = wrap(nodes, ctx)
            st = dict(setters)
            if ctx != "plain":
                st["A"] = ["n", "y"]
            yield {"name": f"{pk}/{ctx}", "prog": Program(children=kids), "setters": st, "renames": ren}
    # options defined at several places: every type x shape (x position of the condition option) in every context, and
    # once more with the later definitions inside a menu
    for mk in multi_kinds(tier):
        for ctx in CONTEXTS + (MULTI_LATER_IN_MENU,):
            if ctx == MULTI_LATER_IN_MENU:
                kids, setters, ren = multi_probe(mk, later_in_menu=True)
                st = dict(setters)
            else:
                nodes, setters, ren = multi_probe(mk)
                kids = wrap(nodes, ctx)
                st = dict(setters)
                if ctx != "plain":
                    st["A"] = ["n", "y"]
            yield {"name": f"{mk}/{ctx}", "prog": Program(children=kids), "setters": st, "renames": ren}
    # pairs of probes in one tree (names made distinct by suffixing)
    pairs = list(itertools.combinations(("string", "hex", "bool", "choice3", "set_target", "promptless_before"), 2)) if tier == "quick" else list(itertools.combinations(PROBES[: -len(CHOICE_FOLLOW_KINDS) + 1], 2))
    for a, b in pairs:
        na, sa, ra = probe(a, tier)
        nb, sb, rb = probe(b, tier)
        ren = {}
        for n in kgen.walk(nb):
            if n.kind == "cfg":
                ren[n.name] = n.name + "B"
        _rename(nb, ren)
        sb = {ren.get(k, k): v for k, v in sb.items()}
        rb2 = []
        for line in rb:
            o, nw = line.split()
            inv = nw.startswith("!")
            nm = nw.lstrip("!")[len("CONFIG_"):]
            rb2.append(f"{o}B {'!' if inv else ''}CONFIG_{ren.get(nm, nm)}")
        st = dict(sa)
        st.update(sb)
        # keep the alphabet small: two values per option in pair programs
        st = {k: v[:2] for k, v in st.items()}
        yield {"name": f"pair:{a}+{b}", "prog": Program(children=na + nb), "setters": st, "renames": ra + rb2}


def _rename(nodes: List[Any], ren: Dict[str, str]) -> None:
    def rx(e):
        if e is None:
            return None
        if e[0] == "s":
            return ("s", ren.get(e[1], e[1]))
        if e[0] == "l":
            return e
        return (e[0],) + tuple(rx(x) for x in e[1:])

    for n in kgen.walk(nodes):
        if n.kind == "cfg":
            n.name = ren.get(n.name, n.name)
            n.prompt_cond = rx(n.prompt_cond)
            n.defaults = [(rx(v), rx(c)) for v, c in n.defaults]
            n.ranges = [(rx(a), rx(b), rx(c)) for a, b, c in n.ranges]
            n.depends = [rx(d) for d in n.depends]
            n.selects = [(ren.get(t, t), rx(c)) for t, c in n.selects]
            n.implies = [(ren.get(t, t), rx(c)) for t, c in n.implies]
            n.sets = [(ren.get(t, t), rx(v), rx(c)) for t, v, c in n.sets]
            n.wsets = [(ren.get(t, t), rx(v), rx(c)) for t, v, c in n.wsets]
        elif n.kind == "choice":
            n.prompt_cond = rx(n.prompt_cond)
            n.defaults = [(ren.get(t, t), rx(c)) for t, c in n.defaults]
            n.depends = [rx(d) for d in n.depends]
        elif n.kind == "if":
            n.cond = rx(n.cond)
        elif n.kind == "menu":
            n.depends = [rx(d) for d in n.depends]
            n.visible_if = [rx(d) for d in n.visible_if]


def items(tier: str, seed: int):
    depth = 3 if tier == "quick" else 4
    out = []
    for p in programs(tier):
        # the choice-with-followers family has large state spaces: full depth in the plain context, one less in the others
        d = depth - 1 if p["name"].startswith(CHOICE_FOLLOW_KINDS) and not p["name"].endswith("/plain") else depth
        out.append({"name": p["name"], "files": kgen.render(p["prog"]), "setters": p["setters"], "renames": ["\n".join(p["renames"]) + "\n"], "depth": d, "tier": tier})
    return out


def esc(v: str) -> str:
    return v.replace("\\", "\\\\").replace('"', '\\"')


def file_menu(item) -> List[str]:
    """history-independent menu of loadable files"""
    files = item["files"]
    ren = item["renames"]
    out: List[str] = []
    base = impl.Inst(files, renames=ren)
    out.append(base.config_text())
    types = {s.name: s.orig_type for s in base.k.unique_defined_syms}
    for name, vals in item["setters"].items():
        inst = impl.Inst(files, renames=ren)
        inst.set(name, vals[0])
        out.append(inst.config_text())
        if item["tier"] == "thorough" and len(vals) > 1:
            inst = impl.Inst(files, renames=ren)
            inst.set(name, vals[-1])
            out.append(inst.config_text(write_deprecated=True))
    # hand-written, sdkconfig.defaults style (no markers)
    hand = []
    core = impl.core()
    for name, vals in item["setters"].items():
        t = types[name]
        v = vals[-1]
        if t == core.BOOL:
            hand.append(f"CONFIG_{name}=y\n" if v == "y" else f"# CONFIG_{name} is not set\n")
        elif t == core.STRING:
            hand.append(f'CONFIG_{name}="{esc(v)}"\n')
        else:
            hand.append(f"CONFIG_{name}={v}\n")
    out.append("".join(hand))
    out.append("".join(reversed(hand)))
    if hand:
        out.append(hand[0])
    return list(dict.fromkeys(out))


def explore_item(item, r: common.Result, only_history=None):
    files, name, ren = item["files"], item["name"], item["renames"]
    ptext = files["Kconfig"]
    menu = file_menu(item)
    ops: List[tuple] = []
    for n, vals in item["setters"].items():
        for v in vals:
            ops.append(("set", n, v))
        ops.append(("unset", n))
        ops.append(("reset", n))
    for t in menu:
        ops.append(("load", t, True))
        ops.append(("load", t, False))

    base0 = impl.Inst(files, renames=ren)

    def build(h):
        return impl.replay_ops(files, h, renames=ren)

    def enabled(h, st):
        return ops

    def canon(st):
        k = st.k
        return (
            tuple(s._user_value for s in k.unique_defined_syms),
            tuple(c._user_selection.name if c._user_selection is not None else None for c in k.unique_choices),
            tuple(impl.defaults_sig(s) for s in k.unique_defined_syms),
            tuple(impl.defaults_sig(c) for c in k.unique_choices),
        )

    def case_of(h):
        return {"name": name, "program": ptext, "files": files, "setters": item["setters"], "renames": ren, "history": [list(o) for o in h], "depth": item["depth"], "tier": item["tier"]}

    def roundtrip(h, st, dep: bool):
        tag = "deprecated_block" if dep else "plain"
        inj = impl.injected(st, base0)
        t1 = st.config_text(write_deprecated=dep)
        vals = st.values()
        f = impl.Inst(files, renames=ren)
        try:
            f.load_text(t1)
        except Exception as e:  # noqa: BLE001
            r.violation({"kind": "exception_on_reload", "exc": type(e).__name__, "variant": tag}, f"[{name}] after {fmt(h)}: reloading the written file raised {type(e).__name__}: {e}", case_of(h))
            return
        fv = f.values()
        if fv != vals:
            diff = {n: (vals[n], fv[n]) for n in vals if vals[n] != fv[n]}
            r.violation(
                {"kind": "value_changed", "variant": tag, "injected_default": inj, "what": sorted({sym_kind(st.k.syms[n]) for n in diff}), "types": sorted({impl.core().TYPE_TO_STR[st.k.syms[n].orig_type] for n in diff})},
                f"[{name}] after {fmt(h)}: value before save vs after reload {diff}",
                case_of(h),
            )
        dv = impl.dv_area(f.k)
        ma = impl.ma_area(f.k)
        # A state that carries an injected sdkconfig default (policy `sdkconfig`, after merging a file written for another
        # configuration) legitimately differs from the tree's own default; C08 requires that mismatch to be reported on
        # every load, so the "no mismatch" clause is only demanded of states without injected defaults.
        if (dv.changed_defaults or dv.changed_choices) and not inj:
            r.violation(
                {"kind": "default_mismatch_reported", "variant": tag, "choice": bool(dv.changed_choices)},
                f"[{name}] after {fmt(h)}: reload reports default mismatch {sorted(dv.changed_defaults)} {sorted(dv.changed_choices)}",
                case_of(h),
            )
        if dv.changed_values_promptless:
            r.violation(
                {"kind": "promptless_mismatch_reported", "variant": tag, "definitions": sorted({defs_shape(f.k.syms[rec[0]]) for rec in dv.changed_values_promptless if isinstance(rec, tuple) and rec and rec[0] in f.k.syms})},
                f"[{name}] after {fmt(h)}: reload records promptless default mismatch {sorted(dv.changed_values_promptless)}",
                case_of(h),
            )
        if ma.multiple_assignments_sym or ma.multiple_assignments_choice:
            ents = [bool(d) for lst in list(ma.multiple_assignments_sym.values()) + list(ma.multiple_assignments_choice.values()) for e in lst for d in (e[1:2] if isinstance(e, tuple) else ())]
            r.violation(
                {
                    "kind": "multiple_assignment_reported",
                    "variant": tag,
                    "subject": sorted(({"option"} if ma.multiple_assignments_sym else set()) | ({"choice"} if ma.multiple_assignments_choice else set())),
                    "entries": "default_marked" if ents and all(ents) else "user" if ents and not any(ents) else "mixed",
                    "selection": "user" if any(c._user_selection is not None for c in st.k.unique_choices) else "default",
                },
                f"[{name}] after {fmt(h)}: reload reports multiple assignments "
                f"{[(s.name, v) for s, v in ma.multiple_assignments_sym.items()]} {[(c.name, v) for c, v in ma.multiple_assignments_choice.items()]}",
                case_of(h),
            )
        if f.k.missing_syms:
            r.violation({"kind": "unknown_symbols", "variant": tag}, f"[{name}] after {fmt(h)}: reload has unknown symbols {f.k.missing_syms}", case_of(h))
        t2 = f.config_text(write_deprecated=dep)
        if t2 != t1:
            only_markers = strip_markers(t1) == strip_markers(t2)
            r.violation(
                {"kind": "not_fixpoint", "marker_only": only_markers, "variant": tag, "injected_default": inj, "what": first_diff_kind(t1, t2, st)},
                f"[{name}] after {fmt(h)}: second save differs from first: {line_diff(t1, t2)}",
                case_of(h),
            )

    def check(h, st):
        r.evals += 1
        roundtrip(h, st, False)
        roundtrip(h, build(h), True)
        if h:
            # the same history on a long-lived instance that is read completely after every operation (menuconfig, the
            # server): what it writes must reproduce ITS values as well -- only examined when it writes something else
            hl = (("readall",),) + tuple(x for o in h for x in (o, ("readall",)))
            live = build(hl)
            if live.config_text() != build(h).config_text():
                r.count("live_instance_writes_other_text")
                roundtrip(hl, build(hl), False)
        if any(s._user_value is not None for s in st.k.unique_defined_syms):
            r.outcome((ptext, canon(st)))

    def on_raise(h, e):
        if not isinstance(e, impl.OpRaised):
            raise e
        r.violation({"kind": "exception", "exc": e.exc_type, "site": e.site, "op": e.op[0]}, f"[{name}] {fmt(h)}: {e}", case_of(h))

    if only_history is not None:
        h = tuple(tuple(o) for o in only_history)
        try:
            check(h, build(h))
        except impl.OpRaised as e:
            r.violation({"kind": "exception", "exc": e.exc_type, "site": e.site, "op": e.op[0]}, f"[{name}] {fmt(h)}: {e}", case_of(h))
        return None
    st = explore.bfs(build, enabled, canon, check, item["depth"], on_raise=on_raise, check_revisits=False)
    r.states += st.states
    r.transitions += st.transitions
    return st


def strip_markers(text: str) -> str:
    return "".join(l for l in text.splitlines(True) if l.strip() != "# default:")


def line_diff(a: str, b: str) -> str:
    import difflib

    d = [l for l in difflib.unified_diff(a.splitlines(), b.splitlines(), lineterm="", n=1) if not l.startswith(("---", "+++", "@@"))]
    return " | ".join(d)[:400]


def first_diff_kind(t1: str, t2: str, st) -> str:
    """classifies the first differing option line: member of a choice / plain option, and whether it is hidden"""
    import re

    a, b = t1.splitlines(), t2.splitlines()
    import difflib

    for tag, i1, i2, j1, j2 in difflib.SequenceMatcher(None, a, b).get_opcodes():
        if tag == "equal":
            continue
        # the lines that differ first; a difference made of `# default:` lines only is attributed to the option line below
        for line in a[i1:i2] + b[j1:j2] + a[i2:i2 + 1] + b[j2:j2 + 1]:
            m = re.match(r"(?:# )?CONFIG_([A-Za-z0-9_]+)[= ]", line)
            if m and m.group(1) in st.k.syms:
                s = st.k.syms[m.group(1)]
                return ("member" if s.choice else "option") + ("" if s.visibility else "_hidden")
        break
    return "other"


def defs_shape(s) -> str:
    """prompts of the option's definitions in file order, e.g. `np+p` = default-only definition first, prompt later"""
    return "+".join("p" if n.prompt is not None else "np" for n in s.nodes)


def sym_kind(s) -> str:
    return ("member" if s.choice else "option") + ("" if s.visibility else "_hidden")


def fmt(h) -> str:
    return " ; ".join("(" + ",".join(map(repr, o)) + ")" for o in h)


def run_item(item) -> common.Result:
    r = common.Result()
    r.programs = 1
    st = explore_item(item, r)
    r.sample = {"program_kind": item["name"], "program": item["files"]["Kconfig"], "states": st.states, "transitions": st.transitions, "max_depth": st.max_depth}
    return r


def replay(case) -> List[dict]:
    r = common.Result()
    explore_item(case, r, only_history=case["history"])
    return r.viols

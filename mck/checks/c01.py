"""C01 -- option values follow the documented precedence and visibility rules.

Enumerates every program of seven families x every assignment of user values over small domains (including
assignments to hidden options and out-of-range numbers); a fresh real Kconfig instance per (program, assignment).
Oracle 1: reference semantics (mck/refsem.py) for value / visibility / assignable.
Oracle 2: differential -- all outputs for assignment A equal the outputs for A minus the assignments to options
          that are hidden in A.
"""

from __future__ import annotations

import itertools
import json
import re
from typing import Any, Dict, Iterator, List, Optional, Tuple

from .. import common, impl, kgen, refsem
from ..kgen import And, Cfg, Choice, If, L, Menu, Not, Or, Program, Rel, S

ID = "C01"
LEVEL = "exploration"
RULE = (
    "all programs of families prec(int,hex,string,float) / bool / nest / expr / multi / choice / rep (explicit nested loops "
    "over slot alphabets, see DESIGN.md C01; rep = every repeatable property in repeated form: 0..3 `visible if` and "
    "`depends on` lines per menu in every polarity and both line orders, two nested menus with 0..2 (thorough 0..3) lines "
    "each, 2..3 `depends on` lines on options and choices, 3..4 defaults, 2..3 mutually exclusive ranges, several "
    "select/imply per source and per target) x all assignments of user values over the per-type domains; one fresh Kconfig per "
    "(program, assignment). A case is counted in distinct_nontrivial once per distinct (program, value vector, "
    "visibility vector) in which at least one option is hidden or carries a user value."
)
ASSUMPTIONS = [
    "reference semantics mck/refsem.py encodes language.rst / C01 statement; constructs on which the documents are silent "
    "are not generated (implicit sub-menus in choices, leading-zero literals, symbol-valued set on numeric targets)",
    "user values entered with Symbol.set_value in definition order (C03 owns order independence)",
]

DOM = {
    "bool": [None, "n", "y"],
    "int": [None, "0", "3", "7", "42", "-1"],
    "hex": [None, "0x5", "1f", "0X2A"],
    "string": [None, "", "v1", "a b", 'q"\\'],
    "float": [None, "0.5", "5", "1e3"],
}
LIT = {
    "int": {"fb": "5", "cd": "8", "set": "6", "wset": "4", "lo": "2", "hi": "9", "oor_set": "77"},
    "hex": {"fb": "0x10", "cd": "0x20", "set": "0x18", "wset": "0x12", "lo": "0x8", "hi": "0x28", "oor_set": "0x99"},
    "string": {"fb": '"fb"', "cd": '"cd"', "set": '"forced"', "wset": '"weak"'},
    "float": {"fb": "1.5", "cd": "2.5", "set": "3.25", "wset": "0.75", "lo": "0.25", "hi": "100.0", "oor_set": "1e9"},
}


def aux(name: str, default: Optional[str] = None) -> Cfg:
    c = Cfg(name, "bool", prompt=name.lower())
    if default:
        c.defaults.append((L(default), None))
    return c


# --------------------------------------------------------------------------------------------------
# families
# --------------------------------------------------------------------------------------------------


def fam_prec(tier: str) -> Iterator[Tuple[str, Program]]:
    max_aux = 3 if tier == "quick" else 4
    for t in ("int", "hex", "string", "float"):
        lit = LIT[t]
        rng_opts = ["none", "lit", "litif", "sym"] if t != "string" else ["none"]
        set_opts = ["absent", "uncond", "cond", "oor"] if t != "string" else ["absent", "uncond", "cond", "symval"]
        for pc, dep, rng, dfl, st, ws, same_src in itertools.product(
            (None, "A"), (None, "B", "A"), rng_opts, ("fb", "cond"), set_opts, ("absent", "uncond", "cond"), (False, True)
        ):
            if same_src and (st == "absent" or ws == "absent"):
                continue
            auxn: List[str] = []

            def need(n):
                if n not in auxn:
                    auxn.append(n)

            T = Cfg("T", t, prompt="t")
            if pc:
                T.prompt_cond = S(pc)
                need(pc)
            if dep:
                T.depends.append(S(dep))
                need(dep)
            if rng == "lit":
                T.ranges.append((L(lit["lo"]), L(lit["hi"]), None))
            elif rng == "litif":
                T.ranges.append((L(lit["lo"]), L(lit["hi"]), S("C")))
                need("C")
            elif rng == "sym":
                T.ranges.append((S("LO"), L(lit["hi"]), None))
            if dfl == "cond":
                T.defaults.append((L(lit["cd"]), S("C")))
                need("C")
            T.defaults.append((L(lit["fb"]), None))
            kids: List[Any] = []
            srcs: Dict[str, Cfg] = {}
            if st != "absent":
                sn = "SS"
                src = srcs.setdefault(sn, aux(sn))
                if st == "uncond":
                    src.sets.append(("T", L(lit["set"]), None))
                elif st == "cond":
                    src.sets.append(("T", L(lit["set"]), S("C")))
                    need("C")
                elif st == "oor":
                    src.sets.append(("T", L(lit["oor_set"]), None))
                elif st == "symval":
                    src.sets.append(("T", S("SV"), None))
                need(sn)
            if ws != "absent":
                sn = "SS" if same_src else "WS"
                src = srcs.setdefault(sn, aux(sn))
                if ws == "uncond":
                    src.wsets.append(("T", L(lit["wset"]), None))
                else:
                    src.wsets.append(("T", L(lit["wset"]), S("C")))
                    need("C")
                need(sn)
            if len(auxn) > max_aux:
                continue
            for n in auxn:
                if n in srcs:
                    continue
                kids.append(aux(n))
            kids.append(T)
            kids.extend(srcs.values())
            if rng == "sym":
                lo = Cfg("LO", t, prompt="lo")
                lo.defaults.append((L(lit["lo"]), None))
                kids.append(lo)
            if st == "symval":
                sv = Cfg("SV", "string", prompt="sv")
                sv.defaults.append((L('"svd"'), None))
                kids.append(sv)
            yield (f"prec-{t}", Program(children=kids))


def fam_bool(tier: str) -> Iterator[Tuple[str, Program]]:
    max_aux = 4 if tier == "quick" else 5
    for pc, dep, dfl, sel, imp in itertools.product(
        (None, "A"), (None, "B", "A"), ("none", "n", "y", "sym", "chain"), ("absent", "uncond", "cond"), ("absent", "uncond", "cond")
    ):
        auxn: List[str] = []

        def need(n):
            if n not in auxn:
                auxn.append(n)

        T = Cfg("T", "bool", prompt="t")
        if pc:
            T.prompt_cond = S(pc)
            need(pc)
        if dep:
            T.depends.append(S(dep))
            need(dep)
        if dfl == "n":
            T.defaults.append((L("n"), None))
        elif dfl == "y":
            T.defaults.append((L("y"), None))
        elif dfl == "sym":
            T.defaults.append((S("C"), None))
            need("C")
        elif dfl == "chain":
            T.defaults.append((L("y"), S("C")))
            T.defaults.append((L("n"), None))
            need("C")
        srcs: Dict[str, Cfg] = {}
        if sel != "absent":
            src = srcs.setdefault("S1", aux("S1"))
            src.selects.append(("T", S("C") if sel == "cond" else None))
            if sel == "cond":
                need("C")
            need("S1")
        if imp != "absent":
            src = srcs.setdefault("S2", aux("S2"))
            src.implies.append(("T", S("C") if imp == "cond" else None))
            if imp == "cond":
                need("C")
            need("S2")
        if len(auxn) > max_aux:
            continue
        kids: List[Any] = [aux(n) for n in auxn if n not in srcs]
        kids.append(T)
        kids.extend(srcs.values())
        yield ("bool", Program(children=kids))


WRAPS = ("menudep", "menuvis", "if", "choice")


def fam_nest(tier: str) -> Iterator[Tuple[str, Program]]:
    maxd = 2 if tier == "quick" else 3
    for depth in range(1, maxd + 1):
        for ws in itertools.product(WRAPS, repeat=depth):
            # a choice wrapper only makes the directly contained bool options members
            for ptype in ("bool", "int"):
                if ptype == "int" and ws[-1] == "choice":
                    continue
                for src in ("select", "imply", "set", "wset", "none"):
                    if ptype == "bool" and src in ("set", "wset"):
                        continue
                    if ptype == "int" and src in ("select", "imply"):
                        continue
                    if ws[-1] == "choice" and src != "none":
                        continue
                    P = Cfg("P", ptype, prompt="p")
                    if ptype == "int":
                        P.defaults.append((L("5"), None))
                        P.ranges.append((L("1"), L("9"), None))
                    else:
                        P.defaults.append((L("y"), None))
                    inner: List[Any] = [P]
                    if ws[-1] == "choice":
                        inner.append(Cfg("Q", "bool", prompt="q"))
                    ctrls = []
                    node_children = inner
                    for i, w in reversed(list(enumerate(ws))):
                        x = f"X{i}"
                        ctrls.append(x)
                        if w == "menudep":
                            node = Menu(title=f"m{i}", depends=[S(x)], children=node_children)
                        elif w == "menuvis":
                            node = Menu(title=f"m{i}", visible_if=[S(x)], children=node_children)
                        elif w == "if":
                            node = If(cond=S(x), children=node_children)
                        else:
                            node = Choice(prompt=f"c{i}", prompt_cond=S(x), children=node_children)
                        node_children = [node]
                    kids: List[Any] = [aux(x, "y") for x in sorted(ctrls)]
                    kids.extend(node_children)
                    if src != "none":
                        Z = aux("Z")
                        if src == "select":
                            Z.selects.append(("P", None))
                        elif src == "imply":
                            Z.implies.append(("P", None))
                        elif src == "set":
                            Z.sets.append(("P", L("7"), None))
                        else:
                            Z.wsets.append(("P", L("7"), None))
                        kids.append(Z)
                    yield ("nest", Program(children=kids))
    # properties *of the probe* whose conditions must inherit the enclosing conditions
    for w in ("menudep", "if"):
        for prop in ("select", "imply", "set", "wset", "default", "range"):
            P = Cfg("P", "bool", prompt="p")
            tgt_b = Cfg("TB", "bool", prompt="tb")
            tgt_i = Cfg("TI", "int", prompt="ti", defaults=[(L("5"), None)])
            kids: List[Any] = [aux("X0", "y")]
            if prop == "select":
                P.selects.append(("TB", None))
            elif prop == "imply":
                P.implies.append(("TB", None))
            elif prop == "set":
                P.sets.append(("TI", L("7"), None))
            elif prop == "wset":
                P.wsets.append(("TI", L("7"), None))
            elif prop == "default":
                P = Cfg("P", "int", prompt="p", prompt_cond=S("V"), defaults=[(L("3"), None)])
                kids.append(aux("V"))
            else:
                P = Cfg("P", "int", prompt="p", defaults=[(L("3"), None)], ranges=[(L("5"), L("9"), None)])
            node = Menu(title="m", depends=[S("X0")], children=[P]) if w == "menudep" else If(cond=S("X0"), children=[P])
            kids += [node, tgt_b, tgt_i]
            yield ("nest", Program(children=kids))


def expr_atoms() -> List[tuple]:
    atoms: List[tuple] = [S("A"), Not(S("A")), S("N"), S("U")]
    pairs = [
        (S("N"), L("3")),
        (S("N"), L("5")),
        (S("S"), L('"v1"')),
        (S("H"), L("0x5")),
        (S("N"), S("H")),
        (S("A"), L("y")),
        (S("A"), L("n")),
        (S("S"), S("S2")),
        (S("N"), L('"7"')),
        (S("S"), L("3")),
    ]
    for op in kgen.RELS:
        for a, b in pairs:
            atoms.append(Rel(op, a, b))
    return atoms


def fam_expr(tier: str) -> Iterator[Tuple[str, Program]]:
    atoms = expr_atoms()
    small = [S("A"), Not(S("A")), S("B"), Rel("=", S("N"), L("3")), Rel("<", S("N"), L("5")), Rel("!=", S("S"), L('"v1"')), Rel(">=", S("H"), L("0x5")), Rel("=", S("A"), L("y"))]
    exprs: List[tuple] = list(atoms)
    d2src = small if tier == "quick" else atoms + [S("B")]
    for a, b in itertools.product(d2src, repeat=2):
        if a == b:
            continue
        exprs.append(And(a, b))
        exprs.append(Or(a, b))
    for a in small:
        exprs.append(Not(a))
        for b in small[:4]:
            exprs.append(Not(And(a, b)))
            exprs.append(And(Not(a), Or(b, S("B"))))
            exprs.append(Or(And(a, b), S("B")))
    seen = set()
    for e in exprs:
        key = kgen.expr_str(e)
        if key in seen:
            continue
        seen.add(key)
        used = kgen.expr_syms(e)
        kids: List[Any] = []
        if "A" in used:
            kids.append(aux("A"))
        if "B" in used:
            kids.append(aux("B"))
        if "N" in used:
            kids.append(Cfg("N", "int", prompt="n", defaults=[(L("4"), None)]))
        if "S" in used:
            kids.append(Cfg("S", "string", prompt="s", defaults=[(L('"d"'), None)]))
        if "S2" in used:
            kids.append(Cfg("S2", "string", prompt="s2", defaults=[(L('"v1"'), None)]))
        if "H" in used:
            kids.append(Cfg("H", "hex", prompt="h", defaults=[(L("0x4"), None)]))
        kids.append(Cfg("P", "bool", prompt="p", depends=[e], defaults=[(L("y"), None)]))
        yield ("expr", Program(children=kids))


def fam_multi(tier: str) -> Iterator[Tuple[str, Program]]:
    for t in ("bool", "int", "string"):
        for p1, p2 in itertools.product((None, "plain", "cond"), repeat=2):
            if p1 is None and p2 is None:
                continue
            for d1, d2 in itertools.product((None, "A", "B"), repeat=2):
                lit1, lit2 = {"bool": ("y", "n"), "int": ("5", "8"), "string": ('"one"', '"two"')}[t]
                c1 = Cfg("T", t)
                c2 = Cfg("T", t)
                for c, p, d, lit in ((c1, p1, d1, lit1), (c2, p2, d2, lit2)):
                    if p:
                        c.prompt = "t"
                        if p == "cond":
                            c.prompt_cond = S("C")
                    if d:
                        c.depends.append(S(d))
                    c.defaults.append((L(lit), None))
                used = {x for x in (d1, d2) if x}
                if "cond" in (p1, p2):
                    used.add("C")
                kids: List[Any] = [aux(n) for n in sorted(used)] + [c1, Cfg("MID", "bool", prompt="mid"), c2]
                yield ("multi", Program(children=kids))


def fam_choice(tier: str) -> Iterator[Tuple[str, Program]]:
    """selection precedence: visible user pick > first `default` whose condition holds AND whose member is visible > first
    visible member; an option outside follows the members"""
    for vis in ("plain", "depends", "prompt_if"):
        for dk in ("none", "m2", "m2_if_b", "m2_then_m3", "m3_if_b_then_m2", "m2_if_b_then_m1"):
            m2 = Cfg("M2", "bool", prompt="m2")
            if vis == "depends":
                m2.depends.append(S("A"))
            elif vis == "prompt_if":
                m2.prompt_cond = S("A")
            defaults = {"none": [], "m2": [("M2", None)], "m2_if_b": [("M2", S("B"))], "m2_then_m3": [("M2", None), ("M3", None)],
                        "m3_if_b_then_m2": [("M3", S("B")), ("M2", None)], "m2_if_b_then_m1": [("M2", S("B")), ("M1", None)]}[dk]
            ch = Choice(prompt="c", defaults=defaults, children=[Cfg("M1", "bool", prompt="m1"), m2, Cfg("M3", "bool", prompt="m3")])
            kids: List[Any] = []
            if vis != "plain":
                kids.append(aux("A"))
            if "b" in dk:
                kids.append(aux("B"))
            kids.append(ch)
            kids.append(Cfg("LVL", "int", prompt="lvl", defaults=[(L("3"), S("M2")), (L("2"), S("M3")), (L("1"), None)]))
            yield ("choice", Program(children=kids))


# --------------------------------------------------------------------------------------------------
# repeated properties: every property the language allows several times on ONE entry and whose repetitions combine in a
# documented way -- `visible if` / `depends on` lines (all of them have to hold), `default` (first whose condition holds),
# `select` / `imply` (each one acts), `range` (documented as repeatable, the combination is not: only ranges with mutually
# exclusive conditions are generated, on which every reading agrees)
# --------------------------------------------------------------------------------------------------


def _pols(n: int, full: bool = True) -> List[Tuple[bool, ...]]:
    if full:
        return list(itertools.product((True, False), repeat=n))
    out = [(True,) * n]
    if n:
        out.append((False,) * n)
    if n > 1:
        out.append(tuple(i % 2 == 0 for i in range(n)))
    return out


def _conds(ctrls: List[str], pol: Tuple[bool, ...]) -> List[tuple]:
    return [S(x) if p else Not(S(x)) for x, p in zip(ctrls, pol)]


def _probe(content: str) -> Tuple[List[Any], List[Any]]:
    """(entries inside the wrapper, followers outside it)"""
    if content == "int":
        return [Cfg("P", "int", prompt="p", defaults=[(L("5"), None)], ranges=[(L("1"), L("9"), None)])], []
    fol = Cfg("F", "int", defaults=[(L("3"), S("P")), (L("1"), None)])
    if content == "bool":
        return [Cfg("P", "bool", prompt="p", defaults=[(L("n"), None)])], [fol]
    return [Choice(prompt="c", children=[Cfg("Q", "bool", prompt="q"), Cfg("P", "bool", prompt="p")])], [fol]


def _reorder_headers(files: Dict[str, str]) -> Optional[Dict[str, str]]:
    """the same program with the option lines of every menu written in the opposite order (`visible if` lines before the
    `depends on` lines, later lines first): conjunction does not depend on the order.  None if nothing changes."""
    lines = files["Kconfig"].split("\n")
    out: List[str] = []
    i = 0
    changed = False
    while i < len(lines):
        out.append(lines[i])
        if lines[i].strip().startswith('menu "'):
            j = i + 1
            while j < len(lines) and lines[j].strip():
                j += 1
            hdr = lines[i + 1 : j]
            rev = list(reversed(hdr))
            changed |= rev != hdr
            out.extend(rev)
            i = j
            continue
        i += 1
    if not changed:
        return None
    new = dict(files)
    new["Kconfig"] = "\n".join(out)
    return new


def fam_rep(tier: str) -> Iterator[tuple]:
    quick = tier == "quick"
    # (a) ONE menu with kd `depends on` lines and kv `visible if` lines, kd + kv <= 3, every polarity of every line
    for kd, kv in itertools.product(range(4), repeat=2):
        n = kd + kv
        if n > 3:
            continue
        ctrls = [f"X{i}" for i in range(n)]
        for pol in _pols(n):
            for content in ("bool", "int", "choice"):
                inner, fol = _probe(content)
                cs = _conds(ctrls, pol)
                m = Menu(title="m", depends=cs[:kd], visible_if=cs[kd:], children=inner)
                prog = Program(children=[aux(x) for x in ctrls] + [m] + fol)
                yield ("rep-menu", prog)
                if n >= 2:
                    alt = _reorder_headers(kgen.render(prog))
                    if alt is not None:
                        yield ("rep-menu", prog, alt)
    # (b) two nested menus, each with 0..K lines of its own kind
    K = 2 if quick else 3
    for kinds in (("vis", "vis"), ("vis", "dep"), ("dep", "vis")):
        for ko, ki in itertools.product(range(K + 1), repeat=2):
            if ko + ki < 2:
                continue
            n = ko + ki
            ctrls = [f"X{i}" for i in range(n)]
            for pol in _pols(n, full=n <= 4):
                for content in ("bool", "int"):
                    inner, fol = _probe(content)
                    cs = _conds(ctrls, pol)
                    mi = Menu(title="m1", children=inner, **{"visible_if" if kinds[1] == "vis" else "depends": cs[ko:]})
                    mo = Menu(title="m0", children=[mi], **{"visible_if" if kinds[0] == "vis" else "depends": cs[:ko]})
                    yield ("rep-nestmenu", Program(children=[aux(x) for x in ctrls] + [mo] + fol))
    # (c) k `depends on` lines on an option (its prompt, default, range, select all inherit every line) and on a choice
    for k in (2, 3):
        ctrls = [f"X{i}" for i in range(k)]
        for pol in _pols(k):
            cs = _conds(ctrls, pol)
            tb = Cfg("T", "bool", prompt="t", depends=list(cs), defaults=[(L("y"), None)], selects=[("TB", None)], implies=[("TC", None)])
            yield ("rep-depends", Program(children=[aux(x) for x in ctrls] + [tb, Cfg("TB", "bool", prompt="tb"), Cfg("TC", "bool", prompt="tc")]))
            ti = Cfg("T", "int", prompt="t", depends=list(cs), defaults=[(L("5"), None)], ranges=[(L("1"), L("9"), None)])
            yield ("rep-depends", Program(children=[aux(x) for x in ctrls] + [ti]))
            ch = Choice(prompt="c", depends=list(cs), children=[Cfg("Q", "bool", prompt="q"), Cfg("P", "bool", prompt="p")])
            yield ("rep-depends", Program(children=[aux(x) for x in ctrls] + [ch, _probe("bool")[1][0]]))
    # (d) several ranges with mutually exclusive conditions
    RL = {"int": ("2", "4", "6", "9", "1", "3"), "hex": ("0x2", "0x6", "0x1a", "0x2b", "0x1", "0x5"), "float": ("0.25", "0.75", "4.5", "2000.0", "0.5", "7.5")}
    for t in ("int", "hex", "float"):
        a, b, c, d, e, f = RL[t]
        C, E = S("C"), S("E")
        for rs in (
            [(a, b, C), (c, d, Not(C))],
            [(a, b, And(C, Not(E))), (c, d, And(E, Not(C)))],
            [(a, b, And(C, E)), (c, d, And(C, Not(E))), (e, f, Not(C))],
        ):
            T = Cfg("T", t, prompt="t", ranges=[(L(lo), L(hi), cnd) for lo, hi, cnd in rs], defaults=[(L(LIT[t]["fb"]), None)])
            yield ("rep-range", Program(children=[aux("C"), aux("E"), T]))
    # (e) chains of three / four defaults: the first whose condition holds
    DV = {"bool": ("y", "n", "y", "n"), "int": ("5", "8", "3", "0"), "hex": ("0x10", "0x20", "0x3", "0x0"), "string": ('"one"', '"two"', '""', '"four"'), "float": ("1.5", "2.5", "0.5", "3.0")}
    for t, (v1, v2, v3, v4) in DV.items():
        C, E = S("C"), S("E")
        for ds in (
            [(v1, C), (v2, E), (v3, None)],
            [(v1, C), (v2, None), (v3, E)],
            [(v1, And(C, E)), (v2, C), (v3, E), (v4, None)],
            [(v1, Not(C)), (v2, Not(E)), (v3, C)] + ([(v4, None)] if t != "bool" and t != "string" else []),
        ):
            for pc in (None, "A"):
                T = Cfg("T", t, prompt="t", prompt_cond=S(pc) if pc else None, defaults=[(L(v), cnd) for v, cnd in ds])
                yield ("rep-default", Program(children=([aux("A")] if pc else []) + [aux("C"), aux("E"), T]))
    # (f) several select / imply: one source with two of them, two sources on one target
    for kind in ("selects", "implies"):
        for c1, c2 in itertools.product((None, "C"), repeat=2):
            for tdep in (None, "D"):
                def tgt(nm):
                    return Cfg(nm, "bool", prompt=nm.lower(), depends=[S(tdep)] if tdep else [])
                pre = ([aux("C")] if "C" in (c1, c2) else []) + ([aux("D")] if tdep else [])
                s1 = aux("S1")
                getattr(s1, kind).extend([("T1", S(c1) if c1 else None), ("T2", S(c2) if c2 else None)])
                yield ("rep-revdep", Program(children=pre + [s1, tgt("T1"), tgt("T2")]))
                s1, s2 = aux("S1"), aux("S2")
                getattr(s1, kind).append(("T1", S(c1) if c1 else None))
                getattr(s2, kind).append(("T1", S(c2) if c2 else None))
                yield ("rep-revdep", Program(children=pre + [s1, s2, tgt("T1")]))
    for c1, c2 in itertools.product((None, "C"), repeat=2):
        s1 = aux("S1")
        s1.selects.append(("T1", S(c1) if c1 else None))
        s1.implies.append(("T1", S(c2) if c2 else None))
        s1.implies.append(("T2", None))
        s1.selects.append(("T3", None))
        pre = [aux("C")] if "C" in (c1, c2) else []
        yield ("rep-revdep", Program(children=pre + [aux("D"), s1] + [Cfg(nm, "bool", prompt=nm.lower(), depends=[S("D")]) for nm in ("T1", "T2", "T3")]))


FAMILIES = (fam_prec, fam_bool, fam_nest, fam_expr, fam_multi, fam_choice, fam_rep)

EXPR_DOM = {"A": ["n", "y"], "B": ["n", "y"], "N": [None, "3", "7"], "S": [None, "v1", "3"], "S2": [None, "a b"], "H": [None, "0x5", "1f"], "P": [None, "y"]}


def items(tier: str, seed: int):
    out = []
    for name, files, prog in all_programs(tier):
        out.append((name, files, _ser(prog)))
    return out


def all_programs(tier: str) -> Iterator[Tuple[str, Dict[str, str], Program]]:
    """a family yields (name, AST) or (name, AST, files): the latter when the text is not the canonical rendering"""
    for fam in FAMILIES:
        for t in fam(tier):
            yield (t[0], t[2] if len(t) > 2 else kgen.render(t[1]), t[1])


# programs are shipped to workers as pickled AST (dataclasses pickle fine)
def _ser(prog: Program):
    return prog


def domains(fam: str, model: refsem.Model) -> List[Tuple[str, List[Optional[str]]]]:
    out = []
    for n in model.order:
        si = model.syms[n]
        if not any(d.prompt is not None for d in si.defs):
            continue  # promptless: user values have no effect by definition; covered by C08/C02
        if fam == "choice" and si.choice is not None:
            out.append((n, [None, "y"]))  # picks; what setting a member to n means is C05's subject
        elif fam == "choice" and si.type == "int":
            out.append((n, [None, "7"]))
        elif fam == "expr":
            out.append((n, EXPR_DOM[n]))
        elif fam.startswith("rep-") and re.fullmatch(r"X\d", n):
            out.append((n, [None, "y"]))  # condition symbols without default: unset = n, y; the probes keep the full domain
        else:
            out.append((n, DOM[si.type]))
    return out


def strip_markers(text: str) -> str:
    return "".join(l for l in text.splitlines(True) if l.strip() != "# default:")


def run_one(files, model: refsem.Model, names: List[str], assign: Tuple[Optional[str], ...]):
    inst = impl.Inst(files)
    k = inst.k
    user = {}
    picks: Dict[int, str] = {}
    for n, v in zip(names, assign):
        if v is None:
            continue
        ok = k.syms[n].set_value(v)
        if not ok:
            raise RuntimeError(f"set_value({n},{v!r}) rejected")
        user[n] = v if model.syms[n].type != "float" else v
        si = model.syms[n]
        if si.choice is not None and v == "y":
            picks[si.choice] = n
    obs = inst.obs()
    cfg = inst.config_text()
    hdr = inst.header_text()
    js = json.dumps(inst.json_values(), sort_keys=True)
    _USER_STATE[(id(files), assign)] = inst.user_state()
    return obs, cfg, hdr, js, user, picks


_USER_STATE: Dict[tuple, Any] = {}


def gray(doms: List[list]) -> List[tuple]:
    if not doms:
        return [()]
    sub = gray(doms[1:])
    out: List[tuple] = []
    for i, v in enumerate(doms[0]):
        out.extend((v,) + t for t in (sub if i % 2 == 0 else reversed(sub)))
    return out


def live_walk(fam: str, files, model: refsem.Model, names: List[str], assigns, results, r: common.Result) -> None:
    """oracle 3: the same configurations reached one after the other on ONE instance, everything read after every step
    (set / unset of exactly the options that differ from the previous configuration).  Wherever the instance holds the
    same user values and selections as the fresh instance of that configuration, it has to show the same values."""
    ptext = files["Kconfig"]
    live = impl.Inst(files)
    live.obs()
    prev: Tuple[Optional[str], ...] = (None,) * len(names)
    for assign in assigns:
        assign = tuple(assign)
        try:
            for n, old, new in zip(names, prev, assign):
                if old == new:
                    continue
                if new is None:
                    live.k.syms[n].unset_value()
                else:
                    live.k.syms[n].set_value(new)
            prev = assign
            if assign not in results:
                continue
            if live.user_state() != _USER_STATE.get((id(files), assign)):
                r.count("live_walk_other_user_state(skipped)")
                live.obs()
                continue
            lobs = live.obs()
        except Exception as e:  # noqa: BLE001
            r.violation({"kind": "exception", "exc": type(e).__name__, "site": "live_walk", "family": fam}, f"live walk to {dict(zip(names, assign))} raised {type(e).__name__}: {e}",
                        {"family": fam, "program": ptext, "files": files, "names": names, "assign": list(assign), "live_walk": True})
            return
        r.evals += 1
        r.count("live_walk_steps")
        fobs = results[assign][0]
        if lobs != fobs:
            diff = [n for n in fobs if fobs[n] != lobs[n]]
            r.violation(
                {"kind": "incremental_differs_from_fresh", "family": fam, "types": sorted({model.syms[n].type for n in diff})},
                f"configuration {dict(zip(names, assign))} reached step by step on one instance shows {dict((n, lobs[n][:3]) for n in diff)}, a fresh instance {dict((n, fobs[n][:3]) for n in diff)}",
                {"family": fam, "program": ptext, "files": files, "names": names, "assign": list(assign), "live_walk": True},
            )
            return


def check_program(fam: str, files, prog: Program, r: common.Result, only_assign=None):
    model = refsem.build(prog)
    doms = domains(fam, model)
    names = [n for n, _ in doms]
    results: Dict[tuple, tuple] = {}
    ptext = files["Kconfig"]
    assigns = [only_assign] if only_assign is not None else list(itertools.product(*[d for _, d in doms]))
    if fam == "choice" and only_assign is None:
        # at most ONE member assigned per configuration: which member is "the user's pick" after several assignments (the
        # last one, even if it is hidden at that moment) is what C05 states and explores
        members = [i for i, n in enumerate(names) if model.syms[n].choice is not None]
        assigns = [a for a in assigns if sum(1 for i in members if a[i] == "y") <= 1]
    for assign in assigns:
        assign = tuple(assign)
        try:
            obs, cfg, hdr, js, user, picks = run_one(files, model, names, assign)
        except Exception as e:  # noqa: BLE001 -- an exception out of the evaluator / writers is an observation
            import os
            import traceback

            tb = traceback.extract_tb(e.__traceback__)
            site = next((f"{os.path.basename(fr.filename)}:{fr.name}" for fr in reversed(tb) if "/mck/" not in fr.filename), "?")
            r.evals += 1
            r.violation(
                {"kind": "exception", "exc": type(e).__name__, "site": site, "family": fam},
                f"evaluating / writing with assignment {dict(zip(names, assign))} raised {type(e).__name__}: {e}",
                {"family": fam, "program": ptext, "files": files, "names": names, "assign": list(assign)},
            )
            continue
        results[assign] = (obs, cfg, hdr, js)
        r.evals += 1
        ev = refsem.Eval(model, user, picks)
        hidden_or_user = False
        for n in model.order:
            sv, vis, asg, cs, wtc = obs[n]
            exp_v = ev.value(n)
            exp_vis = ev.visible(n)
            if vis == 0 or n in user:
                hidden_or_user = True
            if sv != exp_v:
                r.violation(
                    {"kind": "value", "family": fam, "type": model.syms[n].type, "feature": feature(model, n, ev, user)},
                    f"{n}: implementation value {sv!r}, documented precedence gives {exp_v!r} (assignment {dict(zip(names, assign))})",
                    {"family": fam, "program": ptext, "files": files, "names": names, "assign": list(assign), "ast": None},
                )
            if vis != exp_vis:
                r.violation(
                    {"kind": "visibility", "family": fam, "type": model.syms[n].type},
                    f"{n}: implementation visibility {vis}, reference {exp_vis} (assignment {dict(zip(names, assign))})",
                    {"family": fam, "program": ptext, "files": files, "names": names, "assign": list(assign)},
                )
            if model.syms[n].type == "bool" and tuple(asg) != ev.assignable(n):
                r.violation(
                    {"kind": "assignable", "family": fam},
                    f"{n}: implementation assignable {asg}, reference {ev.assignable(n)} (assignment {dict(zip(names, assign))})",
                    {"family": fam, "program": ptext, "files": files, "names": names, "assign": list(assign)},
                )
        if hidden_or_user:
            r.outcome((ptext, tuple((n, obs[n][0], obs[n][1]) for n in model.order)))
    if only_assign is None:
        # reflected (Gray) order: consecutive configurations differ in exactly ONE option, every other option keeps its
        # cached value across the step; walked forwards and backwards (each single change is taken in both directions)
        order = gray([d for _, d in doms])
        live_walk(fam, files, model, names, order, results, r)
        live_walk(fam, files, model, names, list(reversed(order)), results, r)
        for a_ in assigns:
            _USER_STATE.pop((id(files), tuple(a_)), None)
    # oracle 2: hidden user values have no effect on any output
    for assign, (obs, cfg, hdr, js) in results.items():
        reduced = tuple(None if (v is not None and obs[n][1] == 0) else v for n, v in zip(names, assign))
        if reduced == assign:
            continue
        base = results.get(reduced)
        if base is None:
            if only_assign is None:
                continue
            o2, c2, h2, j2, _, _ = run_one(files, model, names, reduced)
            base = (o2, c2, h2, j2)
        r.evals += 1
        r.count("hidden_pairs")
        _, cfg0, hdr0, js0 = base
        case = {"family": fam, "program": ptext, "files": files, "names": names, "assign": list(assign)}
        hidden = [n for n, v, w in zip(names, assign, reduced) if v is not None and w is None]
        if hdr != hdr0 or js != js0 or strip_markers(cfg) != strip_markers(cfg0):
            r.violation(
                {"kind": "hidden_user_changes_value", "family": fam},
                f"user value on hidden option(s) {hidden} changes an output value (assignment {dict(zip(names, assign))})",
                case,
            )
        elif cfg != cfg0:
            only_self = marker_diff_only_on(cfg, cfg0, hidden)
            r.violation(
                {"kind": "hidden_user_changes_marker", "on_hidden_option_itself": only_self},
                f"user value on hidden option(s) {hidden} changes the `# default:` marker in sdkconfig "
                f"(assignment {dict(zip(names, assign))})",
                case,
            )


def marker_diff_only_on(cfg: str, cfg0: str, hidden: List[str]) -> bool:
    """True iff cfg differs from cfg0 only by dropped `# default:` markers in front of the hidden options' own lines."""

    def marked(text: str) -> Dict[str, bool]:
        out = {}
        prev = False
        for line in text.splitlines():
            if line.strip() == "# default:":
                prev = True
                continue
            m = re.match(r"(?:# )?CONFIG_([A-Za-z0-9_]+)[= ]", line)
            if m:
                out[m.group(1)] = prev
            prev = False
        return out

    a, b = marked(cfg), marked(cfg0)
    if a.keys() != b.keys():
        return False
    diff = [n for n in a if a[n] != b[n]]
    return bool(diff) and all(n in hidden and b[n] and not a[n] for n in diff)


def feature(model: refsem.Model, n: str, ev: refsem.Eval, user) -> str:
    si = model.syms[n]
    f = []
    if si.sets:
        f.append("set")
    if si.wsets:
        f.append("wset")
    if si.selects:
        f.append("select")
    if si.implies:
        f.append("imply")
    if any(d.ranges for d in si.defs):
        f.append("range")
    if len(si.defs) > 1:
        f.append("multi")
    if si.choice is not None:
        f.append("member")
    return "+".join(f) or "plain"


def run_item(item) -> common.Result:
    fam, files, prog = item
    r = common.Result()
    r.programs = 1
    check_program(fam, files, prog, r)
    r.sample = {"family": fam, "program": files["Kconfig"], "assignments_explored": r.evals}
    return r


def replay(case) -> List[dict]:
    # the AST is rebuilt from the registered families by matching the program text
    fam = case["family"]
    text = case["program"]
    for tier in ("thorough", "quick"):
        for name, files, prog in all_programs(tier):
            if name == fam and files["Kconfig"] == text:
                r = common.Result()
                if case.get("live_walk"):
                    check_program(fam, case["files"], prog, r)
                    return [v for v in r.viols if v["case"].get("live_walk")]
                check_program(fam, case["files"], prog, r, only_assign=tuple(case["assign"]))
                return r.viols
    raise SystemExit("replay: program not found in the registered families")

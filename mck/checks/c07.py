"""C07 -- all generated output formats describe the same configuration.

Trees with one option of each type in each presence state (visible / hidden / promptless / n / empty) x ALL rename files of
<= 3 lines over a 13-line alphabet (plain and inverted aliases of the same bool, two aliases of one option in both orders,
duplicate old names where the last wins, aliases of int/string/hex with and without `!`, alias of an undefined option,
lowercase old name) x all configurations of the value domain.

Oracle: each of sdkconfig, C header, CMake include, JSON values, auto.conf (written by the real kconfgen writers) is parsed
back into name -> typed value.  Presence and value agree modulo the documented encoding of n; for each alias the sdkconfig
block, the header #define (C truthiness) and the CMake alias agree with "replacement's value, inverted iff its own line has !".
"""

from __future__ import annotations

import itertools
import json
import os
import re
from typing import Any, Dict, Iterator, List, Optional, Tuple

from .. import common, impl, kgen
from ..kgen import Cfg, Choice, L, Menu, Program, S

ID = "C07"
LEVEL = "exploration"
RULE = (
    "3 trees (all five types; visible / conditionally hidden / promptless / n / empty options; a choice) x every ordered "
    "sequence of <=3 (quick: <=2 plus all 3-line files made of alias lines for the bool) distinct lines of an 11-line rename alphabet x "
    "every configuration of the small value domain; distinct_nontrivial = distinct (rename file, value vector) pairs with at least one alias defined."
)
ASSUMPTIONS = [
    "header aliases are evaluated with C truthiness: an alias is true iff it is #defined and its (transitively expanded) value is non-zero",
    "an alias whose replacement is not a defined option carries no obligation other than not raising",
]

ALPHABET = [
    "CONFIG_OLD_B CONFIG_B",
    "CONFIG_OLD_NB !CONFIG_B",
    "CONFIG_OLD_B2 CONFIG_B",
    "CONFIG_OLD_NB2 !CONFIG_B",
    "CONFIG_OLD_B CONFIG_BH",
    "CONFIG_OLD_I CONFIG_I",
    "CONFIG_OLD_NI !CONFIG_I",
    "CONFIG_OLD_S CONFIG_S",
    "CONFIG_OLD_H CONFIG_H",
    "CONFIG_OLD_U CONFIG_UNDEFINED",
    "CONFIG_old_lower CONFIG_B",
    "CONFIG_OLD_NBH !CONFIG_BH",
    "CONFIG_OLD_B !CONFIG_B",
]
BOOL_LINES = [0, 1, 2, 3, 4, 10, 11, 12]


def trees() -> List[Tuple[str, Program, Dict[str, List[Optional[str]]]]]:
    t1 = Program(children=[
        Cfg("B", "bool", prompt="b"),
        Cfg("BH", "bool", prompt="bh", prompt_cond=S("B"), defaults=[(L("y"), None)]),
        Cfg("BP", "bool", defaults=[(L("y"), S("B"))]),
        Cfg("I", "int", prompt="i", defaults=[(L("5"), None)]),
        Cfg("H", "hex", prompt="h", defaults=[(L("0x1f"), None)]),
        Cfg("S", "string", prompt="s", defaults=[(L('"d\\"q"'), None)]),
        Cfg("F", "float", prompt="f", defaults=[(L("1.5"), None)]),
        Cfg("E", "int", prompt="e"),
        Cfg("Z", "bool", prompt="z"),  # the LAST written option: when it goes y -> n the header / auto.conf lose their last line only
    ])
    d1 = {"B": [None, "n", "y"], "BH": [None, "n"], "I": [None, "7"], "H": [None, "2A"], "S": [None, 'a"b\\c', "n"], "Z": [None, "y"]}
    t2 = Program(children=[
        Cfg("B", "bool", prompt="b", defaults=[(L("y"), None)]),
        Menu(title="m", visible_if=[S("B")], children=[Cfg("BH", "bool", prompt="bh"), Cfg("I", "int", prompt="i", defaults=[(L("5"), None)]), Cfg("H", "hex", prompt="h", defaults=[(L("0x1f"), None)])]),
        Cfg("S", "string", prompt="s", depends=[S("B")], defaults=[(L('"dep"'), None)]),
        Choice(prompt="c", children=[Cfg("C1", "bool", prompt="c1"), Cfg("C2", "bool", prompt="c2")]),
    ])
    d2 = {"B": [None, "n"], "BH": [None, "y"], "I": [None, "0"], "H": [None, "0X2a"], "S": [None, "", "y"], "C2": [None, "y"]}
    t3 = Program(children=[
        Cfg("SRC", "bool", prompt="src", sets=[("I", L("9"), None)], selects=[("B", None)]),
        Cfg("B", "bool", prompt="b"),
        Cfg("BH", "bool", defaults=[(S("B"), None)]),
        Cfg("I", "int", prompt="i", ranges=[(L("1"), L("9"), None)], defaults=[(L("5"), None)]),
        Cfg("H", "hex", prompt="h", prompt_cond=S("B"), defaults=[(L("0x0"), None)]),
        Cfg("S", "string", defaults=[(L('"promptless"'), None)]),
    ])
    d3 = {"SRC": [None, "y"], "B": [None, "n", "y"], "I": [None, "3", "99"], "H": [None, "ff"]}
    return [("t1", t1, d1), ("t2", t2, d2), ("t3", t3, d3)]


def rename_files(tier: str) -> Iterator[Tuple[int, ...]]:
    n = len(ALPHABET)
    yield ()  # no rename file at all: no deprecated block after the options
    for k in (1, 2):
        yield from itertools.permutations(range(n), k)
    if tier == "quick":
        yield from itertools.permutations(BOOL_LINES, 3)
    else:
        yield from itertools.permutations(range(n), 3)


def items(tier: str, seed: int):
    out = []
    for tname, prog, dom in trees():
        files = kgen.render(prog)
        group: List[Tuple[int, ...]] = []
        for rf in rename_files(tier):
            group.append(rf)
            if len(group) == 12:
                out.append({"tree": tname, "files": files, "dom": dom, "renames": group})
                group = []
        if group:
            out.append({"tree": tname, "files": files, "dom": dom, "renames": group})
    return out


# ---- parsers of the outputs ------------------------------------------------------------------------

SET_RE = re.compile(r"CONFIG_([A-Za-z0-9_]+)=(.*)$")
UNSET_RE = re.compile(r"# CONFIG_([A-Za-z0-9_]+) is not set$")
DEF_RE = re.compile(r"#define CONFIG_([A-Za-z0-9_]+) (.*)$")
CM_RE = re.compile(r'set\(CONFIG_([A-Za-z0-9_]+) "(.*)"\)$')


def unesc(s: str) -> str:
    return re.sub(r"\\(.)", r"\1", s)


def parse_config(text: str) -> Tuple[Dict[str, str], Dict[str, str]]:
    main: Dict[str, str] = {}
    dep: Dict[str, str] = {}
    cur = main
    for line in text.splitlines():
        if line.strip() == "# Deprecated options for backward compatibility":
            cur = dep
            continue
        if line.strip() == "# End of deprecated options":
            cur = main
            continue
        m = SET_RE.match(line)
        if m:
            cur[m.group(1)] = m.group(2)
            continue
        m = UNSET_RE.match(line)
        if m:
            cur[m.group(1)] = "<n>"
    return main, dep


def parse_header(text: str) -> Tuple[Dict[str, str], Dict[str, str]]:
    main: Dict[str, str] = {}
    dep: Dict[str, str] = {}
    cur = main
    for line in text.splitlines():
        if "List of deprecated options" in line:
            cur = dep
            continue
        m = DEF_RE.match(line)
        if m:
            cur[m.group(1)] = m.group(2)
    return main, dep


def parse_cmake(text: str) -> Tuple[Dict[str, str], Dict[str, str], List[str]]:
    main: Dict[str, str] = {}
    dep: Dict[str, str] = {}
    cur = main
    lst: List[str] = []
    for line in text.splitlines():
        if line.startswith("# List of deprecated options"):
            cur = dep
            continue
        if line.startswith("set(CONFIGS_LIST "):
            lst = [x[len("CONFIG_"):] for x in line[len("set(CONFIGS_LIST "):-1].split(";") if x]
            continue
        m = CM_RE.match(line)
        if m:
            cur[m.group(1)] = m.group(2)
    return main, dep, lst


def norm(typ: str, raw: Optional[str], fmt: str) -> Any:
    """typed value of a raw textual value in format fmt; None = absent; False = bool n"""
    if raw is None:
        return None
    if typ == "bool":
        if fmt == "cmake":
            return raw == "y"
        if fmt == "header":
            return raw.strip() not in ("0", "")
        return raw == "y"
    if typ == "string":
        if fmt in ("config", "header", "autoconf"):
            if len(raw) >= 2 and raw[0] == raw[-1] == '"':
                return unesc(raw[1:-1])
            return ("<malformed>", raw)
        if fmt == "cmake":
            return unesc(raw)
        return raw
    if raw == "":
        return ""
    try:
        if typ == "int":
            return int(raw, 10)
        if typ == "hex":
            return int(raw, 16)
        if typ == "float":
            return float(raw)
    except ValueError:
        return ("<malformed>", raw)
    return raw


def run_case(files, tree: str, rf: Tuple[int, ...], names: List[str], assign: Tuple[Optional[str], ...], r: common.Result, previous=None) -> None:
    import kconfgen.core as kg

    rename_text = "".join(ALPHABET[i] + "\n" for i in rf)
    # `previous`: the configuration whose outputs are lying at the same paths when this one is generated (a rebuild)
    case = {"tree": tree, "files": files, "renames": list(rf), "rename_text": rename_text, "names": names, "assign": list(assign), "previous": list(previous) if previous is not None else None}
    label = f"[{tree} renames={[ALPHABET[i] for i in rf]} cfg={dict((n, v) for n, v in zip(names, assign) if v is not None)}]"
    c = impl.core()

    def viol(sig, msg):
        r.violation(sig, f"{label} {msg}", case)

    try:
        inst = impl.Inst(files, renames=[rename_text])
        for n, v in zip(names, assign):
            if v is not None:
                inst.k.syms[n].set_value(v)
        k = inst.k
        d = impl.wdir()
        paths = {f: os.path.join(d, f"c07.{f}") for f in ("config", "header", "cmake", "json")}
        kg.write_config(k, paths["config"])
        kg.write_header(k, paths["header"])
        kg.write_cmake(k, paths["cmake"])
        kg.write_json(k, paths["json"])
        autoconf = k._old_vals_contents()
        texts = {f: open(p).read() for f, p in paths.items()}
        # the same configuration with the aliases switched off (kconfgen --dont-write-deprecated)
        paths_n = {f: os.path.join(d, f"c07n.{f}") for f in ("config", "header", "cmake")}
        kg.write_config(k, paths_n["config"], write_deprecated=False)
        kg.write_header(k, paths_n["header"], write_deprecated=False)
        kg.write_cmake(k, paths_n["cmake"], write_deprecated=False)
        texts_n = {f: open(p).read() for f, p in paths_n.items()}
    except Exception as e:  # noqa: BLE001
        import traceback

        tb = traceback.extract_tb(e.__traceback__)
        site = next((f"{os.path.basename(fr.filename)}:{fr.name}" for fr in reversed(tb) if "/mck/" not in fr.filename), "?")
        viol({"kind": "exception", "exc": type(e).__name__, "site": site}, f"writing outputs raised {type(e).__name__}: {e}")
        return
    r.evals += 1
    cfg_main, cfg_dep = parse_config(texts["config"])
    hdr_main, hdr_dep = parse_header(texts["header"])
    cm_main, cm_dep, cm_list = parse_cmake(texts["cmake"])
    js = json.loads(texts["json"])
    ac_main, _ = parse_config(autoconf)

    types = {s.name: c.TYPE_TO_STR[s.orig_type] for s in k.unique_defined_syms}
    values = {s.name: s.str_value for s in k.unique_defined_syms}
    # ---- aliases switched off: no format mentions an old name, and the options themselves are written as before
    old_names = {ALPHABET[i].split()[0][len("CONFIG_"):] for i in rf}
    for fmt, parsed, with_aliases in (("config", parse_config(texts_n["config"]), cfg_main), ("header", parse_header(texts_n["header"]), hdr_main), ("cmake", parse_cmake(texts_n["cmake"]), cm_main)):
        main_n, dep_n = parsed[0], parsed[1]
        leaked = sorted((set(main_n) | set(dep_n) | set(parsed[2] if fmt == "cmake" else ())) & (old_names - set(types)))
        if leaked or dep_n:
            viol({"kind": "alias_written_although_switched_off", "format": fmt}, f"write_deprecated=False: {fmt} still carries {leaked or sorted(dep_n)}")
        elif {n: v for n, v in main_n.items() if n in types} != {n: v for n, v in with_aliases.items() if n in types}:
            viol({"kind": "options_differ_when_aliases_switched_off", "format": fmt}, f"write_deprecated=False changes the options written to {fmt}")
    # ---- main options
    for name, typ in types.items():
        in_cfg = name in cfg_main
        v_cfg = None if not in_cfg else (False if cfg_main[name] == "<n>" and typ == "bool" else norm(typ, cfg_main[name], "config"))
        if cfg_main.get(name) == "<n>" and typ != "bool":
            viol({"kind": "not_set_line_for_non_bool", "type": typ}, f"sdkconfig has `# CONFIG_{name} is not set` for a {typ}")
            continue
        v_hdr = norm(typ, hdr_main.get(name), "header") if name in hdr_main else None
        v_cm = norm(typ, cm_main.get(name), "cmake") if name in cm_main else None
        v_js = js.get(name) if name in js else None
        v_ac = norm(typ, ac_main.get(name), "autoconf") if name in ac_main and ac_main[name] != "<n>" else None
        if typ == "bool":
            expect = {"header": True if v_cfg else None, "cmake": (v_cfg if in_cfg else None), "json": (v_cfg if in_cfg else None), "autoconf": True if v_cfg else None}
            got = {"header": v_hdr, "cmake": v_cm, "json": v_js, "autoconf": v_ac}
        else:
            got = {"header": v_hdr, "cmake": v_cm, "json": v_js, "autoconf": v_ac}
            js_expect = v_cfg
            if typ in ("int", "hex", "float") and v_cfg == "":
                js_expect = None  # documented: a number without value is null in JSON
            # a number without a value: null in JSON, no #define in the header (nothing to define), empty elsewhere
            expect = {"header": (None if (typ in ("int", "hex", "float") and v_cfg == "") else v_cfg), "cmake": v_cfg, "json": js_expect, "autoconf": v_cfg}
            if typ in ("int", "hex", "float") and v_cfg == "" and name in js and js[name] is None:
                got["json"] = None
        for f in expect:
            if got[f] != expect[f] or (isinstance(got[f], tuple)):
                if typ == "float" and isinstance(got[f], float) and isinstance(expect[f], float) and got[f] == expect[f]:
                    continue
                viol({"kind": "format_disagrees", "format": f, "type": typ, "state": "present" if in_cfg else "absent", "empty": v_cfg == ""},
                     f"{name} ({typ}): sdkconfig says {v_cfg!r}, {f} says {got[f]!r} (value {values[name]!r})")
        if in_cfg and name not in cm_list:
            viol({"kind": "cmake_configs_list_misses", "type": typ}, f"{name} written to cmake but missing from CONFIGS_LIST")
        if isinstance(v_cfg, tuple):
            viol({"kind": "malformed_value", "format": "config", "type": typ}, f"{name}: {v_cfg}")
    # ---- aliases
    mapping: Dict[str, Tuple[str, bool]] = {}
    for i in rf:
        old, new = ALPHABET[i].split()
        inv = new.startswith("!")
        mapping[old[len("CONFIG_"):]] = (new.lstrip("!")[len("CONFIG_"):], inv)  # last mapping wins
    any_alias = False
    for old, (new, inv) in mapping.items():
        if new not in types:
            continue
        any_alias = True
        typ = types[new]
        in_cfg = new in cfg_main
        if typ == "bool":
            base = bool(in_cfg and cfg_main[new] != "<n>")
            exp = (not base) if inv else base
            present_expected = in_cfg
        else:
            exp = norm(typ, cfg_main.get(new), "config") if in_cfg else None
            present_expected = in_cfg
        # sdkconfig block
        if present_expected:
            if old not in cfg_dep:
                viol({"kind": "alias_missing", "format": "config", "inverted": inv, "type": typ}, f"alias {old} of {new} missing from the sdkconfig deprecated block")
            else:
                got = (cfg_dep[old] != "<n>" and cfg_dep[old] == "y") if typ == "bool" else norm(typ, cfg_dep[old], "config")
                if got != exp:
                    viol({"kind": "alias_value", "format": "config", "inverted": inv, "type": typ, "n_aliases": sum(1 for o, (nw, _) in mapping.items() if nw == new)},
                         f"sdkconfig alias {old} = {cfg_dep[old]!r}, expected {exp!r} ({new} = {cfg_main.get(new)!r})")
        elif old in cfg_dep:
            viol({"kind": "alias_for_absent_option", "format": "config", "type": typ}, f"alias {old} written although {new} is not written")
        # header: C truthiness
        if not present_expected:
            # the replacement is not part of the written configuration: the alias must be absent everywhere
            if old in hdr_dep:
                viol({"kind": "alias_for_absent_option", "format": "header", "type": typ, "inverted": inv}, f"header defines alias {old} ({hdr_dep[old]!r}) although {new} is not written (sdkconfig / CMake have no such alias)")
            if old in cm_dep:
                viol({"kind": "alias_for_absent_option", "format": "cmake", "type": typ, "inverted": inv}, f"cmake defines alias {old} although {new} is not written")
            continue
        if typ == "bool":
            hv = hdr_dep.get(old)
            if hv is None:
                truth = False
            else:
                neg = hv.startswith("!")
                body = hv.lstrip("!").strip()
                if body.startswith("CONFIG_"):
                    tval = hdr_main.get(body[len("CONFIG_"):])
                    tt = tval is not None and tval.strip() not in ("0", "")
                else:
                    tt = body not in ("0", "")
                truth = (not tt) if neg else tt
            if truth != exp:
                viol({"kind": "alias_value", "format": "header", "inverted": inv, "type": typ, "replacement": "y" if base else "n"},
                     f"header alias {old} is {'true' if truth else 'false'} under C truthiness ({hdr_dep.get(old)!r}), expected {exp!r} ({new} = {values[new]})")
        else:
            hv = hdr_dep.get(old)
            # (a NUMBER without a value has no #define of its own, so nothing to alias; an empty STRING is `#define X ""`)
            if present_expected and (values[new] != "" or typ == "string"):
                if hv is None or hv.lstrip("!") != f"CONFIG_{new}" or (hv.startswith("!")):
                    viol({"kind": "alias_value", "format": "header", "inverted": inv, "type": typ}, f"header alias {old} -> {hv!r}, expected plain CONFIG_{new}")
        # cmake
        if present_expected:
            if old not in cm_dep:
                viol({"kind": "alias_missing", "format": "cmake", "inverted": inv, "type": typ}, f"alias {old} of {new} missing from the cmake deprecated list")
            else:
                got = (cm_dep[old] == "y") if typ == "bool" else norm(typ, cm_dep[old], "cmake")
                if got != exp:
                    viol({"kind": "alias_value", "format": "cmake", "inverted": inv, "type": typ, "position": "after_inverted_alias" if after_inverted(old, new, mapping, k) else "other"},
                         f"cmake alias {old} = {cm_dep[old]!r}, expected {exp!r} ({new} = {cfg_main.get(new)!r})")
                if old not in cm_list:
                    viol({"kind": "cmake_configs_list_misses", "type": "alias"}, f"alias {old} missing from CONFIGS_LIST")
    if any_alias:
        r.outcome((tree, rf, tuple(sorted(values.items()))))


def after_inverted(old: str, new: str, mapping, k) -> bool:
    """is `old` listed after an inverted alias of the same replacement (in the implementation's own alias order)?"""
    dep = k.deprecated_options
    seen_inv = False
    for o in dep.get_deprecated_option(new):
        if o == old:
            return seen_inv
        if dep.is_inversion(o):
            seen_inv = True
    return False


def run_item(item) -> common.Result:
    r = common.Result()
    r.programs = 1
    names = list(item["dom"])
    doms = [item["dom"][n] for n in names]
    for rf in item["renames"]:
        # every configuration is generated over the outputs of its predecessor AND (second pass, reverse order) of its
        # successor in the enumeration: a regeneration must leave no trace of the previous build in any format
        assigns = list(itertools.product(*doms))
        prev = None
        for f in ("config", "header", "cmake", "json"):  # a new rename file starts from an empty output directory
            for stem in ("c07", "c07n"):
                try:
                    os.unlink(os.path.join(impl.wdir(), f"{stem}.{f}"))
                except OSError:
                    pass
        # (the reverse pass only with rename files of at most one line: what is left behind does not depend on the aliases)
        for assign in assigns + (assigns[::-1][1:] if len(rf) <= 1 else []):
            run_case(item["files"], item["tree"], tuple(rf), names, assign, r, previous=prev)
            prev = assign
    r.sample = {"tree": item["tree"], "rename_file": [ALPHABET[i] for i in item["renames"][0]], "configurations": len(list(itertools.product(*doms)))}
    return r


def replay(case) -> List[dict]:
    r = common.Result()
    if case.get("previous") is not None:
        run_case(case["files"], case["tree"], tuple(case["renames"]), case["names"], tuple(case["previous"]), common.Result())
    run_case(case["files"], case["tree"], tuple(case["renames"]), case["names"], tuple(case["assign"]), r, previous=case.get("previous"))
    return r.viols

"""C06 -- every emitted value is well-formed for its type and inside its active range.

Numeric target T (int / hex / float) with every combination of range kind (none, literal, conditional, symbol-valued
bounds), default kind (fallback, none, symbol-valued, out-of-range literal) and indirect set kind (none, set in range,
set out of range, set default), x an input alphabet with malformed classes, entered by three routes
(Symbol.set_value, an sdkconfig line, the config server's set handler) x all assignments of the condition / bound options.

Range kinds with SEVERAL range lines on one option: `condfb` (a conditional range followed by an unconditional fallback
range that contains it; defaults / inputs inside the narrow one, between the two, outside both), `condcond` (two conditional
ranges with independent conditions, none may apply) and `fbcond` (an unconditional range followed by a conditional one,
which never applies).

Parser dimension: every program is also loaded with the pyparsing-based parser (parser_version=2) for the no-input route
(+ its live steps) and the set_value route (quick: one input per class P2_ALPHA_Q, without live steps; thorough: the whole
alphabet with live steps, and the sdkconfig route).  The server route and the remaining inputs run under parser 1 only.

Oracle per option and configuration: bool in {y,n}; int a base-10 integer; hex a non-negative base-16 integer; float finite;
empty only when nothing provides a value; inside the first range whose condition holds; header / CMake / JSON / sdkconfig
writers do not raise and denote the same number (hex with 0x in header and CMake).
"""

from __future__ import annotations

import itertools
import json
import math
import os
import re
from typing import Any, Dict, Iterator, List, Optional, Tuple

from .. import common, impl, kgen
from ..kgen import Cfg, L, Program, S

ID = "C06"
LEVEL = "exploration"
RULE = (
    "programs = type{int,hex,float} x range{none,lit,lit-containing-0,lit-if-C,sym-bounds,sym-upper-bound,two-definitions,"
    "cond-then-fallback,cond-then-cond,fallback-then-cond} x default{fallback,none,symbol,out-of-range} x "
    "indirect{none,set,set-out-of-range,set-default,set-default-out-of-range} x prompt{plain,if V}; inputs = per-type alphabet incl. malformed classes x "
    "route{set_value, sdkconfig line, server handle_set} x all values of C,C2,V,LO,D; x parser{1: everything; 2: no-input (+live steps) and "
    "set_value with one input per class (thorough: whole alphabet + live steps + sdkconfig route)}; distinct_nontrivial = distinct (program, "
    "input class, route, resulting value vector) where the input was malformed, out of range, or re-formatted."
)
ASSUMPTIONS = [
    "well-formed int: optional sign and decimal digits only; hex: optional 0x/0X and hex digits only (non-negative); float: parses to a finite float",
    "the server route calls kconfserver.core.handle_set on a fresh Kconfig; an exception escaping it is C15's business and only counted here",
]

ALPHA = {
    "int": ["0", "7", "-3", "99999999999999999999", "007", "0x10", "1e3", "5.0", " 5", "+5", "1_0", "", "abc", "5 "],
    "hex": ["0x1f", "1F", "0X1f", "-0x1", "0x", "g", "1_0", "0x1_0", "-0", "0x0", " 1f", "", "+1f", "0xfff"],
    "float": ["5", "1e3", "-2.5", ".5", "5.", "1e400", "nan", "inf", "-inf", "1_0.5", "0x10", "", " 2.5", "2.5e-3"],
}
SERVER_VALUES = {
    "int": [7, -3, 10**20, "7", "007", "1_0", " 5", 5.0, True],
    "hex": [31, "1f", "0x1F", -1, "1_0", "-0", " 1f", "g"],
    "float": [5, 2.5, "1e3", "1_0.5", "nan", " 2.5", 1e400, True],
}
LIT = {
    "int": dict(lo="2", hi="9", fb="5", oor="77", setv="6", setoor="88", wset="4", symdef="3", lo2="100", hi2="200", fb2="150"),
    "hex": dict(lo="0x2", hi="0x9f", fb="0x10", oor="0xfff", setv="0x18", setoor="0xabc", wset="0x12", symdef="0x3", lo2="0x100", hi2="0x1ff", fb2="0x180"),
    "float": dict(lo="0.5", hi="9.5", fb="1.5", oor="77.5", setv="3.25", setoor="1e9", wset="0.75", symdef="2.5", lo2="100.5", hi2="200.5", fb2="150.5"),
}
# wide (fallback) range around [lo, hi]: some inputs / defaults lie between the two, some outside both
WIDE = {"int": ("-5", "60"), "hex": ("0x0", "0x2ff"), "float": ("-5.5", "50.5")}
# parser-2 quick inputs: inside the narrow range, between narrow and wide, outside every range, malformed
P2_ALPHA_Q = {
    "int": ["7", "-3", "99999999999999999999", "0x10"],
    "hex": ["0x1f", "0x0", "0xfff", "g"],
    "float": ["5", "-2.5", "1e3", "nan"],
}
INT_RE = re.compile(r"[+-]?[0-9]+\Z")
HEX_RE = re.compile(r"(0[xX])?[0-9a-fA-F]+\Z")


def programs(tier: str) -> Iterator[Dict[str, Any]]:
    for t in ("int", "hex", "float"):
        lit = LIT[t]
        combos = list(itertools.product(("none", "lit", "zero", "cond", "sym"), ("fb", "none", "sym", "oor"), ("none", "set", "setoor", "wset", "wsetoor"), (False, True)))
        # upper bound taken from an option (with a value / possibly without one), and an option defined twice with a range per definition
        combos += list(itertools.product(("symhi", "symhi_empty", "multi", "condfb", "condcond", "fbcond"), ("fb", "oor"), ("none", "set", "setoor", "wset"), (False,)))
        for rng, dfl, ind, pc in combos:
            if tier == "quick" and pc and (rng == "sym" or dfl == "sym"):
                continue
            T = Cfg("T", t, prompt="t")
            aux: Dict[str, Cfg] = {}
            dom: Dict[str, List[Optional[str]]] = {}
            # the same ranges for the reference: [low, high, condition]; a bound is a literal or "@OPTION", a condition None or [OPTION, value]
            ref_ranges: List[list] = []
            T2: Optional[Cfg] = None
            if pc:
                T.prompt_cond = S("V")
                aux["V"] = Cfg("V", "bool", prompt="v", defaults=[(L("y"), None)])
                dom["V"] = [None, "n"]
            if rng == "lit":
                T.ranges.append((L(lit["lo"]), L(lit["hi"]), None))
                ref_ranges.append([lit["lo"], lit["hi"], None])
            elif rng == "symhi":
                T.ranges.append((L(lit["lo"]), S("HI"), None))
                aux["HI"] = Cfg("HI", t, prompt="hi", defaults=[(L(lit["hi"]), None)])
                dom["HI"] = [None, lit["setv"]]
                ref_ranges.append([lit["lo"], "@HI", None])
            elif rng == "symhi_empty":
                # the bound option has no default and is unavailable unless G: its value is then empty, which counts as 0
                T.ranges.append((L(lit["lo"]), S("LIM"), None))
                aux["G"] = Cfg("G", "bool", prompt="g")
                aux["LIM"] = Cfg("LIM", t, prompt="lim", depends=[S("G")])
                dom["G"] = [None, "y"]
                dom["LIM"] = [None, lit["hi"]]
                ref_ranges.append([lit["lo"], "@LIM", None])
            elif rng == "multi":
                T.prompt = "t low"
                T.depends = [kgen.Not(S("F"))]
                T.ranges.append((L(lit["lo"]), L(lit["hi"]), None))
                T2 = Cfg("T", t, prompt="t high", depends=[S("F")], ranges=[(L(lit["lo2"]), L(lit["hi2"]), None)], defaults=[(L(lit["fb2"]), None)])
                aux["F"] = Cfg("F", "bool", prompt="f")
                dom["F"] = [None, "y"]
                ref_ranges.append([lit["lo"], lit["hi"], ["F", "n"]])
                ref_ranges.append([lit["lo2"], lit["hi2"], ["F", "y"]])
            elif rng == "zero":  # a range that contains 0 (the numeric value assumed when nothing has been parsed yet)
                T.ranges.append((L({"int": "-5", "hex": "0x0", "float": "-1.0"}[t]), L({"int": "5", "hex": "0x1f", "float": "1.0"}[t]), None))
            elif rng == "cond":
                ref_ranges.append([lit["lo"], lit["hi"], ["C", "y"]])
                T.ranges.append((L(lit["lo"]), L(lit["hi"]), S("C")))
                aux["C"] = Cfg("C", "bool", prompt="c")
                dom["C"] = [None, "y"]
            elif rng in ("condfb", "condcond", "fbcond"):
                wlo, whi = WIDE[t]
                aux["C"] = Cfg("C", "bool", prompt="c")
                dom["C"] = [None, "y"]
                if rng == "fbcond":  # the unconditional range comes first: the conditional one never applies
                    T.ranges.append((L(wlo), L(whi), None))
                    T.ranges.append((L(lit["lo"]), L(lit["hi"]), S("C")))
                    ref_ranges.append([wlo, whi, None])
                else:
                    T.ranges.append((L(lit["lo"]), L(lit["hi"]), S("C")))
                    ref_ranges.append([lit["lo"], lit["hi"], ["C", "y"]])
                    if rng == "condfb":
                        T.ranges.append((L(wlo), L(whi), None))
                        ref_ranges.append([wlo, whi, None])
                    else:
                        T.ranges.append((L(wlo), L(whi), S("C2")))
                        aux["C2"] = Cfg("C2", "bool", prompt="c2")
                        dom["C2"] = [None, "y"]
                        ref_ranges.append([wlo, whi, ["C2", "y"]])
            elif rng == "sym":
                ref_ranges.append(["@LO", lit["hi"], None])
                T.ranges.append((S("LO"), L(lit["hi"]), None))
                aux["LO"] = Cfg("LO", t, prompt="lo", defaults=[(L(lit["lo"]), None)])
                dom["LO"] = [None, lit["setv"]]
            if dfl == "fb":
                T.defaults.append((L(lit["fb"]), None))
            elif dfl == "sym":
                T.defaults.append((S("D"), None))
                aux["D"] = Cfg("D", t, prompt="d", defaults=[(L(lit["symdef"]), None)])
                dom["D"] = [None, lit["oor"]]
            elif dfl == "oor":
                T.defaults.append((L(lit["oor"]), None))
            if ind != "none":
                src = Cfg("SRC", "bool", prompt="src")
                if ind == "set":
                    src.sets.append(("T", L(lit["setv"]), None))
                elif ind == "setoor":
                    src.sets.append(("T", L(lit["setoor"]), None))
                elif ind == "wsetoor":
                    src.wsets.append(("T", L(lit["setoor"]), None))
                else:
                    src.wsets.append(("T", L(lit["wset"]), None))
                aux["SRC"] = src
                dom["SRC"] = [None, "y"]
            kids = [aux[n] for n in ("V", "C", "C2", "F", "G") if n in aux] + [T] + ([T2] if T2 else []) + [aux[n] for n in ("LO", "HI", "LIM", "D", "SRC") if n in aux]
            yield {"type": t, "shape": f"{rng}/{dfl}/{ind}/{'pc' if pc else 'plain'}", "files": kgen.render(Program(children=kids)), "dom": dom, "ref_ranges": ref_ranges, "tier": tier}


def items(tier: str, seed: int):
    return list(programs(tier))


def input_class(t: str, v: Any) -> str:
    s = v if isinstance(v, str) else repr(v)
    if isinstance(v, bool):
        return "json_bool"
    if not isinstance(v, str):
        return "json_" + type(v).__name__
    if s == "":
        return "empty"
    if "_" in s:
        return "underscore"
    if s != s.strip():
        return "whitespace"
    if s.startswith("+"):
        return "plus_sign"
    if t == "hex" and s.startswith("-"):
        return "negative_hex"
    if t == "int" and (s.lower().startswith("0x") or "e" in s.lower() or "." in s):
        return "other_base_or_float"
    if t == "int" and len(s.lstrip("-")) > 1 and s.lstrip("-").startswith("0"):
        return "leading_zero"
    if t == "int" and len(s) > 15:
        return "huge"
    if t == "float" and s.lower().lstrip("-") in ("nan", "inf"):
        return "nonfinite"
    return "plain"


def wellformed(t: str, v: str) -> Optional[str]:
    if v == "":
        return None
    if t == "bool":
        return None if v in ("y", "n") else "not y/n"
    if t == "int":
        return None if INT_RE.match(v) else "not a base-10 integer"
    if t == "hex":
        return None if HEX_RE.match(v) else "not a non-negative base-16 integer"
    if t == "float":
        try:
            return None if math.isfinite(float(v)) and "_" not in v and v == v.strip() else "not a finite float literal"
        except ValueError:
            return "not a float"
    return None


def num(t: str, v: str):
    if t == "int":
        return int(v, 10)
    if t == "hex":
        return int(v, 16)
    return float(v)


def check_state(inst, item, label: str, r: common.Result, case: dict, icls: str, route: str) -> None:
    import kconfgen.core as kg

    c = impl.core()
    k = inst.k
    base_sig = {"type": item["type"], "input": icls, "route": route}
    if case.get("parser", 1) != 1:
        base_sig["parser"] = case["parser"]
    vals: Dict[str, str] = {}
    try:
        for s in k.unique_defined_syms:
            vals[s.name] = s.str_value
    except Exception as e:  # noqa: BLE001
        r.violation({"kind": "evaluation_raises", "exc": type(e).__name__, **base_sig}, f"{label} evaluating raised {type(e).__name__}: {e}", case)
        return
    for s in k.unique_defined_syms:
        t = c.TYPE_TO_STR[s.orig_type]
        v = vals[s.name]
        bad = wellformed(t, v)
        if bad:
            r.violation({"kind": "malformed_value", "what": bad, **base_sig}, f"{label} {s.name} ({t}) has the value {v!r}: {bad}", case)
            continue
        if t not in ("int", "hex", "float"):
            continue
        if v == "":
            provides = any(c.expr_value(cond) for _, cond in s.defaults) or any(c.expr_value(cond) for _, cond, _ in s.rev_values) or any(
                c.expr_value(cond) and c.expr_value(s.direct_dep) for _, cond, _ in s.weak_rev_values
            )
            if provides:
                r.violation({"kind": "empty_although_provided", **base_sig}, f"{label} {s.name} is empty although a default / set applies", case)
            continue
        for lo, hi, cond in s.ranges:
            if c.expr_value(cond):
                try:
                    lov, hiv = num(t, lo.str_value), num(t, hi.str_value)
                except ValueError:
                    break
                if lov <= hiv and not (lov <= num(t, v) <= hiv):
                    r.violation({"kind": "outside_active_range", "source": "set" if s._has_active_indirect_set else ("user" if s._user_value is not None and s.visibility else "default"), **base_sig},
                                f"{label} {s.name} = {v} outside the active range [{lo.str_value}, {hi.str_value}]", case)
                break
    # the same for T against the ranges as the PROGRAM states them (not as the implementation propagated them)
    tv = vals.get("T", "")
    if tv != "" and not wellformed(item["type"], tv):
        t = item["type"]

        def bound(b: str):
            if b.startswith("@"):
                bv = vals[b[1:]]
                return num(t, bv) if bv != "" and not wellformed(t, bv) else 0  # a bound without a value counts as 0
            return num(t, b)

        for lo_, hi_, cond in item.get("ref_ranges", ()):
            if cond is None or vals[cond[0]] == cond[1]:
                lov, hiv = bound(lo_), bound(hi_)
                if lov <= hiv and not (lov <= num(t, tv) <= hiv):
                    r.violation({"kind": "outside_stated_range", **base_sig}, f"{label} T = {tv} outside the range the program states for this configuration [{lo_}, {hi_}] = [{lov}, {hiv}]", case)
                break
    # writers
    d = impl.wdir()
    outs: Dict[str, str] = {}
    for fmt, fn in (("config", kg.write_config), ("header", kg.write_header), ("cmake", kg.write_cmake), ("json", kg.write_json)):
        p = os.path.join(d, f"c06.{fmt}")
        try:
            fn(k, p)
            outs[fmt] = open(p).read()
        except Exception as e:  # noqa: BLE001
            import traceback

            tb = traceback.extract_tb(e.__traceback__)
            site = next((f"{os.path.basename(fr.filename)}:{fr.name}" for fr in reversed(tb) if "/mck/" not in fr.filename), "?")
            empties = sorted(c.TYPE_TO_STR[s.orig_type] for s in k.unique_defined_syms if vals[s.name] == "" and s.config_string)
            r.violation({"kind": "writer_raises", "format": fmt, "exc": type(e).__name__, "site": site, "empty_written_options": empties, "type": item["type"], "input": icls if not empties else "-", "route": route if not empties else "-"},
                        f"{label} writing {fmt} raised {type(e).__name__}: {e}", case)
    try:
        js = kg.get_json_values(k)
    except Exception as e:  # noqa: BLE001
        js = None
    for s in k.unique_defined_syms:
        t = c.TYPE_TO_STR[s.orig_type]
        v = vals[s.name]
        if t not in ("int", "hex", "float") or not s.config_string or wellformed(t, v):
            continue
        if v == "":
            # a written option without a value
            if "header" in outs:
                m = re.search(rf"^#define CONFIG_{s.name}\b(.*)$", outs["header"], re.M)
                if m and m.group(1).strip() in ("", "0x"):
                    r.violation({"kind": "empty_value_rendered", "format": "header", "type": t}, f"{label} header renders the value-less {t} {s.name} as {m.group(0)!r}", case)
            continue
        n = num(t, v)
        if "header" in outs:
            m = re.search(rf"^#define CONFIG_{s.name} (.*)$", outs["header"], re.M)
            if not m:
                r.violation({"kind": "missing_in_format", "format": "header", **base_sig}, f"{label} {s.name}={v} missing from header", case)
            else:
                hv = m.group(1)
                ok = hv.lower().startswith("0x") if t == "hex" else True
                try:
                    same = (int(hv, 16) if t == "hex" else (int(hv, 10) if t == "int" else float(hv))) == n
                except ValueError:
                    same = False
                if not (ok and same):
                    r.violation({"kind": "format_denotes_other_number", "format": "header", **base_sig}, f"{label} header has {m.group(0)!r} for {s.name}={v}", case)
        if "cmake" in outs:
            m = re.search(rf'^set\(CONFIG_{s.name} "(.*)"\)$', outs["cmake"], re.M)
            if not m:
                r.violation({"kind": "missing_in_format", "format": "cmake", **base_sig}, f"{label} {s.name}={v} missing from cmake", case)
            else:
                cv = m.group(1)
                ok = cv.lower().startswith("0x") if t == "hex" else True
                try:
                    same = (int(cv, 16) if t == "hex" else (int(cv, 10) if t == "int" else float(cv))) == n
                except ValueError:
                    same = False
                if not (ok and same):
                    r.violation({"kind": "format_denotes_other_number", "format": "cmake", **base_sig}, f"{label} cmake has {m.group(0)!r} for {s.name}={v}", case)
        if js is not None:
            jv = js.get(s.name)
            if isinstance(jv, bool) or not isinstance(jv, (int, float)) or jv != n:
                r.violation({"kind": "format_denotes_other_number", "format": "json", **base_sig}, f"{label} json has {jv!r} for {s.name}={v}", case)
        if "config" in outs:
            m = re.search(rf"^CONFIG_{s.name}=(.*)$", outs["config"], re.M)
            if not m or m.group(1) != v:
                r.violation({"kind": "format_denotes_other_number", "format": "config", **base_sig}, f"{label} sdkconfig has {m.group(0) if m else None!r} for {s.name}={v}", case)
    r.outcome((item["shape"], item["type"], icls, route, tuple(sorted(vals.items()))) + ((case["parser"],) if case.get("parser", 1) != 1 else ()))


def enter(inst, t: str, route: str, v: Any, r: common.Result) -> Optional[str]:
    """returns None if entered (or cleanly refused), else a short description of an escaping exception"""
    k = inst.k
    try:
        if route == "set_value":
            k.syms["T"].set_value(v)
        elif route == "sdkconfig":
            inst.load_text(f"CONFIG_T={v}\n", replace=False)
        else:
            import kconfserver.core as ks

            err: List[str] = []
            ks.handle_set(k, err, {"T": v})
    except Exception as e:  # noqa: BLE001
        return f"{type(e).__name__}: {e}"
    return None


def mk_case(item, route, v, names, assign, parser: int = 1) -> dict:
    case = {"item": {k: item[k] for k in ("type", "shape", "files", "dom", "ref_ranges")}, "route": route, "value": v if not isinstance(v, float) or math.isfinite(v) else repr(v), "names": names, "assign": list(assign)}
    if parser != 1:
        case["parser"] = parser
    return case


def run_case(item, route: str, v: Any, names: List[str], assign: tuple, r: common.Result, parser: int = 1, live: bool = True) -> None:
    t = item["type"]
    files = item["files"]
    icls = input_class(t, v)
    case = mk_case(item, route, v, names, assign, parser)
    if not live:
        case["live"] = False
    label = f"[{t} {item['shape']}{' parser=' + str(parser) if parser != 1 else ''} {route} T<-{v!r} {dict((n, a) for n, a in zip(names, assign) if a is not None)}]"
    inst = impl.Inst(files, parser=parser)
    for n, a in zip(names, assign):
        if a is not None:
            inst.k.syms[n].set_value(a)
    esc = enter(inst, t, route, v, r)
    r.evals += 1
    if esc is not None:
        if route == "server":
            r.count("server_handler_raised(C15)")
            return
        r.violation({"kind": "entry_raises", "route": route, "type": t, "input": icls, **({"parser": parser} if parser != 1 else {})}, f"{label} entering the value raised {esc}", case)
        return
    check_state(inst, item, label, r, case, icls, route)
    if route == "set_value" and live:
        live_steps(inst, item, label, r, case, icls, route, names, assign)


def live_steps(inst, item, label: str, r: common.Result, case: dict, icls: str, route: str, names: List[str], assign: tuple) -> None:
    """the same instance, every value already read once: change ONE condition / bound / source option and look again
    (an emitted value must be inside the range that applies NOW, not the one that applied when it was first computed)"""
    for n, a in zip(names, assign):
        for a2 in item["dom"][n]:
            if a2 == a:
                continue
            twin = impl.Inst(item["files"], parser=case.get("parser", 1))
            for nm, av in zip(names, assign):
                if av is not None:
                    twin.k.syms[nm].set_value(av)
            if case.get("route") is not None:
                enter(twin, item["type"], route, case["value"] if not (isinstance(case["value"], str) and case["value"] in ("inf", "nan", "-inf") and route == "server") else float(case["value"]), r)
            for s_ in twin.k.unique_defined_syms:
                s_.str_value  # everything evaluated once
            if a2 is None:
                twin.k.syms[n].unset_value()
            else:
                twin.k.syms[n].set_value(a2)
            r.evals += 1
            check_state(twin, item, f"{label} then {n}<-{a2!r}", r, dict(case, then=[n, a2]), icls, route + "+live")


def run_item(item) -> common.Result:
    r = common.Result()
    r.programs = 1
    t = item["type"]
    names = list(item["dom"])
    doms = [item["dom"][n] for n in names]
    n = 0
    thorough = item.get("tier") == "thorough"
    for assign in itertools.product(*doms):
        # without any input first, under either parser
        for parser in (1, 2):
            inst = impl.Inst(item["files"], parser=parser)
            for nm, a in zip(names, assign):
                if a is not None:
                    inst.k.syms[nm].set_value(a)
            r.evals += 1
            label = f"[{t} {item['shape']}{' parser=2' if parser != 1 else ''} no-input {dict((n_, a) for n_, a in zip(names, assign) if a is not None)}]"
            case = mk_case(item, None, None, names, assign, parser)
            check_state(inst, item, label, r, case, "none", "none")
            live_steps(inst, item, label, r, case, "none", "none", names, assign)
        # parser 2: the set_value route (thorough: whole alphabet with live steps, and the sdkconfig route)
        for v in ALPHA[t] if thorough else P2_ALPHA_Q[t]:
            run_case(item, "set_value", v, names, assign, r, parser=2, live=thorough)
            if thorough:
                run_case(item, "sdkconfig", v, names, assign, r, parser=2)
            r.count("parser2_inputs")
        for v in ALPHA[t]:
            for route in ("set_value", "sdkconfig"):
                run_case(item, route, v, names, assign, r)
                n += 1
        for v in SERVER_VALUES[t]:
            run_case(item, "server", v, names, assign, r)
            n += 1
    r.sample = {"type": t, "shape": item["shape"], "program": item["files"]["Kconfig"], "inputs_x_routes_x_configs": n}
    return r


def replay(case) -> List[dict]:
    r = common.Result()
    item = case["item"]
    if case.get("then"):
        base = {k: v for k, v in case.items() if k != "then"}
        inst = impl.Inst(item["files"], parser=case.get("parser", 1))
        live_steps(inst, item, "[replay]", r, base, input_class(item["type"], case["value"]) if case["route"] else "none", case["route"] or "none", case["names"], tuple(case["assign"]))
        return [v for v in r.viols if v["case"].get("then") == case["then"]] or r.viols
    if case["route"] is None:
        inst = impl.Inst(item["files"], parser=case.get("parser", 1))
        for nm, a in zip(case["names"], case["assign"]):
            if a is not None:
                inst.k.syms[nm].set_value(a)
        check_state(inst, item, "[replay]", r, case, "none", "none")
    else:
        v = case["value"]
        if isinstance(v, str) and v in ("inf", "nan") and case["route"] == "server":
            v = float(v)
        run_case(item, case["route"], v, case["names"], tuple(case["assign"]), r, parser=case.get("parser", 1), live=case.get("live", True))
    return r.viols

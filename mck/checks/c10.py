"""C10 -- a minimal configuration reconstructs the full configuration.

Programs: C01's prec / bool / nest / multi families (user values, ranges, set / set default, select / imply, conditional
prompts, nesting in menus / ifs / choices, multiple definitions) plus C05-style choice programs and menu-label programs,
x ALL assignments of user values over the value domains, x the 4 writer variants (labels x normalize_unset) through
Kconfig.write_min_config, plus kconfgen.write_min_config.

Environment dimension (option prefix): the choice / label programs and every PREFIX_STRIDE-th program of each C01 family
are explored again with a non-default option prefix (environment variable CONFIG_ set while the instances -- writer and
fresh reader -- are created; PREFIXES_Q / PREFIXES_T), all assignments x every writer variant.  Every assignment line of
every minimal file must then carry the configured prefix (an entry written with another prefix is not an entry of that
file for its reader), and the round trip must hold exactly as with the stock prefix.

Target dimension (kconfgen route): kconfgen.core.write_min_config() builds a header that carries the IDF_TARGET assignment
only when the target is not "esp32", so the header and the body share the responsibility for that one option.  The
idf_target programs define a string option IDF_TARGET (prompt: always / conditional / none) with every shape of Kconfig
default (none, "esp32", another target, conditional lists that start with either, a conditional-only one), top level or
inside a menu (labelled writer), before or after the options that depend on it (conditional defaults, `depends on`,
a promptless copy); user values of IDF_TARGET range over TARGET_DOM_* = {default, esp32, the tree's other default target,
a third target}; x all assignments of the other options x every writer variant, with the same round-trip oracle.

Oracle: a fresh instance that loads the minimal file has the same value for every option as the original;
the labelled and unlabelled variants contain the same assignment lines in the same order.
"""

from __future__ import annotations

import itertools
import os
import re
from typing import Any, Dict, Iterator, List, Optional, Tuple

from .. import common, impl, kgen, refsem
from ..kgen import Cfg, Choice, Comment, If, L, Menu, Not, Program, S
from . import c01

ID = "C10"
LEVEL = "exploration"
RULE = (
    "programs = C01 families prec/bool/nest/multi + choice programs (conditional members, conditional defaults, named, nested) + "
    "menu-label programs; x all assignments over per-type domains (bool {-,n,y}; int {-,3,7,42}; hex {-,0x5,1f}; string {-,'',v1,'a b'}; "
    "float {-,0.5,5}); x {write_min_config(labels,normalize_unset) for the 4 combinations, kconfgen.write_min_config}. "
    "+ idf_target programs: string option IDF_TARGET with Kconfig defaults {none, esp32, esp32s3, esp32s3 if A / esp32, esp32 if A / esp32s3, esp32c3 if A} x prompt {always, if A, none} "
    "x {top level, in a menu} (thorough: x dependents before / after it), options depending on it (conditional defaults, depends on, promptless copy), "
    "user value of IDF_TARGET over {-, esp32, esp32s3, esp32c3} (thorough: + '', linux) x all assignments of the other options; "
    "x option prefix {stock CONFIG_} for every program, and {BOARD_} (thorough: + CONFIG_X_, cfg) for the choice / label programs and every "
    "25th program of each C01 family (the environment variable CONFIG_ is set when the writer and the reader instance are created). "
    "distinct_nontrivial = distinct (prefix, program, minimal file text) with at least one assignment line."
)
ASSUMPTIONS = [
    "user values entered with Symbol.set_value in definition order; the minimal file is loaded with load_config(replace=True) into a fresh instance of the same tree",
    "non-default option prefixes are identifier-like (letters, digits, underscore): the library interpolates the prefix into regular expressions unescaped; "
    "the reader instance is created under the same prefix as the writer",
]

# non-default option prefixes (None = stock): a different word, an extension of the stock prefix, one without the underscore
PREFIXES_Q = ["BOARD_"]
PREFIXES_T = ["BOARD_", "CONFIG_X_", "cfg"]
PREFIX_STRIDE = 25

DOM_T = {
    "bool": [None, "n", "y"],
    "int": [None, "3", "7", "42"],
    "hex": [None, "0x5", "1f"],
    "string": [None, "", "v1", "a b", "t # CONFIG_A is not set"],  # the last: text that reads like an entry of the file
    "float": [None, "0.5", "5"],
}
# quick: one in-range / equal-to-some-default value and one other value per type
DOM_Q = {
    "bool": [None, "n", "y"],
    "int": [None, "5", "42"],
    "hex": [None, "0x10", "1f"],
    "string": [None, "fb", "# CONFIG_A is not set"],
    "float": [None, "1.5", "5"],
}


def A(n, d=None):
    c = Cfg(n, "bool", prompt=n.lower())
    if d:
        c.defaults.append((L(d), None))
    return c


def choice_programs() -> Iterator[Tuple[str, Program]]:
    for c1, c2 in itertools.product((None, "A", "!A"), repeat=2):
        for dfl in ([], [("M2", None)], [("M2", "A")], [("M3", "A"), ("M2", None)]):
            def cond(x):
                return None if x is None else (S("A") if x == "A" else Not(S("A")))

            ch = Choice(prompt="c", children=[Cfg("M1", "bool", prompt="m1", prompt_cond=cond(c1)), Cfg("M2", "bool", prompt="m2", prompt_cond=cond(c2)), Cfg("M3", "bool", prompt="m3")])
            for m, c in dfl:
                ch.defaults.append((m, cond(c)))
            yield ("choice", Program(children=[A("A"), ch]))
    yield ("choice_named", Program(children=[A("A"), Choice(name="CH", prompt="c", prompt_cond=S("A"), defaults=[("M2", None)], children=[Cfg("M1", "bool", prompt="m1"), Cfg("M2", "bool", prompt="m2")])]))
    yield ("choice_in_menu", Program(children=[A("A"), Menu(title="m", depends=[S("A")], children=[Choice(prompt="c", children=[Cfg("M1", "bool", prompt="m1"), Cfg("M2", "bool", prompt="m2")])])]))
    yield ("choice_member_selects", Program(children=[Choice(prompt="c", children=[Cfg("M1", "bool", prompt="m1"), Cfg("M2", "bool", prompt="m2", selects=[("T", None)], sets=[("I", L("9"), None)])]),
                                                      Cfg("T", "bool", prompt="t"), Cfg("I", "int", prompt="i", defaults=[(L("1"), None)])]))


def label_programs() -> Iterator[Tuple[str, Program]]:
    yield ("labels", Program(children=[
        A("A", "y"),
        Menu(title="first menu", children=[Cfg("I", "int", prompt="i", defaults=[(L("5"), None)]), Menu(title="inner", visible_if=[S("A")], children=[Cfg("S", "string", prompt="s", defaults=[(L('"d"'), None)])])]),
        Comment(text="a comment"),
        Menu(title="second menu", depends=[S("A")], children=[Cfg("B", "bool", prompt="b", defaults=[(L("y"), None)])]),
        Cfg("Z", "hex", prompt="z", defaults=[(L("0x10"), None)]),
    ]))
    yield ("labels_multi_def", Program(children=[
        Menu(title="m1", children=[Cfg("I", "int", prompt="i", defaults=[(L("5"), None)])]),
        Menu(title="m2", children=[Cfg("I", "int", prompt="i again"), Cfg("B", "bool", prompt="b")]),
    ]))
    yield ("labels_empty_menu", Program(children=[A("A"), Menu(title="empty", children=[]), Menu(title="only promptless", children=[Cfg("P", "int", defaults=[(L("1"), S("A")), (L("2"), None)])]), Cfg("Z", "int", prompt="z", defaults=[(L("3"), None)])]))


# user values of the option IDF_TARGET (the header written by kconfgen treats the value "esp32" specially)
TARGET_DOM_Q = [None, "esp32", "esp32s3", "esp32c3"]
TARGET_DOM_T = [None, "esp32", "esp32s3", "esp32c3", "", "linux"]


def idf_target_programs(tier: str) -> Iterator[Tuple[str, Program]]:
    """Trees with an option IDF_TARGET: Kconfig defaults x prompt x placement (x order of the dependents, thorough)."""
    def q(t):
        return L(f'"{t}"')

    def is_t(t):
        return kgen.Rel("=", S("IDF_TARGET"), q(t))

    default_shapes = [
        [],
        [(q("esp32"), None)],
        [(q("esp32s3"), None)],
        [(q("esp32s3"), S("A")), (q("esp32"), None)],
        [(q("esp32"), S("A")), (q("esp32s3"), None)],
        [(q("esp32c3"), S("A"))],
    ]
    prompts = [("t", None), ("t", S("A")), (None, None)]
    for dfl, (prompt, pcond), in_menu, deps_first in itertools.product(default_shapes, prompts, (False, True), (False, True) if tier != "quick" else (False,)):
        target = Cfg("IDF_TARGET", "string", prompt=prompt, prompt_cond=pcond, defaults=list(dfl))
        flash = Cfg("FLASH", "int", prompt="f", defaults=[(L("4096"), is_t("esp32s3")), (L("2048"), is_t("esp32")), (L("1024"), None)])
        w = Cfg("W", "bool", prompt="w", depends=[is_t("esp32")], defaults=[(L("y"), None)])
        h = Cfg("H", "string", defaults=[(S("IDF_TARGET"), None)])
        deps = [flash, w, h]
        inner = deps + [target] if deps_first else [target] + deps
        body = [Menu(title="Build", children=inner[:2]), *inner[2:]] if in_menu else inner
        yield ("idf_target", Program(children=[A("A"), *body]))


def items(tier: str, seed: int):
    out = []
    for name, prog in idf_target_programs(tier):
        out.append((name, kgen.render(prog), prog, tier))
    fams = [c01.fam_prec, c01.fam_bool, c01.fam_nest, c01.fam_multi]
    for fam in fams:
        for name, prog in fam(tier):
            out.append((name, kgen.render(prog), prog, tier))
    for name, prog in itertools.chain(choice_programs(), label_programs()):
        out.append((name, kgen.render(prog), prog, tier))
    # environment dimension: non-default option prefix
    base = list(out)
    per_fam: Dict[str, int] = {}
    for prefix in PREFIXES_Q if tier == "quick" else PREFIXES_T:
        per_fam.clear()
        for name, files, prog, t in base:
            i = per_fam.get(name, 0)
            per_fam[name] = i + 1
            if name.startswith(("choice", "labels")) or i % PREFIX_STRIDE == 0:
                out.append((name, files, prog, tier, prefix))
    return out


ASSIGN_RE = re.compile(r"^(CONFIG_[A-Za-z0-9_]+=.*|# CONFIG_[A-Za-z0-9_]+ is not set)$")
# an entry of a configuration file whatever its prefix (used to find entries that do NOT carry the configured prefix)
ANY_ENTRY_RE = re.compile(r"^([A-Za-z_][A-Za-z0-9_]*=.*|# [A-Za-z_][A-Za-z0-9_]* is not set)$")
_ASSIGN_RES: Dict[str, Any] = {}


def assign_re(prefix: Optional[str]):
    if prefix is None:
        return ASSIGN_RE
    rx = _ASSIGN_RES.get(prefix)
    if rx is None:
        p = re.escape(prefix)
        rx = _ASSIGN_RES[prefix] = re.compile(rf"^({p}[A-Za-z0-9_]+=.*|# {p}[A-Za-z0-9_]+ is not set)$")
    return rx


def assignment_lines(text: str, prefix: Optional[str] = None) -> List[str]:
    rx = assign_re(prefix)
    return [l for l in text.splitlines() if rx.match(l)]


def mk_inst(files, prefix: Optional[str]):
    return impl.Inst(files, env={"CONFIG_": prefix}) if prefix is not None else impl.Inst(files)


def clean_destinations() -> None:
    d = impl.wdir()
    for f in os.listdir(d):
        if f.startswith("c10."):
            os.unlink(os.path.join(d, f))


def check_one(fam: str, files, model, names, assign, r: common.Result, prev=None, prefix: Optional[str] = None) -> None:
    import kconfgen.core as kg

    ptext = files["Kconfig"]
    ARE = assign_re(prefix)
    # `previous`: the assignment whose minimal configs are still in the destination files when this one is written
    case = {"family": fam, "program": ptext, "files": files, "names": names, "assign": list(assign), "previous": list(prev) if prev is not None else None}
    if prefix is not None:
        case["prefix"] = prefix
    label = f"[{fam}{' prefix=' + prefix if prefix is not None else ''} {dict((n, v) for n, v in zip(names, assign) if v is not None)}{' after ' + str(dict((n, v) for n, v in zip(names, prev) if v is not None)) if prev is not None else ''}]"
    d = impl.wdir()
    clean_destinations()
    if prev is not None:
        # the destinations hold the minimal configs of the previous assignment of the enumeration (self-contained:
        # written here from scratch, so that a replay of (previous, assign) sees exactly the same files)
        try:
            pi = mk_inst(files, prefix)
            for n, v in zip(names, prev):
                if v is not None:
                    pi.k.syms[n].set_value(v)
            for labels in (False, True):
                for norm in (False, True):
                    pi.k.write_min_config(os.path.join(d, f"c10.min.{int(labels)}{int(norm)}"), labels=labels, normalize_unset=norm)
            for env_labels in ("0", "1"):
                os.environ["ESP_IDF_KCONFIG_MIN_LABELS"] = env_labels
                try:
                    kg.write_min_config(pi.k, os.path.join(d, f"c10.kg{env_labels}"))
                finally:
                    os.environ.pop("ESP_IDF_KCONFIG_MIN_LABELS", None)
        except Exception:  # noqa: BLE001 -- reported when that assignment is the current one
            clean_destinations()
    inst = mk_inst(files, prefix)
    k = inst.k
    if prefix is not None and k.config_prefix != prefix:
        raise RuntimeError(f"harness: prefix {prefix!r} not picked up ({k.config_prefix!r})")
    for n, v in zip(names, assign):
        if v is not None:
            k.syms[n].set_value(v)
    vals = inst.values()
    texts: Dict[str, str] = {}
    try:
        for labels in (False, True):
            for norm in (False, True):
                # one destination per variant, re-used for every assignment of the program (as a build does): what the
                # NEXT reader sees is the file, not the string the writer computed
                p_ = os.path.join(d, f"c10.min.{int(labels)}{int(norm)}")
                k.write_min_config(p_, labels=labels, normalize_unset=norm)
                texts[f"labels={labels},normalize={norm}"] = open(p_).read()
        for env_labels in ("0", "1"):
            p = os.path.join(d, f"c10.kg{env_labels}")
            os.environ["ESP_IDF_KCONFIG_MIN_LABELS"] = env_labels
            try:
                kg.write_min_config(k, p)
            finally:
                os.environ.pop("ESP_IDF_KCONFIG_MIN_LABELS", None)
            texts[f"kconfgen,labels={env_labels}"] = open(p).read()
    except Exception as e:  # noqa: BLE001
        import traceback

        tb = traceback.extract_tb(e.__traceback__)
        site = next((f"{os.path.basename(fr.filename)}:{fr.name}" for fr in reversed(tb) if "/mck/" not in fr.filename), "?")
        r.violation({"kind": "writer_raises", "exc": type(e).__name__, "site": site}, f"{label} write_min_config raised {type(e).__name__}: {e}", case)
        return
    c = impl.core()
    seen_texts = set()
    for variant, text in texts.items():
        body = "\n".join(l for l in text.splitlines() if not l.startswith("#") or ARE.match(l) or l.strip() == "# default:")
        if body in seen_texts:
            continue  # same assignment / pragma lines as a variant already reloaded (headers and labels are comments)
        seen_texts.add(body)
        r.evals += 1
        f = mk_inst(files, prefix)
        try:
            f.load_text(text)
        except Exception as e:  # noqa: BLE001
            r.violation({"kind": "reload_raises", "exc": type(e).__name__, "variant": variant}, f"{label} loading the minimal file ({variant}) raised {type(e).__name__}: {e}", case)
            continue
        fv = f.values()
        if fv != vals:
            diff = {n: (vals[n], fv[n]) for n in vals if vals[n] != fv[n]}
            feats = sorted({feature(k.syms[n], c) for n in diff})
            sig = {"kind": "value_not_reconstructed", "features": feats, "labels": "labels=True" in variant or "labels=1" in variant}
            if prefix is not None:
                sig["prefix"] = "non-default"
            if "IDF_TARGET" in diff:
                # the one option whose assignment kconfgen's header may carry instead of the body
                # (the differences of the options that depend on it are consequences: the class is named after the target option alone)
                sig["features"] = [feature(k.syms["IDF_TARGET"], c)]
                sig["sym"] = "IDF_TARGET"
                sig["writer"] = "kconfgen" if variant.startswith("kconfgen") else "Kconfig"
            r.violation(sig,
                        f"{label} {variant}: original vs reloaded {diff}; minimal file: {text!r}", case)
    if prefix is not None:
        # every entry of the file carries the configured prefix (string values that read like entries are inside quotes,
        # hence never match ANY_ENTRY_RE at the start of a line)
        for variant, text in texts.items():
            foreign = [l for l in text.splitlines() if ANY_ENTRY_RE.match(l) and not ARE.match(l)]
            if foreign:
                r.violation({"kind": "entry_without_configured_prefix", "normalize": "normalize=True" in variant or variant.startswith("kconfgen")},
                            f"{label} {variant}: entries not carrying the prefix {prefix!r}: {foreign}; minimal file: {text!r}", case)
    base = assignment_lines(texts["labels=False,normalize=False"], prefix)
    lab = assignment_lines(texts["labels=True,normalize=False"], prefix)
    if base != lab:
        r.violation({"kind": "labelled_differs_from_unlabelled", "same_set": sorted(base) == sorted(lab)}, f"{label} unlabelled lines {base} vs labelled {lab}", case)
    basen = assignment_lines(texts["labels=False,normalize=True"], prefix)
    labn = assignment_lines(texts["labels=True,normalize=True"], prefix)
    if basen != labn:
        r.violation({"kind": "labelled_differs_from_unlabelled", "normalize": True, "same_set": sorted(basen) == sorted(labn)}, f"{label} (normalize_unset) unlabelled lines {basen} vs labelled {labn}", case)
    if base:
        r.outcome((prefix, ptext, texts["labels=False,normalize=False"]) if prefix is not None else (ptext, texts["labels=False,normalize=False"]))


def feature(s, c) -> str:
    f = [c.TYPE_TO_STR[s.orig_type]]
    if s.choice:
        f.append("member")
    if s.rev_values:
        f.append("set")
    if s.weak_rev_values:
        f.append("set_default")
    if s.rev_dep is not s.kconfig.n:
        f.append("selected")
    if s.weak_rev_dep is not s.kconfig.n:
        f.append("implied")
    if s.ranges:
        f.append("range")
    if not s.visibility:
        f.append("hidden")
    if s._user_value is not None:
        f.append("user")
    return "+".join(f)


def run_item(item) -> common.Result:
    fam, files, prog, tier = item[:4]
    prefix = item[4] if len(item) > 4 else None
    r = common.Result()
    r.programs = 1
    model = refsem.build(prog)
    names = [n for n in model.order if any(d.prompt is not None for d in model.syms[n].defs)]
    DOM = DOM_Q if tier == "quick" else DOM_T
    TDOM = TARGET_DOM_Q if tier == "quick" else TARGET_DOM_T
    doms = [list(TDOM) if n == "IDF_TARGET" else DOM[model.syms[n].type] for n in names]
    if prefix is not None:
        # the string value that reads like an entry of the file is spelt with the configured prefix as well
        doms = [d + [v.replace("CONFIG_", prefix) for v in d if v and "CONFIG_" in v] for d in doms]
        r.count("programs_with_non_default_prefix")
    n = 0
    prev = None
    for assign in itertools.product(*doms):
        check_one(fam, files, model, names, assign, r, prev, prefix)
        prev = assign
        n += 1
    r.sample = {"family": fam, "program": files["Kconfig"], "assignments": n, "prefix": prefix}
    return r


def replay(case) -> List[dict]:
    r = common.Result()
    check_one(case["family"], case["files"], None, case["names"], tuple(case["assign"]), r, case.get("previous"), case.get("prefix"))
    return r.viols

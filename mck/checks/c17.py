"""C17 -- the menuconfig model stays consistent under any sequence of user actions.

Same headless harness as C16 (the real MenuConfigApp glue on a fresh session per history), full key alphabet
(Enter / Space / y / n / r on every row including "<-- Back", Escape, cancelled dialogs, the info screen's own jump-to),
plus, from every expanded state, one further step typing every value of the malformed-value lists into every numeric /
string row.

Oracles after every action:
  (a) no action raises
  (b) whenever `shown` is non-empty: 0 <= sel_node_i < len(shown) and shown == shown_nodes(cur_menu); the rows of the list
      widget are ("<-- Back" +) shown and the highlighted row exists
  (c) leaving a menu ends on the row of the menu that was left
  (d) a toggle only applies a member of `assignable` as it was before the action
  (e) an action aimed at an option with an enabled `set`, or with assignable == (2,), leaves its value unchanged
  (f) if the input dialog's validator (check_valid) accepts v, the option's value afterwards denotes v
      (numerically for int / hex / float, exactly for string)

Trees: see trees(); the `multidef_*` trees give choice members, ordinary options and a menuconfig option several definitions
(extra promptless definition before / after, inside / outside the choice or menu; a prompt in two menus), so that code which
maps a symbol to "its" row through sym.nodes is exercised with nodes[0] / nodes[-1] not being the displayed row.
"""

from __future__ import annotations

import math
from typing import Any, Dict, List, Optional, Tuple

from .. import common, explore, headless, impl, kgen
from ..kgen import Cfg, Choice, Comment, If, L, Menu, Not, Program, S
from . import c16

ID = "C17"
LEVEL = "model_checking"
RULE = (
    "explicit-state BFS per (tree, initial sdkconfig) pair over the full compound UI alphabet (every row incl. Back x "
    "Enter/Space/y/n/r[+confirm y|n]/typed representative value/cancelled dialog; a; Left; Escape; jump-to(node); info "
    "screen + jump-to(node); load file[+confirm o|c] incl. a missing file; s; q+y|n|c) executed by the real MenuConfigApp glue, "
    "fresh session per history, depth 4 (quick) / 5 (thorough); additionally from every expanded state one step typing "
    "EVERY value of the malformed lists (int 13, hex 8, float 9, string 3) into every numeric/string row. "
    "distinct_nontrivial counts distinct (pair, canonical UI state) reached by a non-empty history. "
    "Tree alphabet includes six `multidef_*` trees in which symbols have SEVERAL definitions (sym.nodes longer than one): choice "
    "members with an extra promptless definition before / after the choice outside its menu, beside the choice, and inside the "
    "choice; ordinary options with extra promptless definitions before / after, inside / outside their menu; a menuconfig option "
    "with extra definitions around its menu; an option with a prompt in two menus -- each with an initial sdkconfig that selects / "
    "sets the multiply defined symbol and a load file that selects another one; every history of the depth runs over them."
)
ASSUMPTIONS = [
    "trees whose menu `visible if` / `depends on` mentions an option inside the menu are rejected by the parser (dependency "
    "loop) and therefore counted as skipped, not explored",
    "malformed typed values are explored as the LAST action of a history (from every state that the search expands); inner "
    "positions of a history use one or two representative valid values per type",
    "jump-to is offered in the first two positions of a history (quick) / everywhere (thorough), the info screen's jump-to in the first (quick) / first three (thorough)",
    "'denotes v' uses Python's int(v, base) / float(v) on both sides (the validator's own reading); textual forms such as 1_0 are C06's subject",
    "conformance through textual.Pilot as in C16",
]

MALFORMED = {
    "int": ["0", "7", "-3", "99999999999999999999", "007", "0x10", "1e3", "5.0", " 5", "+5", "1_0", "", "abc"],
    "hex": ["0x1f", "1F", "0X1f", "-0x1", "0x", "g", "1_0", "-5"],
    "float": ["5", "1e3", "-2.5", ".5", "5.", "1e400", "nan", "inf", "1_0.5"],
    "string": ["", "a b", 'q"\\'],
}


# --------------------------------------------------------------------------------------------------
# trees
# --------------------------------------------------------------------------------------------------


def trees() -> List[Dict[str, Any]]:
    out: List[Dict[str, Any]] = []

    def T(name, kids, typed, sdks, loads, **kw):
        out.append(dict(name=name, prog=Program(children=kids), typed=typed, sdks=sdks, loads=loads, **kw))

    # menus whose condition mentions an option INSIDE them (the parser reports a dependency loop)
    T("menu_visible_if_inside", [Menu(title="M", visible_if=[S("X")], children=[Cfg("X", "bool", prompt="x", defaults=[(L("y"), None)]), Cfg("Y", "int", prompt="y")])], {}, {"absent": None}, {})
    T("menu_depends_inside", [Menu(title="M", depends=[S("X")], children=[Cfg("X", "bool", prompt="x", defaults=[(L("y"), None)]), Cfg("Y", "int", prompt="y")])], {}, {"absent": None}, {})

    # menuconfig option with children, implicit sub-menu
    kids = [
        Cfg("MC", "bool", prompt="mc", menuconfig=True),
        Cfg("K", "bool", prompt="k", depends=[S("MC")]),
        Cfg("P", "bool", prompt="p"),
        Cfg("Q", "bool", prompt="q", depends=[S("P")]),
        Cfg("R", "int", prompt="r", depends=[S("P")], defaults=[(L("1"), None)]),
    ]
    T("menuconfig_implicit_submenu", kids, {"int": ["4"]}, {"absent": None, "hand": "CONFIG_MC=y\nCONFIG_P=y\nCONFIG_Q=y\n"}, {"off.cfg": "# CONFIG_MC is not set\n# CONFIG_P is not set\n"}, weight=8)

    # menuconfig option that stays y by default while its prompt is hidden
    kids = [
        Cfg("A", "bool", prompt="a", defaults=[(L("y"), None)]),
        Cfg("MD", "bool", prompt="md", prompt_cond=S("A"), defaults=[(L("y"), None)], menuconfig=True),
        Cfg("K", "bool", prompt="k", depends=[S("MD")]),
        Cfg("J", "int", prompt="j", depends=[S("MD")], defaults=[(L("2"), None)]),
    ]
    T("menuconfig_hidden_prompt_default_y", kids, {"int": ["4"]}, {"absent": None, "hand": "# CONFIG_A is not set\n"}, {"off.cfg": "# CONFIG_A is not set\n", "on.cfg": "CONFIG_A=y\n"})

    # a named choice defined twice (second definition without prompt), member visibility depends on an option
    kids = [
        Cfg("Y", "bool", prompt="y"),
        Choice(name="CH", prompt="c", children=[Cfg("X", "bool", prompt="x"), Cfg("X1", "bool", prompt="x1")]),
        Choice(name="CH", prompt=None, children=[Cfg("X2", "bool", prompt="x2", prompt_cond=S("Y"))]),
    ]
    T("named_choice_twice", kids, {}, {"absent": None, "hand": "CONFIG_Y=y\nCONFIG_X2=y\n"}, {"off.cfg": "# CONFIG_Y is not set\n"}, weight=7)

    # a choice whose prompt is conditional, inside a menu
    kids = [
        Cfg("Y", "bool", prompt="y", defaults=[(L("y"), None)]),
        Menu(title="M", children=[Choice(name=None, prompt="c", prompt_cond=S("Y"), children=[Cfg("C1", "bool", prompt="c1"), Cfg("C2", "bool", prompt="c2")]), Cfg("B", "bool", prompt="b")]),
    ]
    T("conditional_choice_in_menu", kids, {}, {"absent": None, "hand": "CONFIG_C2=y\n"}, {"off.cfg": "# CONFIG_Y is not set\n"})

    # empty menus, menus whose children are all hidden, comments
    kids = [
        Menu(title="E", children=[]),
        Menu(title="H", children=[Cfg("HB", "bool", prompt="hb", prompt_cond=S("A"))]),
        Comment(text="cm"),
        Cfg("A", "bool", prompt="a"),
        Comment(text="cd", depends=[S("A")]),
    ]
    T("empty_menus_comments", kids, {}, {"absent": None, "hand": "CONFIG_A=y\nCONFIG_HB=y\n"}, {"off.cfg": "# CONFIG_A is not set\n"})

    # nested menus with `visible if` / `depends on` on an outside option (hidden by a load while inside)
    kids = [
        Cfg("A", "bool", prompt="a", defaults=[(L("y"), None)]),
        Menu(title="M", visible_if=[S("A")], children=[Cfg("B", "bool", prompt="b"), Menu(title="MM", depends=[S("B")], children=[Cfg("C", "int", prompt="c", defaults=[(L("1"), None)])])]),
    ]
    T("nested_menus_visible_if_depends", kids, {"int": ["3"]}, {"absent": None, "hand": "# CONFIG_A is not set\nCONFIG_B=y\n"}, {"off.cfg": "# CONFIG_A is not set\n", "boff.cfg": "# CONFIG_B is not set\n"})

    # options locked by select / by set
    x = Cfg("X", "bool", prompt="x")
    x.selects.append(("Y", None))
    kids = [x, Cfg("Y", "bool", prompt="y"), Cfg("Z", "bool", prompt="z", depends=[S("Y")])]
    T("locked_by_select", kids, {}, {"absent": None, "hand": "CONFIG_X=y\n# CONFIG_Y is not set\n"}, {"off.cfg": "# CONFIG_X is not set\n"})
    a = Cfg("A", "bool", prompt="a")
    a.sets.append(("N", L("7"), None))
    a.sets.append(("SS", L('"f"'), None))
    kids = [a, Cfg("N", "int", prompt="n", defaults=[(L("1"), None)]), Cfg("SS", "string", prompt="ss", defaults=[(L('"d"'), None)])]
    T("locked_by_set", kids, {"int": ["3"], "string": ["u"]}, {"absent": None, "hand": "CONFIG_A=y\nCONFIG_N=3\n"}, {"off.cfg": "# CONFIG_A is not set\n"})

    # ranges with symbol bounds that can be empty (one tree per type)
    kids = [
        Cfg("A", "bool", prompt="a"),
        Cfg("LO", "int", prompt="lo", prompt_cond=S("A")),
        Cfg("R", "int", prompt="r", ranges=[(S("LO"), L("9"), None)], defaults=[(L("3"), None)]),
    ]
    T("range_symbol_bounds_int", kids, {"int": ["4"]}, {"absent": None, "hand": "CONFIG_A=y\nCONFIG_LO=2\n"}, {"off.cfg": "# CONFIG_A is not set\n"}, weight=9)
    kids = [
        Cfg("A", "bool", prompt="a"),
        Cfg("HX", "hex", prompt="hx", prompt_cond=S("A")),
        Cfg("H", "hex", prompt="h", ranges=[(L("0x1"), S("HX"), None)], defaults=[(L("0x3"), None)]),
    ]
    T("range_symbol_bounds_hex", kids, {"hex": ["0x5"]}, {"absent": None, "hand": "CONFIG_A=y\nCONFIG_HX=0x20\n"}, {"off.cfg": "# CONFIG_A is not set\n"}, weight=9)
    kids = [
        Cfg("A", "bool", prompt="a"),
        Cfg("FH", "float", prompt="fh", prompt_cond=S("A")),
        Cfg("F", "float", prompt="f", ranges=[(L("0.5"), S("FH"), None)], defaults=[(L("1.5"), None)]),
    ]
    T("range_symbol_bounds_float", kids, {"float": ["2.5"]}, {"absent": None, "hand": "CONFIG_A=y\nCONFIG_FH=9.5\n"}, {"off.cfg": "# CONFIG_A is not set\n"}, weight=9)

    # several ranges on one option: a conditional one (can be switched off in the session) before the fallback range
    kids = [
        Cfg("A", "bool", prompt="a", defaults=[(L("y"), None)]),
        Cfg("R", "int", prompt="r", ranges=[(L("1"), L("6"), S("A")), (L("1"), L("64"), None)], defaults=[(L("4"), None)]),
        Cfg("H", "hex", prompt="h", ranges=[(L("0x1"), L("0x6"), Not(S("A"))), (L("0x1"), L("0x10"), None)], defaults=[(L("0x4"), None)]),
        Cfg("F", "float", prompt="f", ranges=[(L("0.5"), L("4.5"), S("A")), (L("0.5"), L("1000.5"), None)], defaults=[(L("1.5"), None)]),
    ]
    T("conditional_range_before_fallback", kids, {"int": ["7", "65"], "hex": ["0x7", "0x11"], "float": ["5.5"]}, {"absent": None, "hand": "# CONFIG_A is not set\n"}, {"off.cfg": "# CONFIG_A is not set\n"}, weight=9)

    # every scalar type with and without a range
    kids = [
        Cfg("I", "int", prompt="i", defaults=[(L("1"), None)]),
        Cfg("IR", "int", prompt="ir", ranges=[(L("-5"), L("100"), None)], defaults=[(L("2"), None)]),
        Cfg("ST", "string", prompt="st", defaults=[(L('"d"'), None)]),
    ]
    T("scalars_int_string", kids, {"int": ["7"], "string": ["v"]}, {"absent": None}, {}, weight=5)
    kids = [
        Cfg("H", "hex", prompt="h", defaults=[(L("0x1"), None)]),
        Cfg("HR", "hex", prompt="hr", ranges=[(L("0x0"), L("0xff"), None)], defaults=[(L("0x2"), None)]),
    ]
    T("scalars_hex", kids, {"hex": ["0x1f"]}, {"absent": None}, {}, weight=5)
    kids = [
        Cfg("F", "float", prompt="f", defaults=[(L("1.0"), None)]),
        Cfg("FR", "float", prompt="fr", ranges=[(L("-3.0"), L("2000.0"), None)], defaults=[(L("1.5"), None)]),
    ]
    T("scalars_float", kids, {"float": ["2.5"]}, {"absent": None}, {}, weight=5)

    kids = [
        Cfg("W", "bool", prompt="w", warning="danger"),
        Cfg("WI", "int", prompt="wi", warning="careful", defaults=[(L("1"), None)], depends=[S("W")]),
        Cfg("V", "bool", prompt="v", prompt_cond=Not(S("W"))),
    ]
    T("warning_options", kids, {"int": ["5"]}, {"absent": None, "hand": "CONFIG_W=y\nCONFIG_WI=4\n"}, {"off.cfg": "# CONFIG_W is not set\n"})

    # ---- symbols with SEVERAL definitions (sym.nodes has more than one entry, only one of them is a displayed row) ----
    def extra(name, typ="bool", **kw):
        """an additional promptless definition of `name` (carries a help text unless it carries another property)"""
        if not kw:
            kw = {"help": "shared"}
        return Cfg(name, typ, prompt=None, **kw)

    def members():
        return [Cfg("A", "bool", prompt="a"), Cfg("B", "bool", prompt="b"), Cfg("C", "bool", prompt="c")]

    # choice members with an extra definition OUTSIDE the menu that holds the choice: B before, C after
    kids = [
        extra("B"),
        Menu(title="M", children=[Choice(name="CH", prompt="ch", children=members()), Cfg("O", "bool", prompt="o")]),
        extra("C"),
    ]
    T("multidef_member_outside_menu", kids, {}, {"absent": None, "hand": "CONFIG_B=y\n"}, {"c.cfg": "CONFIG_C=y\n"}, weight=8)
    # ... with the extra definition in the same menu as the choice, beside it: B before, C after
    kids = [extra("B"), Choice(name=None, prompt="ch", children=members()), extra("C"), Cfg("O", "bool", prompt="o")]
    T("multidef_member_beside_choice", kids, {}, {"absent": None, "hand": "CONFIG_C=y\n"}, {"b.cfg": "CONFIG_B=y\n"}, weight=8)
    # ... with the extra (promptless) definition INSIDE the choice: B before its prompted definition, C after
    kids = [
        Choice(name="CH", prompt="ch", children=[extra("B"), *members(), extra("C")]),
        Cfg("O", "bool", prompt="o"),
    ]
    T("multidef_member_inside_choice", kids, {}, {"absent": None, "hand": "CONFIG_B=y\n"}, {"c.cfg": "CONFIG_C=y\n"}, weight=8)
    # ordinary options: O extra before/outside the menu, P (int) extra before/inside and after/outside, Q extra after/inside
    kids = [
        extra("O"),
        Menu(
            title="M",
            children=[
                extra("P", "int", defaults=[(L("2"), None)]),
                Cfg("O", "bool", prompt="o"),
                Cfg("P", "int", prompt="p"),
                Cfg("Q", "bool", prompt="q", depends=[S("O")]),
                extra("Q"),
            ],
        ),
        extra("P", "int"),
    ]
    T("multidef_options", kids, {"int": ["4"]}, {"absent": None, "hand": "CONFIG_O=y\nCONFIG_P=3\n"}, {"off.cfg": "# CONFIG_O is not set\n"}, weight=8)
    # a menuconfig option (its node is the current menu while inside) with extra definitions before and after, outside its menu
    kids = [
        extra("MC"),
        Menu(
            title="M",
            children=[
                Cfg("MC", "bool", prompt="mc", menuconfig=True),
                Cfg("K", "bool", prompt="k", depends=[S("MC")]),
                Cfg("J", "int", prompt="j", depends=[S("MC")], defaults=[(L("1"), None)]),
            ],
        ),
        extra("MC", defaults=[(L("y"), None)]),
    ]
    T("multidef_menuconfig", kids, {"int": ["4"]}, {"absent": None, "hand": "# CONFIG_MC is not set\n"}, {"off.cfg": "# CONFIG_MC is not set\n"}, weight=8)
    # an option with a prompt in two places (two displayed rows for one symbol, in different menus)
    kids = [
        Cfg("O", "bool", prompt="o"),
        Menu(title="M", children=[Cfg("O", "bool", prompt="o2"), Cfg("P", "int", prompt="p", defaults=[(L("1"), None)]), Cfg("Q", "bool", prompt="q", depends=[S("O")])]),
        Cfg("P", "int", prompt="p2"),
    ]
    T("multidef_two_prompts", kids, {"int": ["4"]}, {"absent": None, "hand": "CONFIG_O=y\nCONFIG_P=3\n"}, {"off.cfg": "# CONFIG_O is not set\n"}, weight=8)
    return out


def items(tier: str, seed: int):
    out = pairs(tier)
    out.sort(key=lambda it: -it.get("weight", 0))  # biggest searches first
    return out


def pairs(tier: str):
    depth = 4 if tier == "quick" else 5
    jump_prefix = 2 if tier == "quick" else 5
    info_prefix = 1 if tier == "quick" else 3
    out = []
    for t in trees():
        files = dict(kgen.render(t["prog"]))
        for name, text in t["loads"].items():
            files[name] = text
        loads = list(t["loads"]) + ["@missing"]
        for kind, text in t["sdks"].items():
            d = depth
            if t.get("depth_cap"):
                d = min(depth, t["depth_cap"] + (1 if tier != "quick" else 0))
            out.append(
                {
                    "tree": t["name"],
                    "sdk_kind": kind,
                    "spec": {"files": files, "sdk": text, "renames": None, "env": {}},
                    "typed": t["typed"],
                    "loads": loads,
                    "depth": d,
                    "jump_prefix": jump_prefix,
                    "info_prefix": info_prefix,
                    "weight": t.get("weight", 1),
                }
            )
    return out


# --------------------------------------------------------------------------------------------------
# observations and oracle
# --------------------------------------------------------------------------------------------------


def set_active(sym: Any) -> bool:
    from esp_kconfiglib.core import expr_value

    return any(expr_value(cond) for _v, cond, _src in getattr(sym, "rev_values", ()))


def row_obs(st: headless.Harness) -> Dict[str, Any]:
    """what the oracles need to know about the state BEFORE the next action (read after the state's own checks)"""
    from esp_kconfiglib.core import BOOL, Choice, Symbol

    rows = []
    for n in st.ml._menu_nodes:
        if n is None:
            rows.append(None)
            continue
        it = n.item
        if isinstance(it, Symbol):
            lock = None
            if set_active(it):
                lock = "set"
            elif it.orig_type == BOOL and tuple(it.assignable) == (2,) and it.choice is None:
                lock = "select"
            rows.append((st.nid(n), it.name, it.str_value, tuple(it.assignable), lock))
        elif isinstance(it, Choice):
            rows.append((st.nid(n), None, it.str_value, tuple(it.assignable), None))
        else:
            rows.append((st.nid(n), None, None, (), None))
    return {"cur_menu": st.nid(st.state.cur_menu), "rows": rows, "bad": tuple(k for k, _m in invariants(st))}


def invariants(st: headless.Harness) -> List[Tuple[str, str]]:
    """(b): violated consistency invariants of the session state, as (kind, message)"""
    out: List[Tuple[str, str]] = []
    state = st.state
    if state.shown:
        if not (0 <= state.sel_node_i < len(state.shown)):
            out.append(("sel_node_i_out_of_range", f"sel_node_i={state.sel_node_i} but {len(state.shown)} rows are shown"))
        want = state.shown_nodes(state.cur_menu)
        if [id(n) for n in want] != [id(n) for n in state.shown]:
            out.append(
                (
                    "shown_differs_from_shown_nodes",
                    f"state.shown is {[st.node_label(n) for n in state.shown]} but shown_nodes(cur_menu) gives {[st.node_label(n) for n in want]}",
                )
            )
    if not st.app.exited:
        rows = st.ml._menu_nodes
        back = [] if state.cur_menu is st.k.top_node else [None]
        if [id(n) for n in rows] != [id(n) for n in back + list(state.shown)]:
            out.append(
                (
                    "list_rows_out_of_sync",
                    f"the list widget shows {[st.node_label(n) for n in rows]} but the model's rows are {[st.node_label(n) for n in back + list(state.shown)]} (cur_menu {st.node_label(state.cur_menu)})",
                )
            )
        hl = st.ml.highlighted
        if rows and (hl is None or not (0 <= hl < len(rows))):
            out.append(("highlighted_row_missing", f"highlighted={hl} with {len(rows)} rows"))
    return out


def denotes(typ: str, got: str, v: str) -> bool:
    try:
        if typ == "string":
            return got == v
        if typ == "int":
            return int(got, 10) == int(v, 10)
        if typ == "hex":
            return int(got, 16) == int(v, 16)
        if typ == "float":
            a, b = float(got), float(v)
            return a == b or (math.isnan(a) and math.isnan(b))
    except ValueError:
        return False
    return True


def mk_case(item: Dict[str, Any], h: tuple) -> Dict[str, Any]:
    return c16.mk_case(item, h)


def last_key(h: tuple) -> str:
    a = h[-1]
    return a[2] if a[0] == "row" else a[1]


def oracle(item: Dict[str, Any], h: tuple, st: headless.Harness, pre: Optional[Dict[str, Any]], r: common.Result) -> None:
    from esp_kconfiglib.core import TYPE_TO_STR, Choice, Symbol

    r.evals += 1
    if st.empty:
        return
    state = st.state
    where = f"[{item['tree']} / {item['sdk_kind']}] after {headless.fmt_history(h) or 'start'}"
    act = headless.action_family(h[-1], st.last_target_kind) if h else "init"
    ctx = {"menu": st.last_menu_kind if h else "top", "target": (st.last_target_kind if act != "leave" else None) if h else None}
    if act in ("info_jump", "jump", "load", "show_all", "save", "quit"):
        ctx["menu"] = "-"  # these actions do not depend on the kind of menu they are issued from

    def viol(sig: Dict[str, Any], msg: str) -> None:
        r.violation(sig, f"{where}: {msg}", mk_case(item, h))

    # (b) highlighted row / displayed list: reported on the transition that breaks the invariant
    pre_bad = tuple(pre["bad"]) if pre is not None else ()
    prev = pre_bad[0] if pre_bad else "consistent"
    for kind, msg in invariants(st):
        if kind not in pre_bad:
            viol({"kind": kind, "action": act, **ctx}, msg)
    if not h or pre is None:
        return
    a = h[-1]
    key = last_key(h)
    # (c) leaving a menu (Left / Escape / Enter on "<-- Back" / Space on a choice member)
    pre_cur, post_cur = pre["cur_menu"], st.nid(state.cur_menu)
    if pre_cur != post_cur and key not in ("slash", "question_mark", "o") and pre_cur > 0:
        parent = state._parent_menu(st.nodes[pre_cur]) or st.k.top_node
        if st.nid(parent) == post_cur:
            r.count("menus_left")
            if not state.shown or not (0 <= state.sel_node_i < len(state.shown)) or st.nid(state.shown[state.sel_node_i]) != pre_cur:
                viol({"kind": "leave_menu_not_on_left_menu_row", "pre_state": prev, "action": act, **ctx}, "after leaving, the selected row is not the menu that was left")
    # (d) toggles apply members of assignable
    for name, val, asg, _before in st.setval_log:
        if val in ("n", "y"):
            val = {"n": 0, "y": 2}[val]
        if val in (0, 2) and asg is not None and val not in asg:
            viol({"kind": "toggle_outside_assignable", "pre_state": prev, "action": act, **ctx}, f"{name}: value {val} applied while assignable was {asg}")
    # (e) locked options keep their value when acted upon
    if a[0] == "row" and a[1] < len(pre["rows"]) and pre["rows"][a[1]] is not None:
        nid, name, before, asg, lock = pre["rows"][a[1]]
        if lock is not None:
            now = st.k.syms[name].str_value
            if now != before:
                viol({"kind": "locked_option_changed", "lock": lock, "pre_state": prev, "action": act, **ctx}, f"{name} is locked by `{lock}` but changed from {before!r} to {now!r}")
    # (f) validator accepted => value applied
    tgt = st.last_target
    if st.input_log and tgt is not None and isinstance(tgt.item, Symbol):
        sym = tgt.item
        typ = TYPE_TO_STR.get(sym.orig_type, "?")
        for v, accepted in st.input_log:
            r.count("typed_values")
            if not accepted:
                r.count("typed_values_rejected")
                continue
            got = sym.str_value
            if not denotes(typ, got, v):
                cls = value_class(typ, v)
                viol(
                    {"kind": "validator_accepted_value_not_applied", "type": typ, "value_class": cls, "ranged": bool(sym.ranges), "pre_state": prev},
                    f"check_valid accepted {v!r} for the {typ} option {sym.name} but its value is {got!r}",
                )
    r.outcome((item["tree"], item["sdk_kind"], st.canon()))


def value_class(typ: str, v: str) -> str:
    s = v.strip()
    if s.startswith("-"):
        return "negative"
    if s.startswith("+"):
        return "plus_sign"
    if "_" in s:
        return "underscore"
    if s.lower() in ("nan", "inf"):
        return s.lower()
    if v != s:
        return "whitespace"
    if typ == "float" and "e" in s.lower():
        return "exponent"
    return "plain"


def raised_violation(item: Dict[str, Any], h: tuple, e: headless.Raised, r: common.Result, pre: Optional[Dict[str, Any]] = None) -> None:
    pre_bad = tuple(pre["bad"]) if pre is not None else ()
    sig = {"kind": "exception", "exc": e.exc_type, "site": e.site, "pre_state": pre_bad[0] if pre_bad else "consistent"}
    if not pre_bad:
        # the session was consistent before the action: name the action and what it was aimed at
        sig["action"] = headless.action_family(e.action, e.ctx.get("target"))
        sig["target"] = e.ctx.get("target") if sig["action"] != "leave" else None
        sig["menu"] = e.ctx.get("menu")
    r.violation(sig, f"[{item['tree']} / {item['sdk_kind']}] {headless.fmt_history(h)}: {e}", mk_case(item, h))


def enabled_for(item: Dict[str, Any], h: tuple, st: headless.Harness) -> List[tuple]:
    return headless.enumerate_actions(st, item["typed"], item["loads"], full=True, jumps=len(h) < item["jump_prefix"], info=len(h) < item["info_prefix"])


def malformed_actions(st: headless.Harness) -> List[tuple]:
    from esp_kconfiglib.core import TYPE_TO_STR, Symbol

    out = []
    if st.empty or st.app.exited:
        return out
    for i, n in st.rows():
        if n is None or not isinstance(n.item, Symbol):
            continue
        vals = MALFORMED.get(TYPE_TO_STR.get(n.item.orig_type, ""), [])
        warn = [("kd", "y")] if n.item.warning else []
        for v in vals:
            out.append(("row", i, "enter", *warn, ("text", v)))
    return out


def explore_item(item: Dict[str, Any], r: common.Result, only_history: Any = None):
    spec = item["spec"]
    P, depth = (), item["depth"]
    memo: Dict[tuple, Dict[str, Any]] = {}
    expanding: Dict[tuple, bool] = {}
    swept: set = set()
    leaf_transitions = [0]

    def build(h):
        return headless.replay(spec, P + h)

    def enabled(h, st):
        expanding[h] = True
        return enabled_for(item, P + h, st)

    def canon(st):
        return st.canon()

    def on_raise(h, e):
        if not isinstance(e, headless.Raised):
            raise e
        r.evals += 1
        raised_violation(item, P + h, e, r, memo.get(h[:-1]) if h else None)

    def check(h, st):
        if h:
            pre = memo.get(h[:-1])
        else:
            pre = row_obs(headless.replay(spec, P[:-1], keep=True)) if P else None
        oracle(item, P + h, st, pre, r)
        if st.rejected:
            r.skipped += 1
            r.count("rejected_by_parser")
        if expanding.pop(h, False) and not st.empty:
            memo[h] = row_obs(st)
            # one further step: every malformed value into every scalar row.  What happens depends only on the values,
            # the menu and the rows shown (the action highlights its row itself), so states equal in that projection
            # are swept once.
            key = (st.user_key(), st.nid(st.state.cur_menu), st.state.show_all, tuple(st.nid(n) for n in st.state.shown))
            if key in swept:
                r.count("malformed_sweeps_skipped_as_equivalent")
                return
            swept.add(key)
            for a in malformed_actions(st):
                h2 = h + (a,)
                leaf_transitions[0] += 1
                try:
                    s2 = build(h2)
                except headless.Raised as e:
                    on_raise(h2, e)
                    continue
                oracle(item, P + h2, s2, memo[h], r)

    try:
        if only_history is not None:
            h = headless.norm_history(only_history)
            pre = None
            try:
                pre = row_obs(headless.replay(spec, h[:-1])) if h else None
                oracle(item, h, headless.replay(spec, h), pre, r)
            except headless.Raised as e:
                raised_violation(item, h, e, r, pre)
            return None
        try:
            st = explore.bfs(build, enabled, canon, check, depth, on_raise=on_raise)
        except headless.Raised as e:
            if P:
                return None  # reported by the root item of the pair
            raised_violation(item, (), e, r)
            return None
        r.states += st.states
        r.transitions += st.transitions + leaf_transitions[0]
        r.count("malformed_value_steps", leaf_transitions[0])
        return st
    finally:
        headless.close_all()


def run_item(item) -> common.Result:
    r = common.Result()
    r.programs = 1
    st = explore_item(item, r)
    r.sample = {
        "tree": item["tree"],
        "initial_sdkconfig": item["sdk_kind"],
        "program": item["spec"]["files"]["Kconfig"],
        "states": st.states if st else 0,
        "transitions": st.transitions if st else 0,
        "max_depth": st.max_depth if st else 0,
    }
    return r


def replay(case) -> List[dict]:
    if case.get("conformance"):
        _n, viols = c16.conformance_run(__name__, [case["item"]], 1, 0, 0, True, fixed=headless.norm_history(case["history"]))
        return viols
    r = common.Result()
    explore_item(case["item"], r, only_history=case["history"])
    return r.viols


def conformance(tier: str, seed: int):
    n = 5 if tier == "quick" else 100
    its = [it for it in pairs(tier) if not it["tree"].endswith("_inside")]
    return c16.conformance_run(__name__, its, n, seed, 4 if tier == "quick" else 5, True)

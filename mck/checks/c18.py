"""C18 -- kconfcheck leaves compliant files alone and its fixes converge.

E  every tree of a structure family (config / menuconfig / choice / menu / if / comment / source "Kconfig.<x>" / macro
   assignment; help texts with blank, deeper-indented and keyword-led lines; `\\` continuations; `#` comment lines and
   trailing `#` comments) is rendered so that it satisfies the documented format rules, once directly under `mainmenu`
   (entries at 4 spaces) and once as a sourced `Kconfig.body` (entries at 0 spaces); plus canonical sdkconfig.rename
   files.  NAMES AT THE DOCUMENTED LIMITS: Kconfig programs in which every defined name (config / menuconfig / choice /
   choice member) is exactly 50 and exactly 49 characters long, and programs whose sibling names share a prefix of
   exactly 3 characters; rename lines whose NEW name (plain and behind `!`) is exactly 50 / 49 characters long without
   the CONFIG_ prefix, whose OLD name is 50 / 51 characters long, and both at 50.
   ODD CHARACTERS IN THE TEXTS: a program with every kind of text (help lines, prompts of config / menuconfig / choice /
   menu / comment / mainmenu, string defaults, string literals in conditions, `#` comment lines, trailing `#` comments) and
   rename files with comment lines / trailing comments, in which a text carries -- between two of its characters -- one
   character of {VT, FF, FS, GS, RS, NEL, U+2028, U+2029 (where str.splitlines() cuts, an LF-oriented reader and the parsers do
   not); US, NBSP, U+3000 (white space for str.split() and the regex class of white space); U+200B, e-acute, DEL; a tabulator (quoted strings only:
   there it is data)}: every (text, character) alone, and every text of the file at once.
   STRING LITERALS NEXT TO TRAILING COMMENTS: programs in which EVERY expression line the name checker looks at (depends on of
   option / menu / comment / choice member, visible if, default .. if with 1 and 2 comparisons, select .. if, imply .. if,
   range .. if, prompt .. if of option and choice; plus `if`, a string default and a prompt) compares with string literals AND
   ends in a `#` comment (1 or 2 blanks before the `#`); the two literals of a program run over an alphabet of 17 (lengths
   0 .. 27; lower, mixed and upper case; blanks inside; decimal / hexadecimal / y / n; '#' inside; keywords; non-ASCII).
   KEYWORDS INSIDE TEXTS: programs in which prompts (config / menuconfig / choice / menu / comment / mainmenu, with and
   without `if`), string defaults, string literals of conditions, a trailing comment and help lines contain a Kconfig
   keyword as a word -- first, in the middle and LAST word of the quoted string, with further quoted strings following on
   the same line (a help line with two and three quoted phrases, a help line that begins with, ends in and consists of the
   keyword) -- for each of 27 keywords and 3 words that end in one (resource, submenu, reconfig).
   Every program of these two families is checked as it is (clause 1; both parsers read it alike); a few are mangled too.
   Every file (the one-text files of the odd-character family excepted) is then mangled at every single site and at every
   pair of sites (alphabet below) and by four global manglings.
   CONTROLS (one over a limit: names of 51 characters, common prefix of 2 characters, NEW rename names of 51 / 57 / 58
   characters) are not compliant and not whitespace-only defects: no verdict is demanded of them, only that
   validate_file returns (no exception) and that its return value agrees with the printed verdict.
O  canonical: validate_file() is True and prints "<path>: OK", with replace=True the bytes are unchanged, without
   replace no `*.new` remains.  mangled (and accepted by parser 1): <= 5 replace passes until OK, the pass that says OK
   is the identity, one more real pass is the identity again, and the fixed point parses under parser 1 and parser 2
   to the structural dump of the mangled input under parser 1 (an observable may instead return to the reading of the
   compliant file when the mangling itself had changed it, see ASSUMPTIONS).  Where the two parsers already read the
   COMPLIANT file differently (white-space-like characters inside quoted strings: property C04), each parser is judged
   against itself: parser 2 must read the fixed point as it read the mangled input (or the compliant file).
Violation signature: kind (+ exc/site/complaint/field) + mangling kind(s) + entry kind(s) of the mangled line(s) + reading
(+ odd: character class @ kind of text, for the files of the odd-character family).
"""

from __future__ import annotations

import itertools
import os
import re
import shutil
import traceback
from typing import Any, Dict, Iterator, List, Optional, Tuple

from .. import common, impl

ID = "C18"
LEVEL = "exploration"
RULE = (
    "FILES: every ordered forest over {config (6 flavours by rotation: help text with blank / deeper / keyword-led lines; "
    "`\\` continuation in the middle; 3-line continuation last; `#` comment lines + trailing `#` comment; plain; string with "
    "'#' and explicit prompt), menuconfig, comment, [ro]source of Kconfig.<x>, macro (first line of a block only), menu, if, "
    "choice (named; unnamed)} with N entries and nesting depth <= 3, rendered compliantly under `mainmenu` (entries at 4 "
    "blanks) and as a sourced Kconfig.body (entries at 0 blanks); every Kconfig* file of a program is a target. "
    "quick: N=1 in all 6 flavour rotations; N=2 (one rotation/position per forest); all container chains of depth 3 around an "
    "option and of depth 2 around a choice; each spelling of `source` after a help text; 3 dedicated programs ('#' in a quoted "
    "condition; unnamed choice / menu in an `if` after a single option); BOUNDARY NAMES: 2 forests (option + menuconfig + named "
    "choice with 2 members; menu with option + menuconfig + unnamed choice) x both positions x {all defined names exactly 50 "
    "characters, exactly 49, sibling names with a common prefix of exactly 3 characters, both} (quick: single sites and same-line "
    "pairs only, D=0; thorough D=1). thorough: N=1 in all rotations and both positions, N=2 in all rotations (positions alternating), all chains "
    "of depth 2 and 3 in both positions, all forests with N=3, and the single-rooted N=4 forests of depth >= 2 (one in eight, "
    "chosen by a stable hash). "
    "MANGLINGS per target: ALL single sites {indent +1..+4, -1..-4, 0, one tab per 4-blank unit, a leading tab, 1 and 2 "
    "trailing blanks, trailing tab, tab inside the first quoted string} x all lines; ALL pairs of sites (same line: different "
    "classes; different lines: at most D non-blank lines apart -- quick D=1; thorough D=3 for N=1, D=2 for N=2 and chains, "
    "D=1 for N>=3); the 4 global manglings (all indents doubled / halved / zeroed / as tabs). A mangled file that "
    "Kconfig(parser_version=1) rejects is outside the statement (skipped). RENAME FILES: all sequences of <= 2 (thorough 3) "
    "line kinds {comment, blank, plain, inverted, trailing comment, lowercase old name, wide separator, NEW name of 50 / 49 "
    "characters plain and inverted, OLD name of 50 / 51 characters, both names of 50 characters (lengths without CONFIG_)} "
    "(3 lines: at most one boundary-length kind) with the same site "
    "alphabet plus tab-as-separator, all singles and all pairs; skipped when load_rename_files rejects the mangled file. "
    "CONTROLS (no verdict demanded; must return, and return value == printed verdict): the boundary forests with names of 51 "
    "characters / a common prefix of 2 characters; rename files with a NEW name of 51, 57, 58 characters, alone and next to "
    "compliant lines. "
    "ODD CHARACTERS: 1 forest (options with help text / `#` comments / string with prompt, default and '#' / string literal in a "
    "condition, comment entry, menu with menuconfig and a named choice whose members have help texts) x both positions; text regions "
    "= every non-blank help line, every quoted string of >= 2 characters outside `source` lines (mainmenu / prompts / defaults / "
    "literals), every `#` comment line, every trailing `#` comment; the character replaces the first blank standing between two "
    "words of the region, else goes between its first two characters (never first / last in a line or string). Characters: VT FF FS "
    "GS RS NEL U+2028 U+2029 | US NBSP U+3000 | U+200B U+00E9 DEL | TAB (string regions only). (a) every (region, character) alone: "
    "clause 1 only (OK, bytes unchanged, no *.new; parser 1 accepts), both tiers; (b) every region at once, per character (quick: TAB "
    "FF NEL U+2028 NBSP U+00E9; thorough: all 15): clause 1 + all manglings as above (quick: single sites and same-line pairs, D=0; "
    "thorough D=1). Rename files: 6 line sequences with comment lines / trailing comments x 14 characters (no TAB) x {each comment "
    "alone, all at once}, all singles and pairs of manglings. Not generated: CR (a line end for every reader), escaped quotes and "
    "backslashes (parser 2 reads them differently / does not terminate on some: C04), odd characters in the leading / trailing white "
    "space of a line (then the indentation is not made of blanks). "
    "TEXT families (both positions): LIT = 17 literals x gap {1, 2 blanks before `#`}: the program's two literals are literal i and "
    "literal i+1 of (a, ab, uart, Uart, UART, 'usb serial jtag', 'x y', 1, 0x1f, y, n, a#b, if, 'config me', e-acute, 'a longer name in "
    "lower case', empty), on 17 expression lines with trailing comment; KW = 30 words (source rsource osource orsource config menuconfig menu "
    "endmenu choice endchoice if endif help default 'depends on' 'visible if' comment mainmenu prompt select imply range bool string option y n "
    "resource submenu reconfig) in 20 quoted strings and 5 help lines per program. All of them: clause 1 + parsers agree. Mangled (STAB not on "
    "help lines; keyword-led help lines replaced, see ASSUMPTIONS): quick LIT uart/2 blanks/main, 'usb serial jtag'/1 blank/sub, KW source/main, "
    "if/sub at D=0; thorough every literal and keyword at D=0 (gap, position alternating) and the four quick ones at D=1. Not generated: the bare "
    "word `if` between two words of a quoted DEFAULT value (parser 2 rejects it, known C04 class). "
    "distinct outcome = (program, target, reading of the mangled file same as canonical?, passes needed, fixed-point bytes, "
    "failure classes)."
)
ASSUMPTIONS = [
    "validate_file() is a function of (file name, file bytes): passes are memoised per worker on the bytes; every "
    "fixed point is additionally re-executed un-memoised once per work item (the 'one more pass')",
    "help text is compared after stripping trailing whitespace of each help line (removing it is the documented rule)",
    "a mangling can itself change what parser 1 reads (indentation is significant inside help texts, a tab is 8 columns "
    "for the parser, trailing blanks belong to a macro value): every observable of the fixed point has to keep the reading "
    "of the mangled input OR return to the reading of the compliant file it was made from; anything else is "
    "`meaning_changed`. The signature says whether the mangled file read like the compliant one (reading=canonical|shifted)",
    "kconfcheck output is captured by installing a capturing logger through esp_pylib's public EspLog.set_logger()",
    "a two-site violation whose failure class is already produced by one of its two sites alone is attributed to "
    "that single site and not reported as a new class (counter pair_subsumed_by_single)",
    "the 50-character limit counts the option name as written in a Kconfig file, i.e. without CONFIG_; in sdkconfig.rename "
    "files the same limit applies to the NEW name without its CONFIG_ prefix, and OLD names are bound by no length or case "
    "rule (kconfcheck/core.py: 'old names may not comply with the rules'); a common prefix of exactly 3 characters satisfies "
    "'at least 3 characters'. The line-length limit is not taken to its boundary (documentation: maximum 120, checker: "
    "shorter than 120)",
    "in the boundary-name programs only DEFINED names are stretched; condition symbols that are merely referenced keep the "
    "short base name (the length rule is about options, and a reference defines none)",
    "a character that str.splitlines() treats as a line boundary (VT FF FS GS RS NEL U+2028 U+2029), and any other non-ASCII / control "
    "character except CR and LF, in the middle of a help line, a quoted string or a comment is ordinary text: the documented format "
    "rules do not mention it, a file object iterated line by line and both parsers end lines at LF only. A tabulator between the quotes "
    "of a string is data (kconfcheck/core.py LINE_ERROR_RULES: 'a tab inside a quoted string is data'), anywhere else a format defect",
    "parser 2 reads white-space-like characters inside quoted strings differently from parser 1 already in the compliant file "
    "(str.split() tokeniser, recorded under C04): for the odd-character family this is counted (canonical_parsers_disagree(C04)), not "
    "alarmed, and the fixed point is compared per parser (parser 2 with parser 2's own reading of the mangled input / compliant file)",
    "a `#` outside quotes starts a comment on every kind of line (both parsers accept `depends on A = \"x\"  # c`), so a compliant file may "
    "carry one after any expression; what stands between two quotes (keywords, `#`, lower-case words, nothing at all) is data and no rule "
    "of the format speaks about it; a help line may contain any words and quoted phrases. Only `source \"..\"` at the BEGINNING of a help "
    "line is not generated (the line-based source rule cannot know it is help text)",
    "the mangled programs of the keyword family have no help line that BEGINS with the keyword: under-indenting such a line makes the "
    "checker take it for an entry (known finding C18-underindented-help-keyword-line; with `if` / `source` / `menu` in place of `config` the "
    "same root cause shows as a fixed point that a parser rejects). The unmangled programs keep those lines",
    "option names are referenced before/without definition (APP_*_D / APP_K* condition symbols) so that every node's "
    "conditions identify the blocks it sits in; parser 2 needs `mainmenu`, so mainmenu-less bodies are sourced files",
]

MAX_PASSES = 5

# ----------------------------------------------------------------------------------------------------------
# output capture
# ----------------------------------------------------------------------------------------------------------

_cap = None


def _capture():
    """Install (once per process) a logger that records what kconfcheck / kconfiglib print instead of printing."""
    global _cap
    if _cap is not None:
        return _cap
    from esp_pylib.logger import EspLog, EspLogBase

    class Capture(EspLogBase):
        def __init__(self):
            self.msgs: List[Tuple[str, str]] = []

        def _add(self, kind, args):
            if len(self.msgs) < 200:
                self.msgs.append((kind, " ".join(str(a) for a in args)))

        def print(self, *args, **kwargs):
            self._add("print", args)

        def err(self, *args, suggestion=None):
            self._add("err", args)

        def warn(self, *args, suggestion=None):
            self._add("warn", args)

        def note(self, *args):
            self._add("note", args)

        def hint(self, *args):
            self._add("hint", args)

        def debug(self, *args):
            pass

        def set_verbosity(self, mode):
            pass

        def progress_bar(self, *args, **kwargs):
            pass

    # Kconfig.__init__ tries to import the optional user module `kconfigfunctions` on every construction (a failing
    # path search of ~0.2 ms); an empty one gives the same behaviour without the search
    import sys
    import types

    if "kconfigfunctions" not in sys.modules and not os.environ.get("KCONFIG_FUNCTIONS"):
        m = types.ModuleType("kconfigfunctions")
        m.functions = {}
        sys.modules["kconfigfunctions"] = m
    _cap = Capture()
    _cap.install = lambda: EspLog.instance is _cap or EspLog.set_logger(_cap)
    _cap.install()
    return _cap


def worker_init():
    _capture()


# ----------------------------------------------------------------------------------------------------------
# structure family + compliant renderer (lines carry a label = entry kind of the line)
# ----------------------------------------------------------------------------------------------------------

CFG_FLAVOURS = ("help", "contmid", "contlast", "cmt", "plain", "str")
BOOL_FLAVOURS = ("help", "contlast", "cmt", "plain")  # choice members
LEAVES = ("cfg", "mcfg", "cmt", "src")
SRC_KW = ("source", "rsource", "osource", "orsource")


def forests(n: int, depth: int, in_choice: bool = False, first: bool = True) -> Iterator[tuple]:
    """all ordered forests with exactly n entries and container nesting <= depth"""
    if n == 0:
        yield ()
        return
    for k in range(1, n + 1):
        for node in _nodes(k, depth, in_choice, first):
            for rest in forests(n - k, depth, in_choice, False):
                yield (node,) + rest


def _nodes(k: int, depth: int, in_choice: bool, first: bool) -> Iterator[tuple]:
    if in_choice:
        if k == 1:
            yield ("cfg",)
        return
    if k == 1:
        for leaf in LEAVES:
            yield (leaf,)
        if first:
            yield ("mac",)  # a macro line is only unambiguous for the checker as first line of a block
        if depth > 0:
            yield ("menu", ())
            yield ("if", ())
    elif depth > 0:
        for ch in forests(k - 1, depth - 1, False, True):
            yield ("menu", ch)
            yield ("if", ch)
        for ch in forests(k - 1, depth - 1, True, True):
            yield ("choice", ch)
            if k <= 3:
                yield ("uchoice", ch)


def chains() -> Iterator[tuple]:
    """every container chain of depth 2 and 3 around one leaf (4 entries at most)"""
    conts = ("menu", "if")
    inner = [("cfg",), ("mcfg",), ("cmt",), ("src",), ("choice", (("cfg",),))]
    for d in (2, 3):
        for leaf in inner:
            nd = d - 1 if leaf[0] == "choice" else d
            for ws in itertools.product(conts, repeat=nd):
                node = leaf
                for w in reversed(ws):
                    node = (w, (node,))
                yield (node,)


def depth_of(forest: tuple) -> int:
    """container nesting depth"""
    return max([0] + [1 + depth_of(n[1]) for n in forest if len(n) > 1 and isinstance(n[1], tuple)])


def leaf_of(forest: tuple) -> str:
    n = forest[0]
    while len(n) > 1 and isinstance(n[1], tuple) and n[1] and n[0] != "choice":
        n = n[1][0]
    return n[0]


class Rend:
    def __init__(self, rot: int, namelen: int = 0, nmode: str = ""):
        self.rot = rot
        self.namelen = namelen  # > 0: every DEFINED name (config / menuconfig / choice line) has exactly this many characters
        self.nmode = nmode  # "p3": the names of one block have a common prefix of exactly 3 characters ("p2": 2, not compliant)
        self.lines: List[Tuple[str, str]] = []
        self.files: Dict[str, List[Tuple[str, str]]] = {}
        self.ncfg = 0
        self.nsrc = 0
        self.nother = 0

    def add(self, ind: int, text: str, label: str) -> None:
        self.lines.append(((" " * ind + text) if text else "", label))

    def blank(self) -> None:
        self.add(0, "", "blank")

    def nm(self, name: str) -> str:
        """the name an entry is DEFINED under (referenced-only condition symbols keep the short base name)"""
        if self.nmode and name[-1] in "13579":
            # APP_E0 / APPE1, APP_E0_0 / APPE0_1: siblings share exactly "APP"; "p2": AP_E0 / APE1 share exactly "AP"
            name = name.replace("_", "", 1)
        if self.nmode == "p2":
            name = name.replace("APP", "AP", 1)
        if self.namelen:
            name = name + "_" + "Z" * (self.namelen - len(name) - 1)
            assert len(name) == self.namelen
        return name

    # -- entries
    def cfg(self, ind: int, name: str, flavour: Optional[str] = None, kw: str = "config", member: bool = False) -> None:
        if flavour is None:
            fl = BOOL_FLAVOURS if member else CFG_FLAVOURS
            flavour = fl[(self.ncfg + self.rot) % len(fl)]
            self.ncfg += 1
        i2 = ind + 4
        dn = self.nm(name)
        if flavour == "help":
            self.add(ind, f"{kw} {dn}", kw)
            self.add(i2, f'bool "alpha {name}"', "prop")
            self.add(i2, f"default y if {name}_D", "prop")
            self.add(i2, "help", "help")
            self.add(i2 + 4, "First line of the help.", "help.first")
            self.add(0, "", "help.blank")
            self.add(i2 + 4, "second paragraph", "help.text")
            self.add(i2 + 6, "deeper line", "help.deep")
            self.add(i2 + 4, "config keyword in the help", "help.kw")
        elif flavour == "contmid":
            self.add(ind, f"{kw} {dn}", kw)
            self.add(i2, f'int "count {name}"', "prop")
            self.add(i2, "range 1 \\", "prop.bs")
            self.add(i2 + 4, "9", "cont")
            self.add(i2, "default 3", "prop")
        elif flavour == "contlast":
            self.add(ind, f"{kw} {dn}", kw)
            self.add(i2, f'bool "flag {name}"', "prop")
            self.add(i2, f"default y if {name}_D1 || \\", "prop.bs")
            self.add(i2 + 4, f"{name}_D2 || \\", "cont.bs")
            self.add(i2 + 4, f"{name}_D3", "cont")
        elif flavour == "cmt":
            self.add(ind, f"# note about {name}", "hash")
            self.add(ind, f"{kw} {dn}", kw)
            self.add(i2, f'bool "note {name}" # trailing remark', "prop.hash")
            self.add(i2, "# inner remark", "hash")
            self.add(i2, "default n", "prop")
        elif flavour == "plain":
            self.add(ind, f"{kw} {dn}", kw)
            self.add(i2, f'bool "plain {name}"', "prop")
        elif flavour == "str":
            self.add(ind, f"{kw} {dn}", kw)
            self.add(i2, "string", "prop")
            self.add(i2, f'prompt "text {name}" if {name}_D', "prop")
            self.add(i2, 'default "v#1 x"', "prop")
        elif flavour == "strhash":
            self.add(ind, f"{kw} {dn}", kw)
            self.add(i2, f'string "text {name}"', "prop")
            self.add(i2, f'default "w x" if {name}_D = "a#b"', "prop")
        elif flavour == "mhelp":
            self.add(ind, f"{kw} {dn}", kw)
            self.add(i2, f'bool "group {name}"', "prop")
            self.add(i2, "help", "help")
            self.add(i2 + 4, "Group help.", "help.first")
        else:
            raise ValueError(flavour)
        self.blank()

    def node(self, node: tuple, ind: int, name: str, member: bool = False) -> None:
        k = node[0]
        if k == "cfg":
            self.cfg(ind, name, node[1] if len(node) > 1 else None, member=member)
        elif k == "mcfg":
            self.cfg(ind, name, "mhelp", "menuconfig")
        elif k == "cmt":
            self.add(ind, f'comment "remark {name}"', "comment")
            if (self.nother + self.rot) % 3 != 2:
                self.add(ind + 4, f"depends on {name}_D", "prop")
            self.nother += 1
            self.blank()
        elif k == "src":
            kw = SRC_KW[(self.nsrc + self.rot) % 4]
            fn = f"Kconfig.s{self.nsrc}"
            self.nsrc += 1
            self.add(ind, f'{kw} "{fn}"', "source")
            self.blank()
            if kw in ("source", "rsource") or self.nsrc % 2 == 1:  # o*source may name a missing file
                self.files[fn] = [(f"config {name}_S", "config"), (f'    bool "sub {name}"', "prop")]
        elif k == "mac":
            self.add(ind, f"{name}_V = 7", "macro")
            self.blank()
        elif k == "menu":
            self.add(ind, f'menu "Menu {name}"', "menu")
            if (self.nother + self.rot) % 2 == 0:
                self.add(ind + 4, f"depends on {name}_K", "prop")
                self.add(ind + 4, f"visible if {name}_W", "prop")
            self.nother += 1
            self.blank()
            self.children(node[1], ind + 4, name)
            self.add(ind, "endmenu", "endmenu")
            self.blank()
        elif k == "if":
            if (self.nother + self.rot) % 3 == 1:
                self.add(ind, f"if {name}_K && \\", "if.bs")
                self.add(ind + 4, f"{name}_L", "cont")
            else:
                self.add(ind, f"if {name}_K", "if")
            self.nother += 1
            self.blank()
            self.children(node[1], ind + 4, name)
            self.add(ind, "endif", "endif")
            self.blank()
        elif k in ("choice", "uchoice"):
            if k == "choice":
                self.add(ind, f"choice {self.nm(name)}", "choice")
            else:
                self.add(ind, "choice", "choice")
            self.add(ind + 4, f'prompt "pick {name}" if {name}_K', "prop")
            self.add(ind + 4, f"default {self.nm(name + '_0')}", "prop")
            if (self.nother + self.rot) % 2 == 0:
                self.add(ind + 4, "help", "help")
                self.add(ind + 8, "Choice help.", "help.first")
            self.nother += 1
            self.blank()
            self.children(node[1], ind + 4, name, member=True)
            self.add(ind, "endchoice", "endchoice")
            self.blank()
        else:
            raise ValueError(k)

    def children(self, forest: tuple, ind: int, prefix: str, member: bool = False) -> None:
        for i, ch in enumerate(forest):
            self.node(ch, ind, f"{prefix}_{i}", member)


def _finish(lines: List[Tuple[str, str]]) -> List[Tuple[str, str]]:
    while lines and lines[-1][0] == "":
        lines = lines[:-1]
    return lines


def render_program(forest: tuple, rot: int, pos: str, namelen: int = 0, nmode: str = "") -> Dict[str, List[Tuple[str, str]]]:
    """-> {file name: [(line, label)]}; root is "Kconfig" """
    r = Rend(rot, namelen, nmode)
    if pos == "main":
        r.add(0, 'mainmenu "Top"', "mainmenu")
        r.blank()
        for i, ch in enumerate(forest):
            r.node(ch, 4, f"APP_E{i}")
        files = {"Kconfig": _finish(r.lines)}
    else:
        for i, ch in enumerate(forest):
            r.node(ch, 0, f"APP_E{i}")
        files = {
            "Kconfig": [('mainmenu "Top"', "mainmenu"), ("", "blank"), ('    source "Kconfig.body"', "source")],
            "Kconfig.body": _finish(r.lines),
        }
    for fn, ls in r.files.items():
        files[fn] = ls
    return files


def render_spec(spec: Dict[str, Any]) -> Dict[str, List[Tuple[str, str]]]:
    if spec.get("text"):
        return render_text(spec)
    files = render_program(spec["forest"], spec["rot"], spec["pos"], spec.get("namelen", 0), spec.get("nmode", ""))
    odd = spec.get("odd")
    if odd:
        t = odd_target(spec)
        files[t] = odd_render(files[t], odd["ch"], odd["site"], "kconfig")
    return files


# ----------------------------------------------------------------------------------------------------------
# odd characters inside the TEXTS of a compliant file (help lines, quoted strings, comments)
# ----------------------------------------------------------------------------------------------------------

# characters at which str.splitlines() cuts but which neither a '\n'-oriented reader nor the Kconfig parsers take for a
# line end: VT, FF, FS, GS, RS, NEL, LINE SEPARATOR, PARAGRAPH SEPARATOR
SEP_CHARS = ("\x0b", "\x0c", "\x1c", "\x1d", "\x1e", "\x85", "\u2028", "\u2029")
# neighbours: white space for str.split() / `\s` but no line boundary (US, NBSP, IDEOGRAPHIC SPACE), invisible / non-ASCII /
# control characters that are no white space at all (ZERO WIDTH SPACE, e-acute, DEL)
NEIGH_CHARS = ("\x1f", "\xa0", "\u3000", "\u200b", "\xe9", "\x7f")
# a tabulator is data inside a quoted string (and a format defect anywhere else): string sites only
STR_ONLY_CHARS = ("\t",)
ODD_CHARS = STR_ONLY_CHARS + SEP_CHARS + NEIGH_CHARS
ODD_MANGLED_QUICK = ("\t", "\x0c", "\x85", "\u2028", "\xa0", "\xe9")
ODD_FORESTS = (
    (
        ("cfg", "help"), ("cfg", "cmt"), ("cfg", "str"), ("cmt",),
        ("menu", (("cfg", "strhash"), ("mcfg",), ("choice", (("cfg", "plain"), ("cfg", "help"))))),
    ),
)  # fmt: skip


def odd_class(ch: str) -> str:
    if ch == "\t":
        return "tab_in_string"
    if ch in SEP_CHARS:
        return "splitlines_boundary_char"
    return "whitespace_like_char" if ch.isspace() else "non_ascii_or_control_char"


def odd_name(ch: str) -> str:
    return "TAB" if ch == "\t" else f"U+{ord(ch):04X}"


def odd_target(spec: Dict[str, Any]) -> str:
    return "Kconfig" if spec["pos"] == "main" else "Kconfig.body"


_RE_QSTR = re.compile(r'"([^"]*)"')


def odd_sites(lines: List[Tuple[str, str]], family: str) -> List[Tuple[int, int, int, str]]:
    """the text regions of a compliant file: (line, start, end, kind); kind: help | comment_line | trailing_comment | string"""
    out = []
    for li, (line, label) in enumerate(lines):
        if not line.strip():
            continue
        if label.startswith("help.") and label != "help.blank":
            out.append((li, len(line) - len(line.lstrip(" ")), len(line), "help"))
        elif label in ("hash", "rename.comment"):
            out.append((li, line.index("#") + 2, len(line), "comment_line"))
        elif label == "source" or family == "rename" and label != "rename.trailing_comment":
            continue  # file names and option names are no texts
        else:
            code_end = len(line)
            if label in ("prop.hash", "rename.trailing_comment"):
                code_end = line.index(" # ")
                out.append((li, code_end + 3, len(line), "trailing_comment"))
            for m in _RE_QSTR.finditer(line, 0, code_end):
                if m.end(1) - m.start(1) >= 2:
                    out.append((li, m.start(1), m.end(1), "string"))
    return out


def odd_put(line: str, start: int, end: int, ch: str) -> str:
    """the character in the MIDDLE of the region: instead of the first blank that stands between two words, else between
    the first two characters (never first / last character of a line or of a string)"""
    for i in range(start + 1, end - 1):
        if line[i] == " " and line[i - 1] != " " and line[i + 1] != " ":
            return line[:i] + ch + line[i + 1 :]
    assert end - start >= 2
    return line[: start + 1] + ch + line[start + 1 :]


def odd_render(lines: List[Tuple[str, str]], ch: str, site: int, family: str) -> List[Tuple[str, str]]:
    """site >= 0: that text region carries the character; site == -1: every text region does (a tabulator: every string)"""
    out = list(lines)
    sites = odd_sites(lines, family)
    # right to left, so that the columns of the regions further left on the same line stay valid
    for k in sorted(range(len(sites)), key=lambda k: (sites[k][0], -sites[k][1])):
        li, a, b, kind = sites[k]
        if site not in (-1, k) or (ch in STR_ONLY_CHARS and kind != "string"):
            continue
        out[li] = (odd_put(out[li][0], a, b, ch), out[li][1])
    return out


def odd_single_specs() -> List[Dict[str, Any]]:
    """every (text region, character): compliant files that are only checked as they are (clause 1)"""
    out = []
    for f in ODD_FORESTS:
        for pos in ("main", "sub"):
            base = {"forest": f, "rot": 0, "pos": pos, "D": 0, "tag": "odd1"}
            sites = odd_sites(render_spec(base)[odd_target(base)], "kconfig")
            for k, (_li, _a, _b, kind) in enumerate(sites):
                for ch in ODD_CHARS:
                    if ch in STR_ONLY_CHARS and kind != "string":
                        continue
                    out.append(dict(base, odd={"ch": ch, "site": k, "kind": kind}))
    return out


# ----------------------------------------------------------------------------------------------------------
# TEXT families: compliant programs whose TEXTS are the varied dimension
#   "lit": every expression line the name checker looks at (depends on / visible if / default .. if / select .. if /
#          imply .. if / range .. if / prompt .. if; plus `if`) compares with string literals AND ends in a `#` comment
#   "kw":  prompts, string defaults, string literals and help lines contain a Kconfig keyword as a word, at the start,
#          in the middle and at the END of the quoted string, followed by further quoted strings on the same line
# ----------------------------------------------------------------------------------------------------------

# string literals: lengths 1 .. 24, lower / mixed / upper case, blanks inside, numbers, y / n, '#' inside, keywords
TEXT_LITS = ("a", "ab", "uart", "Uart", "UART", "usb serial jtag", "x y", "1", "0x1f", "y", "n", "a#b", "if", "config me",
             "e\xe9", "a longer name in lower case", "")  # fmt: skip
TEXT_GAPS = (" ", "  ")  # between the code and the `#` of the trailing comment
TEXT_KWS = ("source", "rsource", "osource", "orsource", "config", "menuconfig", "menu", "endmenu", "choice", "endchoice", "if", "endif",
            "help", "default", "depends on", "visible if", "comment", "mainmenu", "prompt", "select", "imply", "range", "bool", "string",
            "option", "y", "n",
            # words that END in a keyword
            "resource", "submenu", "reconfig")  # fmt: skip


def render_text(spec: Dict[str, Any]) -> Dict[str, List[Tuple[str, str]]]:
    t = spec["text"]
    r = Rend(0)
    b = 4 if spec["pos"] == "main" else 0
    if t["fam"] == "qs":
        _text_qs(r, b, t["i"])
        top = 'mainmenu "Top"'
    elif t["fam"] == "lit":
        _text_lit(r, b, TEXT_LITS[t["i"]], TEXT_LITS[(t["i"] + 1) % len(TEXT_LITS)], TEXT_GAPS[t["gap"]])
        top = 'mainmenu "Top"'
    else:
        kw = TEXT_KWS[t["i"]]
        _text_kw(r, b, kw, t.get("lead", 1))
        top = f'mainmenu "Top of the {kw}"'
    if spec["pos"] == "main":
        return {"Kconfig": [(top, "mainmenu"), ("", "blank")] + _finish(r.lines)}
    return {
        "Kconfig": [('mainmenu "Top"', "mainmenu"), ("", "blank"), ('    source "Kconfig.body"', "source")],
        "Kconfig.body": _finish(r.lines),
    }


def _text_lit(r: Rend, b: int, a: str, c: str, g: str) -> None:
    """a, c: two string literals; g: the gap before the `#` of a trailing comment"""
    P = "prop.lit.hash"  # a property line with string literal(s) and a trailing comment

    def pw(t: str, x: str) -> str:
        """prompt text + literal (an empty literal adds nothing: no doubled / trailing blank inside a prompt, see C04)"""
        return f"{t} {x}" if x else t

    r.add(b, "config APP_LBACK", "config")
    r.add(b + 4, 'string "Backend name"', "prop")
    r.add(b + 4, f'default "{a}"', "prop")
    r.blank()
    r.add(b, "config APP_LMODE", "config")
    r.add(b + 4, 'string "Mode name"', "prop")
    r.add(b + 4, f'default "{c}"{g}# the usual one', P)
    r.blank()
    r.add(b, "config APP_LCOLOR", "config")
    r.add(b + 4, 'bool "Colored output"', "prop")
    r.add(b + 4, f'depends on APP_LBACK = "{a}"{g}# only the serial console understands escape codes', P)
    r.add(b + 4, f'default y if APP_LBACK = "{a}" || APP_LMODE = "{c}"{g}# cheap on these backends', P)
    r.add(b + 4, "default n", "prop")
    r.add(b + 4, f'select APP_LHELPER if APP_LBACK = "{a}"{g}# needs the helper', P)
    r.add(b + 4, f'imply APP_LEXTRA if APP_LMODE != "{c}"{g}# nice to have', P)
    r.add(b + 4, "help", "help")
    r.add(b + 8, "Help of the coloured output.", "help.first")
    r.blank()
    r.add(b, "config APP_LHELPER", "config")
    r.add(b + 4, "bool", "prop")
    r.blank()
    r.add(b, "config APP_LEXTRA", "config")
    r.add(b + 4, 'bool "Extra"', "prop")
    r.blank()
    r.add(b, "config APP_LCOUNT", "config")
    r.add(b + 4, 'int "Count"', "prop")
    r.add(b + 4, f'range 1 9 if APP_LBACK = "{a}"{g}# small on this backend', P)
    r.add(b + 4, "range 1 99", "prop")
    r.add(b + 4, f'default 5 if APP_LBACK = "{a}" && APP_LMODE = "{c}"{g}# both', P)
    r.add(b + 4, "default 3", "prop")
    r.blank()
    r.add(b, "config APP_LNAME", "config")
    r.add(b + 4, "string", "prop")
    r.add(b + 4, f'prompt "{pw("Name of the", c)}" if APP_LBACK = "{a}"{g}# prompt with a condition', P)
    r.add(b + 4, f'default "{c}" if APP_LBACK = "{a}"{g}# value and literal', P)
    r.add(b + 4, f'default "{a}"', "prop")
    r.blank()
    r.add(b, f'menu "{pw("Menu", a)}"', "menu")
    r.add(b + 4, f'depends on APP_LBACK = "{a}"{g}# menu dependency', P)
    r.add(b + 4, f'visible if APP_LMODE = "{c}"{g}# menu visibility', P)
    r.blank()
    r.add(b + 4, "config APP_LINNER", "config")
    r.add(b + 8, f'bool "{pw("Inner", c)}"{g}# prompt and comment', "prop.hash")
    r.blank()
    r.add(b + 4, "choice APP_LPICK", "choice")
    r.add(b + 8, f'prompt "{pw("Pick", c)}" if APP_LBACK = "{a}"{g}# conditional prompt of a choice', P)
    r.add(b + 8, f'default APP_LPICK_A if APP_LMODE = "{c}"{g}# default member', P)
    r.add(b + 8, "default APP_LPICK_B", "prop")
    r.blank()
    r.add(b + 8, "config APP_LPICK_A", "config")
    r.add(b + 12, 'bool "A"', "prop")
    r.blank()
    r.add(b + 8, "config APP_LPICK_B", "config")
    r.add(b + 12, 'bool "B"', "prop")
    r.add(b + 12, f'depends on APP_LBACK != "{a}"{g}# member dependency', P)
    r.blank()
    r.add(b + 4, "endchoice", "endchoice")
    r.blank()
    r.add(b, "endmenu", "endmenu")
    r.blank()
    r.add(b, f'comment "{pw("remark", a)}"', "comment")
    r.add(b + 4, f'depends on APP_LBACK = "{a}" && APP_LMODE != "{c}"{g}# dependency of a comment', P)
    r.blank()
    r.add(b, f'if APP_LBACK = "{a}"{g}# block condition', "if.lit.hash")
    r.blank()
    r.add(b + 4, "config APP_LCOND", "config")
    r.add(b + 8, 'bool "cond"', "prop")
    r.blank()
    r.add(b, "endif", "endif")
    r.blank()


def _text_kw(r: Rend, b: int, kw: str, lead: int = 1) -> None:
    """lead=0: no help line BEGINS with the keyword (the programs that are mangled: an under-indented help line that begins
    with a keyword is taken for an entry, known finding C18-underindented-help-keyword-line)"""
    S = "prop.kwstr"  # a property line with quoted strings that contain the keyword
    H = "help.kwtext"
    r.add(b, "config APP_KMODE", "config")
    r.add(b + 4, 'string "Clock mode"', "prop")
    r.add(b + 4, 'default "auto"', "prop")
    r.blank()
    r.add(b, f'comment "clock {kw} selection"', "comment.kwstr")
    r.blank()
    r.add(b, f'comment "{kw} selection"', "comment.kwstr")
    r.add(b + 4, f'depends on APP_KMODE != "{kw}"', S)
    r.blank()
    r.add(b, f'comment "the {kw}"', "comment.kwstr")
    r.add(b + 4, f'depends on APP_KMODE = "clock {kw}" || APP_KMODE = "manual"', S)
    r.blank()
    r.add(b, "config APP_KEXT", "config")
    r.add(b + 4, f'bool "Use an external clock {kw}"', S)
    r.add(b + 4, "default n", "prop")
    r.blank()
    r.add(b, "config APP_KNAME", "config")
    r.add(b + 4, f'string "Name of the clock {kw}" if APP_KMODE = "manual"', S)
    r.add(b + 4, f'default "xtal {kw}" if APP_KMODE = "{kw}"', S)
    r.add(b + 4, f'default "{kw}"', S)
    r.add(b + 4, "help", "help")
    r.add(b + 8, f'Name of the oscillator that is used as "clock {kw}" when the mode is "manual".', "help.first")
    r.add(b + 8, (f"{kw} as the first word" if lead else f"The word {kw} in the middle") + f' of a help line, and "{kw}" "quoted" twice.', H)
    r.add(b + 8, f"This line ends in the word {kw}", H)
    r.blank()
    r.add(b, "config APP_KSTART", "config")
    r.add(b + 4, "string", "prop")
    r.add(b + 4, f'prompt "{kw} leads the prompt" if APP_KMODE != "{kw} x"', S)
    # not generated: the bare word `if` BETWEEN two words of a quoted default value (parser 2 rejects it: recorded under C04)
    first = kw if kw.endswith(" if") else f"{kw} first"
    r.add(b + 4, f'default "{first}" if APP_KMODE = "a" || APP_KMODE = "b {kw}"', S)
    r.add(b + 4, f'default "second {kw}"  # the {kw} "again" and "again"', S + ".hash")
    r.blank()
    r.add(b, f'menu "Menu about the {kw}"', "menu.kwstr")
    r.add(b + 4, f'visible if APP_KMODE = "clock {kw}" || APP_KMODE = "other"', S)
    r.blank()
    r.add(b + 4, "choice APP_KPICK", "choice")
    r.add(b + 8, f'prompt "Pick the {kw}" if APP_KMODE = "manual"', S)
    r.add(b + 8, "default APP_KPICK_A", "prop")
    r.add(b + 8, "help", "help")
    r.add(b + 12, f'The "{kw}" is chosen here, "manual" or "auto".', "help.first")
    r.blank()
    r.add(b + 8, "config APP_KPICK_A", "config")
    r.add(b + 12, f'bool "A {kw}"', S)
    r.blank()
    r.add(b + 8, "config APP_KPICK_B", "config")
    r.add(b + 12, f'bool "{kw} B"', S)
    r.blank()
    r.add(b + 4, "endchoice", "endchoice")
    r.blank()
    r.add(b, "endmenu", "endmenu")
    r.blank()
    r.add(b, "menuconfig APP_KGROUP", "menuconfig")
    r.add(b + 4, f'bool "Group of the {kw}"', S)
    r.add(b + 4, "help", "help")
    r.add(b + 8, f"{kw}" if lead else f"Only {kw}", "help.first")
    r.blank()


# family "qs": quoted texts whose INSIDE looks like Kconfig syntax -- every sequence of 1..3 words over QS_WORDS joined by one
# blank (` if ` between words, ` && `, `depends on`, ` # `, lower-case words, `!x`, `(a)`, `=`) -- as the value of a
# conditional default, as a conditional prompt (both spellings) and as a literal in depends on / select / imply conditions,
# each followed by a REAL condition.  Not generated (the unchanged library refuses them, see findings/C18-if-inside-quoted-*):
# an unconditional `default "a if b"` and a literal "a if b" in the condition of a default / range line.
QS_WORDS = ("sleep", "if", "&&", "depends on", "#", "IDLE", "!x", "(a)", "=")
QS_TEXTS = tuple(" ".join(c) for n in (1, 2, 3) for c in itertools.product(QS_WORDS, repeat=n))
QS_PER_FILE = 27


def _text_qs(r: Rend, b: int, i: int) -> None:
    r.add(b, "config APP_QEN", "config")
    r.add(b + 4, 'bool "Enable"', "prop")
    r.blank()
    r.add(b, "config APP_QH", "config")
    r.add(b + 4, 'bool "Helper"', "prop")
    r.blank()
    r.add(b, "config APP_QMODE", "config")
    r.add(b + 4, 'string "Mode"', "prop")
    r.add(b + 4, 'default "a"', "prop")
    r.blank()
    for j, t in enumerate(QS_TEXTS[i * QS_PER_FILE : (i + 1) * QS_PER_FILE]):
        r.add(b, f"config APP_Q{j}_VALUE", "config")
        r.add(b + 4, 'string "Value"', "prop")
        r.add(b + 4, f'default "{t}" if APP_QEN', "prop.qs.default_value_if")
        r.add(b + 4, f'default "{t}" if APP_QEN && !APP_QH  # the second one', "prop.qs.default_value_if.hash")
        r.add(b + 4, 'default "run"', "prop")
        r.blank()
        r.add(b, f"config APP_Q{j}_PROMPT", "config")
        r.add(b + 4, f'string "Name {t}" if APP_QEN', "prop.qs.type_prompt_if")
        r.add(b + 4, 'default "x"', "prop")
        r.blank()
        r.add(b, f"config APP_Q{j}_PROMPT2", "config")
        r.add(b + 4, "string", "prop")
        r.add(b + 4, f'prompt "{t} name" if APP_QEN || APP_QH', "prop.qs.prompt_if")
        r.blank()
        r.add(b, f"config APP_Q{j}_DEP", "config")
        r.add(b + 4, 'bool "Dependent"', "prop")
        r.add(b + 4, f'depends on APP_QMODE = "{t}"', "prop.qs.depends_literal")
        r.add(b + 4, f'select APP_QH if APP_QMODE = "{t}"', "prop.qs.select_literal")
        r.add(b + 4, f'imply APP_QH if APP_QMODE != "{t}" && APP_QEN', "prop.qs.imply_literal")
        r.blank()


def text_specs(tier: str) -> List[Dict[str, Any]]:
    """every program of the TEXT families (checked as it is: clause 1, and that both parsers read it alike)"""
    out = []
    for pos in ("main", "sub"):
        for i in range(len(TEXT_LITS)):
            for gap in range(len(TEXT_GAPS)):
                out.append({"forest": (("textlit",),), "rot": 0, "pos": pos, "D": 0, "tag": "text", "text": {"fam": "lit", "i": i, "gap": gap}})
        for i in range(len(TEXT_KWS)):
            out.append({"forest": (("textkw",),), "rot": 0, "pos": pos, "D": 0, "tag": "text", "text": {"fam": "kw", "i": i}})
        for i in range((len(QS_TEXTS) + QS_PER_FILE - 1) // QS_PER_FILE):
            out.append({"forest": (("textqs",),), "rot": 0, "pos": pos, "D": 0, "tag": "text", "text": {"fam": "qs", "i": i}})
    return out


def text_of(lines: List[Tuple[str, str]]) -> str:
    return "".join(l + "\n" for l, _ in lines)


NAME_MAX = 50  # "The maximum length of options is 50 characters."
PREFIX_MIN = 3  # "The prefix currently should have at least 3 characters."
BOUND_FORESTS = (
    (("cfg", "plain"), ("mcfg",), ("choice", (("cfg", "plain"), ("cfg", "help")))),
    (("menu", (("cfg", "help"), ("mcfg",), ("uchoice", (("cfg", "plain"), ("cfg", "plain"))))),),
)


def control_specs() -> List[Dict[str, Any]]:
    """files that break exactly one documented limit on names by one (NOT compliant: outside the statement; see check_control)"""
    out = []
    for f in BOUND_FORESTS:
        for pos in ("main", "sub"):
            for namelen, nmode in ((NAME_MAX + 1, ""), (0, "p2")):
                out.append({"forest": f, "rot": 0, "pos": pos, "D": 0, "tag": "control", "namelen": namelen, "nmode": nmode})
    return out


def programs(tier: str) -> List[Dict[str, Any]]:
    """the complete family for the tier, as specs (forest, rot, pos, D)"""
    out: List[Dict[str, Any]] = []
    seen = set()

    def emit(forest, rot, pos, dist, tag, namelen=0, nmode="", odd=None, text=None):
        spec = {"forest": forest, "rot": rot, "pos": pos, "D": dist, "tag": tag}
        if text:
            spec["text"] = text
        if namelen:
            spec["namelen"] = namelen
        if nmode:
            spec["nmode"] = nmode
        if odd:
            spec["odd"] = odd
        files = render_spec(spec)
        key = common.h64(sorted((k, text_of(v)) for k, v in files.items()))
        if key in seen:
            return
        seen.add(key)
        out.append(spec)

    nfl = len(CFG_FLAVOURS)

    def hrot(f):
        return common.h64(repr(f)) % nfl

    def hpos(f):
        return ("main", "sub")[common.h64(repr(f) + "p") % 2]

    thorough = tier == "thorough"
    for f in forests(1, 3):
        for rot in range(nfl):
            for pos in ("main", "sub") if thorough else (("main", "sub")[(rot + common.h64(repr(f))) % 2],):
                emit(f, rot, pos, 3 if thorough else 1, "n1")
    for f in forests(2, 3):
        for rot in range(nfl) if thorough else (hrot(f),):
            # one position per (forest, rotation); the rotation used by the quick tier keeps the quick tier's position
            pos = ("main", "sub")[(("main", "sub").index(hpos(f)) + rot - hrot(f)) % 2]
            emit(f, rot, pos, 2 if thorough else 1, "n2")
    for f in chains():
        if not thorough and (depth_of(f), leaf_of(f)) not in ((3, "cfg"), (2, "choice")):
            continue
        for pos in ("main", "sub") if thorough else (hpos(f),):
            emit(f, hrot(f), pos, 2 if thorough else 1, "chain")
    # every spelling of `source` directly after an option that ends in a help text
    for rot in range(len(SRC_KW)):
        emit((("cfg", "help"), ("src",)), rot, "main", 2 if thorough else 1, "extra")
    # constructs the documented rules do not forbid, kept in dedicated programs
    for f in (
        (("cfg", "strhash"),),
        (("cfg", "plain"), ("if", (("uchoice", (("cfg", "plain"), ("cfg", "plain"))),))),
        (("cfg", "plain"), ("if", (("menu", (("cfg", "plain"),)),))),
    ):
        for pos in ("main", "sub"):
            emit(f, 0, pos, 2 if thorough else 1, "extra")
    # names at the documented limits: every defined name (config / menuconfig / choice / choice member) exactly NAME_MAX and
    # NAME_MAX - 1 characters long; sibling names whose common prefix is exactly PREFIX_MIN characters (alone and together
    # with maximal length).  quick: single sites and same-line pairs only (D=0)
    for f in BOUND_FORESTS:
        for pos in ("main", "sub"):
            for namelen, nmode in ((NAME_MAX, ""), (NAME_MAX - 1, ""), (0, "p3"), (NAME_MAX, "p3")):
                emit(f, 0, pos, 1 if thorough else 0, "bound", namelen, nmode)
    # odd characters: every text region of the file carries the character; mangled like every other compliant file
    for f in ODD_FORESTS:
        for pos in ("main", "sub"):
            for ch in ODD_CHARS if thorough else ODD_MANGLED_QUICK:
                emit(f, 0, pos, 1 if thorough else 0, "odd", odd={"ch": ch, "site": -1})
    # TEXT families, mangled: quick 2 + 2 programs (single sites and same-line pairs); thorough every literal / keyword
    # (gap and position alternating) at D=0 and the quick ones at D=1
    for fam, n, picks in (("lit", len(TEXT_LITS), (TEXT_LITS.index("uart"), TEXT_LITS.index("usb serial jtag"))),
                          ("kw", len(TEXT_KWS), (TEXT_KWS.index("source"), TEXT_KWS.index("if")))):  # fmt: skip
        for i in range(n) if thorough else picks:
            k = picks.index(i) if i in picks else i
            text = {"fam": fam, "i": i}
            if fam == "lit":
                text["gap"] = (k + 1) % 2
            else:
                text["lead"] = 0
            emit((("text" + fam,),), 0, ("main", "sub")[k % 2], 1 if thorough and i in picks else 0, "textm", text=text)
    if thorough:
        for f in forests(3, 3):
            emit(f, hrot(f), hpos(f), 1, "n3")
        for f in forests(4, 3):
            if len(f) == 1 and depth_of(f) >= 2 and common.h64(repr(f) + "s") % 8 == 0:
                emit(f, hrot(f), hpos(f), 1, "n4")
    return out


# ----------------------------------------------------------------------------------------------------------
# manglings
# ----------------------------------------------------------------------------------------------------------

IND_OPS = ("I+1", "I+2", "I+3", "I+4", "I-1", "I-2", "I-3", "I-4", "I0", "TABU", "LTAB")
TRAIL_OPS = ("TRB1", "TRB2", "TRT")
STR_OPS = ("STAB",)
GLOBAL_OPS = ("G_DOUBLE", "G_HALF", "G_ZERO", "G_TABS")
REN_OPS = ("I+1", "I+2", "I+3", "I+4", "LTAB") + TRAIL_OPS + ("SEPT",)

OP_KIND = {
    "I+1": "indent+", "I+2": "indent+", "I+3": "indent+", "I+4": "indent+",
    "I-1": "indent-", "I-2": "indent-", "I-3": "indent-", "I-4": "indent-",
    "I0": "indent0", "TABU": "tab_per_unit", "LTAB": "leading_tab",
    "TRB1": "trailing_blank", "TRB2": "trailing_blank", "TRT": "trailing_tab", "STAB": "tab_in_string",
    "SEPT": "tab_separator",
    "G_DOUBLE": "global_doubled", "G_HALF": "global_halved", "G_ZERO": "global_zeroed", "G_TABS": "global_tabs",
}  # fmt: skip


def op_class(op: str) -> str:
    if op in TRAIL_OPS:
        return "trail"
    if op in ("STAB", "SEPT"):
        return "str"
    return "indent"


_RE_STR_SPACE = re.compile(r'"[^" ]*( )[^"]*"')
_RE_REN_SEP = re.compile(r"^(CONFIG_\w+)( +)(!?CONFIG_)")


def apply_op(line: str, op: str) -> Optional[str]:
    """one mangling of one line (without newline); None if not applicable"""
    body = line.lstrip(" ")
    n = len(line) - len(body)
    if op[0] == "I" and op[1] in "+-" or op in ("I0", "TABU"):
        if not body:
            return None
        if op[1] == "+":
            return " " * (n + int(op[2])) + body
        if op[1] == "-":
            k = int(op[2])
            return " " * (n - k) + body if n - k >= 0 else None
        if op == "I0":
            return body if n > 0 else None
        if op == "TABU":
            return "\t" * (n // 4) + " " * (n % 4) + body if n >= 4 else None
    if op == "LTAB":
        return "\t" + line
    if op == "TRB1":
        return line + " "
    if op == "TRB2":
        return line + "  "
    if op == "TRT":
        return line + "\t"
    if op == "STAB":
        m = _RE_STR_SPACE.search(line)
        if not m:
            return None
        return line[: m.start(1)] + "\t" + line[m.end(1) :]
    if op == "SEPT":
        m = _RE_REN_SEP.search(line)
        if not m:
            return None
        return line[: m.start(2)] + "\t" + line[m.end(2) :]
    raise ValueError(op)


def apply_global(lines: List[str], op: str) -> List[str]:
    out = []
    for line in lines:
        body = line.lstrip(" ")
        n = len(line) - len(body)
        if op == "G_DOUBLE":
            out.append(" " * (2 * n) + body)
        elif op == "G_HALF":
            out.append(" " * (n // 2) + body)
        elif op == "G_ZERO":
            out.append(body)
        elif op == "G_TABS":
            out.append("\t" * (n // 4) + " " * (n % 4) + body)
        else:
            raise ValueError(op)
    return out


def apply_ops(lines: List[str], ops: List[Tuple[int, str]]) -> Optional[str]:
    """text after applying the (<= 2) site manglings / one global mangling"""
    if ops and ops[0][0] < 0:
        return "".join(l + "\n" for l in apply_global(lines, ops[0][1]))
    out = list(lines)
    # same-line pairs: the indent-class op first, the string op next, the trailing op last
    for li, op in sorted(ops, key=lambda s: (s[0], {"indent": 0, "str": 1, "trail": 2}[op_class(s[1])])):
        new = apply_op(out[li], op)
        if new is None:
            return None
        out[li] = new
    return "".join(l + "\n" for l in out)


def site_table(lines: List[str], alphabet: Tuple[str, ...], labels: Optional[List[str]] = None) -> Tuple[List[Tuple[int, str]], List[float]]:
    """all applicable (line, op) sites in deterministic order (ops giving the same bytes for a line are merged), and the
    position of every line counted in non-blank lines (a blank line sits half a step after its predecessor)"""
    sites: List[Tuple[int, str]] = []
    coord: List[float] = []
    c = -1.0
    for li, line in enumerate(lines):
        c = float(int(c) + 1) if line else int(c) + 0.5
        coord.append(c)
        got = set()
        for op in alphabet:
            if op == "STAB" and labels is not None and labels[li].startswith("help"):
                continue  # a quoted phrase in a help line is no quoted string: a tab there is a tab in a help text
            t = apply_op(line, op)
            if t is not None and t not in got:
                got.add(t)
                sites.append((li, op))
    return sites, coord


def partners(sites, coord, i: int, dist: float) -> Iterator[int]:
    """indices j > i of the sites that form a two-site mangling with site i"""
    a = sites[i]
    for j in range(i + 1, len(sites)):
        b = sites[j]
        if coord[b[0]] - coord[a[0]] > dist:
            break
        if a[0] == b[0] and op_class(a[1]) == op_class(b[1]):
            continue
        yield j


def manglings(lines: List[str], dist: float, alphabet: Tuple[str, ...], lo: int = 0, hi: Optional[int] = None, labels: Optional[List[str]] = None):
    """For every first site in sites[lo:hi]: its single-site mangling, then ALL its two-site manglings within the line
    distance; the global manglings belong to the chunk with lo == 0.  Yields (ops, text)."""
    sites, coord = site_table(lines, alphabet, labels)
    hi = len(sites) if hi is None else min(hi, len(sites))
    for i in range(lo, hi):
        a = sites[i]
        yield (a,), apply_ops(lines, [a])
        for j in partners(sites, coord, i, dist):
            t = apply_ops(lines, [a, sites[j]])
            if t is not None:
                yield (a, sites[j]), t
    if lo == 0 and alphabet is not REN_OPS:
        canon = "".join(l + "\n" for l in lines)
        got = {canon}
        for g in GLOBAL_OPS:
            t = apply_ops(lines, [(-1, g)])
            if t not in got:
                got.add(t)
                yield ((-1, g),), t


def chunks(lines: List[str], dist: float, alphabet: Tuple[str, ...], size: int, labels: Optional[List[str]] = None) -> List[Tuple[int, int, int]]:
    """[(lo, hi, number of manglings)] partition of the first-site range into work items of about `size` manglings"""
    sites, coord = site_table(lines, alphabet, labels)
    out = []
    lo = 0
    n = 0
    for i in range(len(sites)):
        n += 1 + sum(1 for _ in partners(sites, coord, i, dist))
        if n >= size:
            out.append((lo, i + 1, n))
            lo, n = i + 1, 0
    if n or not out:
        out.append((lo, len(sites), n))
    return out


# ----------------------------------------------------------------------------------------------------------
# observations on the real implementation
# ----------------------------------------------------------------------------------------------------------

FIELDS = ("kind", "name", "type", "prompt", "prompt_cond", "dep", "help", "is_menuconfig", "parent", "visible_if",
          "defaults", "ranges", "selects", "implies")  # fmt: skip


def struct_dump(k) -> tuple:
    kc = impl.core()
    es = kc.expr_str
    out: List[tuple] = [("mainmenu", k.mainmenu_text), ("variables", tuple(sorted((n, v.value) for n, v in k.variables.items())))]
    top = k.top_node
    for n in k.node_iter():
        it = n.item
        if it is kc.MENU:
            kind, name, typ = "menu", None, None
        elif it is kc.COMMENT:
            kind, name, typ = "comment", None, None
        elif isinstance(it, kc.Choice):
            kind, name, typ = "choice", it.name, kc.TYPE_TO_STR[it.orig_type]
        else:
            kind, name, typ = "symbol", it.name, kc.TYPE_TO_STR[it.orig_type]
        p = n.parent
        if p is top or p is None:
            par = ("top", None)
        elif p.item is kc.MENU:
            par = ("menu", p.prompt[0] if p.prompt else None)
        elif isinstance(p.item, kc.Choice):
            par = ("choice", p.item.name)
        elif isinstance(p.item, kc.Symbol):
            par = ("symbol", p.item.name)
        else:
            par = ("?", None)
        hlp = n.help
        if hlp is not None:
            # help texts are compared modulo the leading / trailing blanks of their lines: the indentation INSIDE a help
            # text is significant for the parser (relative to the first line; a tab is 8 columns), so any re-indentation
            # of a help line shifts it; that is layout of the text, not "the configuration" the statement is about
            hlp = "\n".join(x.strip() for x in hlp.split("\n")).strip()
        out.append(
            (
                kind, name, typ,
                n.prompt[0] if n.prompt else None,
                es(n.prompt[1]) if n.prompt else None,
                es(n.dep), hlp, bool(n.is_menuconfig), par,
                es(n.visibility) if it is kc.MENU else None,
                tuple((es(v), es(c)) for v, c in n.defaults),
                tuple((es(a), es(b), es(c)) for a, b, c in n.ranges),
                tuple((es(v), es(c)) for v, c in n.selects),
                tuple((es(v), es(c)) for v, c in n.implies),
            )
        )  # fmt: skip
    return tuple(out)


def _field_class(f: str, u: Any, v: Any) -> str:
    if f in ("help", "prompt") and isinstance(u, str) and isinstance(v, str):
        if [x.strip() for x in u.split("\n")] == [x.strip() for x in v.split("\n")]:
            return f + "_leading_ws"
        if u.split() == v.split():
            return f + "_inner_ws"
    if f == "defaults" and len(u) == len(v) and all(p[0].split() == q[0].split() and p[1] == q[1] for p, q in zip(u, v)):
        return "defaults_inner_ws"
    return f


def dump_diff(a: tuple, b: tuple, alt: Optional[tuple] = None) -> Optional[str]:
    """Name of the first field of dump `b` that differs from dump `a` -- and, if `alt` is given and has the same shape,
    from `alt` as well (every observable must keep one of the two readings).  None if there is no such field."""
    if alt is not None and len(alt) != len(b):
        alt = None
    if len(a) != len(b):
        if alt is None:
            return "node_count"
        a, alt = alt, None
    for i, (x, y) in enumerate(zip(a, b)):
        if x == y or (alt is not None and alt[i] == y):
            continue
        if i < 2:
            return ("mainmenu", "variables")[i]
        z = alt[i] if alt is not None else None
        for j, (f, u, v) in enumerate(zip(FIELDS, x, y)):
            if u != v and (z is None or z[j] != v):
                return _field_class(f, u, v)
        return "?"
    return None


def exc_site(e: BaseException) -> str:
    tb = traceback.extract_tb(e.__traceback__)
    for fr in reversed(tb):
        if "/mck/" not in fr.filename:
            return f"{os.path.basename(fr.filename)}:{fr.name}"
    return "?"


_RE_NUM = re.compile(r"\d+")
_RE_QUOTED = re.compile(r"'[^']*'|\"[^\"]*\"")


def msg_class(msg: str, path: str) -> str:
    """kconfcheck's complaint without path / line number / concrete names"""
    m = msg.replace(path + ".new", "<file>").replace(path, "<file>")
    m = re.sub(r"^<file>:(\d+|EOF): ", "", m)
    m = m.split("\n")[0]
    m = _RE_QUOTED.sub("'..'", m)
    m = re.sub(r"\bAPP_\w+|\bCONFIG_\w+", "NAME", m)
    m = re.sub(r"^config name \S+ should", "config name NAME should", m)
    m = _RE_NUM.sub("N", m)
    return m[:90]


def _put(path: str, text: str) -> None:
    fd = os.open(path, os.O_WRONLY | os.O_CREAT | os.O_TRUNC, 0o644)
    try:
        os.write(fd, text.encode("utf-8"))
    finally:
        os.close(fd)


def _get(path: str) -> Optional[str]:
    try:
        fd = os.open(path, os.O_RDONLY)
    except OSError:
        return None
    try:
        chunks = []
        while True:
            b = os.read(fd, 65536)
            if not b:
                break
            chunks.append(b)
    finally:
        os.close(fd)
    return b"".join(chunks).decode("utf-8")


class Ctx:
    """one program (canonical files) with one target file; holds the scratch directories and the per-item memo tables"""

    _n = 0
    _last_k = None

    def __init__(self, files: Dict[str, str], target: str, family: str = "kconfig"):
        _capture()
        Ctx._n += 1
        self.files = files
        self.target = target
        self.family = family
        self.base = os.path.join(impl.wdir(), f"c18-{Ctx._n}")
        shutil.rmtree(self.base, ignore_errors=True)
        self.pd = os.path.join(self.base, "parse")
        os.makedirs(self.pd)
        self.vd = os.path.join(self.base, "check")
        os.mkdir(self.vd)
        self.cwd = os.getcwd()
        os.chdir(self.pd)  # `source "Kconfig.x"` is resolved against the working directory
        for fn, t in files.items():
            _put(os.path.join(self.pd, fn), t)
        self.nv = 0
        self.vmemo: Dict[str, tuple] = {}
        self.verified: set = set()
        self.dumps: Dict[Tuple[int, str], tuple] = {}
        self.real_calls = 0
        self.last_err_line: Optional[str] = None
        self.memo_hits = 0
        self.p2_parses = 0
        self._rk = None

    def close(self) -> None:
        os.chdir(self.cwd)
        shutil.rmtree(self.base, ignore_errors=True)

    # ---- meaning of a text of the target file
    def meaning(self, text: str, version: int) -> tuple:
        """("ok", dump) or ("exc", type name, site)"""
        key = (version, text)
        m = self.dumps.get(key)
        if m is not None:
            return m
        if self.family == "rename":
            m = self._rename_meaning(text)
        else:
            kl = impl.lib()
            _put(os.path.join(self.pd, self.target), text)
            k = None
            try:
                k = kl.Kconfig(os.path.join(self.pd, "Kconfig"), parser_version=version)
                m = ("ok", struct_dump(k))
            except KeyboardInterrupt:
                raise
            except BaseException as e:  # noqa: BLE001 -- rejection by the parser is an observation
                m = ("exc", type(e).__name__, exc_site(e))
            finally:
                rep = k.report if k is not None else getattr(type(self)._last_k, "report", None)
                if rep is not None:
                    rep.reset()  # process-wide singleton, not reset by Kconfig()
                if k is not None:
                    type(self)._last_k = k
            if version == 2:
                self.p2_parses += 1
        _cap.msgs.clear()
        if len(self.dumps) > 20000:
            self.dumps.clear()
        self.dumps[key] = m
        return m

    def _rename_meaning(self, text: str) -> tuple:
        kl = impl.lib()
        if self._rk is None:
            p = os.path.join(self.base, "KconfigForRename")
            with open(p, "w") as f:
                f.write('mainmenu "T"\n')
            self._rk = kl.Kconfig(p, parser_version=1)
        p = os.path.join(self.pd, self.target)
        _put(p, text)
        try:
            self._rk.load_rename_files([p])
            d = self._rk.deprecated_options
            m = ("ok", (tuple(sorted(d.r_dic.items())), tuple(sorted((a, tuple(b)) for a, b in d.rev_r_dic.items())), tuple(sorted(d.inversions))))
        except KeyboardInterrupt:
            raise
        except BaseException as e:  # noqa: BLE001
            m = ("exc", type(e).__name__, exc_site(e))
        self._rk.report.reset()
        return m

    # ---- one pass of the checker
    def validate_real(self, text: str, replace: bool = True) -> tuple:
        """runs kconfcheck.core.validate_file on a file holding `text`, alone in its own directory.
        -> ("ret", ok: bool, out_text, said_ok: bool, leftover files, first complaint class)  |  ("exc", type, site)"""
        from kconfcheck.core import validate_file

        self.nv += 1
        self.real_calls += 1
        # the target's own directory (one per program x target x work item); it holds nothing but the target file
        d = self.vd
        path = os.path.join(d, self.target)
        _put(path, text)
        # the first Kconfig() of a process installs kconfiglib's own logger (report.py: CachingLog); take it back
        _cap.install()
        _cap.msgs.clear()
        dirty = True
        try:
            try:
                ok = validate_file(path, False, replace)
            except KeyboardInterrupt:
                raise
            except BaseException as e:  # noqa: BLE001 -- includes SystemExit from log.die()
                first = next((msg_class(m, path) for k, m in _cap.msgs if k == "err"), "")
                return ("exc", type(e).__name__, exc_site(e), first)
            out = _get(path)
            left = tuple(sorted(x for x in os.listdir(d) if x != self.target))
            dirty = bool(left)
            said_ok = any(k == "print" and m == f"{path}: OK" for k, m in _cap.msgs)
            errs = [m for k, m in _cap.msgs if k == "err"]
            self.last_err_line = None
            if errs:
                mm = re.match(re.escape(path) + r":(\d+|EOF): ", errs[0])
                self.last_err_line = mm.group(1) if mm else None
            return ("ret", ok, out, said_ok, left, msg_class(errs[0], path) if errs else "")
        finally:
            _cap.msgs.clear()
            if dirty:  # leftovers of this pass must not be seen by the next one
                shutil.rmtree(d, ignore_errors=True)
                os.mkdir(d)

    def validate(self, text: str) -> tuple:
        v = self.vmemo.get(text)
        if v is None:
            v = self.validate_real(text)
            if len(self.vmemo) > 50000:
                self.vmemo.clear()
            self.vmemo[text] = v
        else:
            self.memo_hits += 1
        return v


# ----------------------------------------------------------------------------------------------------------
# oracles
# ----------------------------------------------------------------------------------------------------------


def check_canonical(ctx: Ctx, r: common.Result, labels: List[str], spec: Any) -> bool:
    """canonical file: OK, untouched, no suggestion file.  Returns False if the canonical file is not accepted."""
    text = ctx.files[ctx.target]
    case = {"family": ctx.family, "files": ctx.files, "target": ctx.target, "ops": [], "mangled": text, "labels": labels, "spec": repr(spec)}
    good = True
    r.evals += 1
    constructs = spec_constructs(spec)

    def viol(kind: str, msg: str, **kw):
        nonlocal good
        good = False
        # entry kind = the line kconfcheck complains about (its line numbers are 0-based), else the constructs of the file
        ln = ctx.last_err_line
        if ln is not None and ln.isdigit() and int(ln) < len(labels):
            where = labels[int(ln)]
        elif ln == "EOF":
            where = "EOF"
        else:
            where = "file"
        sig = {"kind": kind, "mangling": "none", "entry": "canonical:" + where}
        sig.update(kw)
        sig.update(odd_sig(spec))
        r.violation(sig, f"[{ctx.family} canonical {ctx.target}] {msg}", case)

    for replace in (False, True):
        v = ctx.validate_real(text, replace)
        mode = "replace" if replace else "check"
        if v[0] == "exc":
            viol("exception", f"validate_file({mode}) raised {v[1]} at {v[2]} ({v[3]})", exc=v[1], site=v[2], mode=mode)
            continue
        _, ok, out, said_ok, left, first = v
        if not ok or not said_ok:
            viol("compliant_file_not_ok", f"compliant file reported not OK ({mode}): {first!r} (returned {ok}, printed OK: {said_ok})", complaint=first, mode=mode)
        if out != text:
            viol("compliant_file_rewritten", f"compliant file changed by validate_file({mode})", complaint=first, mode=mode)
        if left:
            viol("suggestion_file_left", f"{left} left behind after validate_file({mode}) on a compliant file", complaint=first, mode=mode)
    odd = spec.get("odd") if isinstance(spec, dict) else None
    if ctx.family == "kconfig" and odd:
        # Texts with odd characters: parser 2 tokenises with str.split() and reads white-space-like characters inside a
        # quoted string differently from parser 1 (property C04, recorded there).  Clause 1 is about the checker only; the
        # files with one odd character are not parsed by parser 2 at all, the mangled ones are judged per parser.
        m1 = ctx.meaning(text, 1)
        if m1[0] != "ok":
            good = False
            r.violation(
                dict({"kind": "canonical_rejected_by_parser1", "mangling": "none", "entry": "canonical:" + constructs, "exc": m1[1]}, **odd_sig(spec)),
                f"[canonical {ctx.target}] parser 1 rejects the compliant program: {m1[1:3]}",
                case,
            )
        elif odd["site"] == -1:
            m2 = ctx.meaning(text, 2)
            if m2[0] != "ok":
                good = False
                r.count("canonical_rejected_by_parser2(C04)")
            elif m2 != m1:
                r.count("canonical_parsers_disagree(C04)")
    elif ctx.family == "kconfig" and isinstance(spec, dict) and (spec.get("text") or {}).get("fam") == "qs":
        # keyword-like text inside quotes: clause 1 is about the checker; parser 1 has to read the file, parser 2 splits a
        # line at a bare ` if ` / `#` inside quotes (property C04, recorded there) -- counted, not judged
        m1 = ctx.meaning(text, 1)
        if m1[0] != "ok":
            good = False
            r.violation(
                {"kind": "canonical_rejected_by_parser1", "mangling": "none", "entry": "canonical:" + constructs, "exc": m1[1]},
                f"[canonical {ctx.target}] parser 1 rejects the compliant program: {m1[1:3]}",
                case,
            )
        else:
            m2 = ctx.meaning(text, 2)
            if m2[0] != "ok":
                r.count("canonical_rejected_by_parser2(C04)")
            elif m2 != m1:
                r.count("canonical_parsers_disagree(C04)")
    elif ctx.family == "kconfig":
        m1 = ctx.meaning(text, 1)
        m2 = ctx.meaning(text, 2)
        if m1[0] != "ok" or m2[0] != "ok" or m1 != m2:
            # the family is built so that this does not happen; were it to, every mangling would inherit it
            good = False
            what = dump_diff(m1[1], m2[1]) if m1[0] == m2[0] == "ok" else f"{m1[1:3]} / {m2[1:3]}"
            r.violation(
                {"kind": "canonical_parsers_disagree", "mangling": "none", "entry": "canonical:" + constructs, "field": str(what)[:60]},
                f"[canonical {ctx.target}] parser 1 and parser 2 do not read the canonical program alike: {what}",
                case,
            )
    else:
        m1 = ctx.meaning(text, 1)
        if m1[0] != "ok":
            viol("canonical_rename_rejected_by_loader", f"load_rename_files rejects the canonical rename file: {m1}")
    return good


def odd_sig(spec: Any) -> Dict[str, str]:
    """signature part of the files that carry an odd character in their texts"""
    text = spec.get("text") if isinstance(spec, dict) else None
    if text:
        if text["fam"] == "lit":
            n = len(TEXT_LITS)
            empty = "" in (TEXT_LITS[text["i"] % n], TEXT_LITS[(text["i"] + 1) % n])
            return {"text": "string_literals_and_trailing_comment" + ("+empty_literal" if empty else "")}
        if text["fam"] == "qs":
            return {"text": "syntax_like_text_inside_quotes"}
        return {"text": "keyword_in_texts:" + TEXT_KWS[text["i"]].replace(" ", "_")}
    odd = spec.get("odd") if isinstance(spec, dict) else None
    if not odd:
        return {}
    where = odd.get("kind") or ("every_string" if odd["ch"] in STR_ONLY_CHARS else "every_text")
    return {"odd": f"{odd_class(odd['ch'])}@{where}"}


def spec_constructs(spec: Any) -> str:
    if isinstance(spec, dict) and "forest" in spec:
        ks: List[str] = []

        def rec(f):
            for n in f:
                k = n[0] if len(n) < 2 or not isinstance(n[1], str) else f"{n[0]}.{n[1]}"
                if k not in ks:
                    ks.append(k)
                if len(n) > 1 and isinstance(n[1], tuple):
                    rec(n[1])

        rec(spec["forest"])
        return "+".join(sorted(ks))
    return "rename"


def core_classes(ctx: Ctx, mtext: str, canon_meaning: tuple) -> Tuple[str, List[Tuple[tuple, str]], Dict[str, Any]]:
    """Evaluates one mangled text.  -> (status, [(failure class, message)], info);  status "skip" | "done".
    A failure class is a tuple of (key, value) pairs without the mangling / entry kind."""
    info: Dict[str, Any] = {}
    m0 = ctx.meaning(mtext, 1)
    if m0[0] != "ok":
        info["reject"] = m0[1]
        return "skip", [], info
    info["reading"] = "canonical" if m0 == canon_meaning else "shifted"
    if info["reading"] == "shifted":
        # The whitespace change altered what parser 1 reads (an entry pushed into / a property pulled out of a help text,
        # a tab inside a quoted string, trailing blanks of a macro value): the file's defects are then not ONLY
        # indentation / tabs / trailing whitespace, and the documentation exempts "misleading formatting".
        info["reject"] = "misleading_formatting_changes_parser1_reading"
        return "skip", [], info
    fails: List[Tuple[tuple, str]] = []

    def fail(msg: str, **kw):
        fails.append((tuple(sorted(kw.items())), msg))

    text = mtext
    seen = [text]
    passes = 0
    fixed = None
    while passes < MAX_PASSES:
        v = ctx.validate(text)
        passes += 1
        if v[0] == "exc":
            fail(f"pass {passes}: validate_file raised {v[1]} at {v[2]} ({v[3]})", kind="exception", exc=v[1], site=v[2], complaint=v[3])
            info["passes"] = passes
            return "done", fails, info
        _, ok, out, said_ok, left, first = v
        if left:
            fail(f"pass {passes}: {left} left behind by replace mode", kind="suggestion_file_left")
        if out is None:
            fail(f"pass {passes}: the file is gone after replace mode", kind="file_removed")
            info["passes"] = passes
            return "done", fails, info
        if bool(ok) != bool(said_ok):
            fail(f"pass {passes}: returned {ok} but printed OK: {said_ok}", kind="verdict_inconsistent")
        if ok:
            if out != text:
                fail(f"pass {passes}: reported OK but rewrote the file", kind="ok_but_rewritten")
            fixed = out
            break
        if out == text:
            fail(f"pass {passes}: not OK ({first!r}) but the suggestion is the file itself: can never converge", kind="stuck_not_ok", complaint=first)
            info["passes"] = passes
            return "done", fails, info
        text = out
        if text in seen:
            fail(f"pass {passes}: the replace passes cycle (period {len(seen) - seen.index(text)})", kind="cycle", complaint=first)
            info["passes"] = passes
            return "done", fails, info
        seen.append(text)
    info["passes"] = passes
    if fixed is None:
        v = ctx.validate(text)
        fail(f"not reported OK within {MAX_PASSES} replace passes (still complaining {v[5] if v[0] == 'ret' else v[1]!r})", kind="no_convergence", complaint=v[5] if v[0] == "ret" else v[1])
        return "done", fails, info
    info["fixed"] = fixed
    # one more pass, really executed (not from the memo table) once per fixed point and work item
    if fixed not in ctx.verified:
        ctx.verified.add(fixed)
        v2 = ctx.validate_real(fixed)
        if v2 != ctx.vmemo.get(fixed, v2):
            fail("validate_file gave two different results for the same bytes", kind="checker_not_a_function_of_the_bytes")
        if v2[0] == "exc":
            fail(f"one more pass raised {v2[1]} at {v2[2]}", kind="exception", exc=v2[1], site=v2[2], complaint=v2[3])
        elif not v2[1] or v2[2] != fixed or v2[4]:
            fail(f"one more pass on the fixed point is not the identity (ok={v2[1]}, changed={v2[2] != fixed}, left={v2[4]})", kind="extra_pass_not_identity")
    # meaning
    m1 = ctx.meaning(fixed, 1)
    if m1[0] != "ok":
        fail(f"the fixed point is rejected by parser 1 ({m1[1]} at {m1[2]}) although the mangled input was accepted", kind="result_rejected_by_parser1", exc=m1[1])
    elif m1 != m0:
        # A mangling may itself change what parser 1 reads (indentation is significant inside help texts, a tab is 8
        # columns for the parser, trailing blanks are part of a macro value).  Every observable of the fixed point has to
        # keep the reading of the mangled input or return to the reading of the compliant file it was made from.
        if ctx.family == "kconfig":
            fld = dump_diff(m0[1], m1[1], canon_meaning[1])
        else:
            fld = None if m1 == canon_meaning else "renames"
        if fld is None:
            info["restored"] = True
        else:
            fail(f"the fixed point reads differently from the mangled input under parser 1 (first difference: {fld})", kind="meaning_changed", field=fld)
    if ctx.family == "kconfig" and m1[0] == "ok":
        m2 = ctx.meaning(fixed, 2)
        c2 = ctx.meaning(ctx.files[ctx.target], 2) if m2 != m1 else m2
        if m2 != m1 and c2[0] == "ok" and c2 != canon_meaning:
            # The parsers already read the COMPLIANT file differently (odd characters inside quoted strings: C04's business).
            # Parser 2 is then judged against itself: the fixed point has to keep parser 2's reading of the mangled input, or
            # return to parser 2's reading of the compliant file.
            info["canonical_parsers_disagree"] = True
            if m2 != c2:
                m20 = ctx.meaning(mtext, 2)
                if m20[0] != "ok":
                    info["parser2_rejects_mangled_input"] = True  # nothing to compare with
                elif m2[0] != "ok":
                    fail(f"the fixed point is rejected by parser 2 ({m2[1]} at {m2[2]}) although parser 2 accepted the mangled input", kind="result_rejected_by_parser2", exc=m2[1], parsers_agree_on_input=False)
                else:
                    fld = dump_diff(m20[1], m2[1], c2[1])
                    if fld is not None:
                        fail(f"the fixed point reads differently from the mangled input under parser 2 (first difference: {fld})", kind="meaning_changed", parser="2", field=fld)
        elif m2 != m1:
            # is it the checker's doing, or do the parsers already disagree on the mangled input?
            m20 = ctx.meaning(mtext, 2)
            same_on_input = m20 == m0
            if not same_on_input:
                # the two parsers already disagree on the INPUT: property C04's business, not kconfcheck's doing
                info["parsers_disagree_on_input"] = True
            elif m2[0] != "ok":
                fail(f"the fixed point is rejected by parser 2 ({m2[1]} at {m2[2]}); parser 2 on the mangled input: {m20[0]}", kind="result_rejected_by_parser2", exc=m2[1], parsers_agree_on_input=same_on_input)
            else:
                fld = dump_diff(m1[1], m2[1])
                fail(f"parser 2 reads the fixed point differently from parser 1 (first difference: {fld}); parsers agree on the mangled input: {same_on_input}", kind="result_parsers_disagree", field=fld, parsers_agree_on_input=same_on_input)
    return "done", fails, info


def evaluate(ctx: Ctx, r: common.Result, lines: List[str], labels: List[str], ops: Tuple[Tuple[int, str], ...], mtext: str,
             canon_meaning: tuple, spec: Any, single_cache: Dict[Tuple[int, str], set]) -> None:  # fmt: skip
    status, fails, info = core_classes(ctx, mtext, canon_meaning)
    if status == "skip":
        r.skipped += 1
        r.count("skipped_parser_rejects_" + info["reject"])
        return
    r.evals += 1
    r.count(f"passes_{info['passes']}")
    r.count("reading_" + info["reading"])
    if info.get("parsers_disagree_on_input"):
        r.count("parsers_disagree_on_mangled_input(C04)")
    if info.get("restored"):
        r.count("shifted_reading_restored_to_canonical")
    if info.get("canonical_parsers_disagree"):
        r.count("parser2_judged_against_itself(parsers disagree on the compliant file: C04)")
    if info.get("parser2_rejects_mangled_input"):
        r.count("parser2_rejects_mangled_input")
    fixed = info.get("fixed")
    if fixed is not None:
        r.count("fixed_point_is_canonical" if fixed == ctx.files[ctx.target] else "fixed_point_not_canonical")
    r.outcome((ctx.files.get("Kconfig"), ctx.target, info["reading"], info["passes"], fixed, tuple(c for c, _ in fails)))
    if not fails:
        return
    if len(ops) == 2:
        # attribute to a single site if that site alone already produces the failure class
        known: set = set()
        for s in ops:
            if s not in single_cache:
                t1 = apply_ops(lines, [s])
                st1, f1, _ = core_classes(ctx, t1, canon_meaning) if t1 is not None else ("skip", [], {})
                single_cache[s] = {c for c, _ in f1}
            known |= single_cache[s]
        rest = [(c, m) for c, m in fails if c not in known]
        if len(rest) < len(fails):
            r.count("pair_subsumed_by_single", len(fails) - len(rest))
        fails = rest
    for cls, msg in fails:
        sig = dict(cls)
        sig["mangling"] = "+".join(OP_KIND[op] for _, op in ops)
        sig["entry"] = "+".join("file" if li < 0 else labels[li] for li, _ in ops)
        sig["reading"] = info["reading"]
        sig.update(odd_sig(spec))
        r.violation(
            sig,
            f"[{ctx.family} {ctx.target}] {fmt_ops(ops, lines)}: {msg}",
            {"family": ctx.family, "files": ctx.files, "target": ctx.target, "ops": [list(o) for o in ops], "mangled": mtext, "labels": labels, "spec": repr(spec)},
        )


def fmt_ops(ops, lines) -> str:
    return " & ".join(f"{op} on `{lines[li].strip()}` (line {li + 1})" if li >= 0 else op for li, op in ops)


# ----------------------------------------------------------------------------------------------------------
# rename files
# ----------------------------------------------------------------------------------------------------------

REN_KINDS = ("cmt", "blank", "plain", "inv", "tail", "lower", "wide")
# names at the documented length limit (counted WITHOUT the CONFIG_ prefix, as in Kconfig files where the names are written
# without it): NEW name of exactly NAME_MAX / NAME_MAX - 1 characters, plain and behind `!`; OLD name of NAME_MAX and
# NAME_MAX + 1 characters ("old names may not comply with the rules": only their prefix is checked); both at NAME_MAX
REN_BOUND_KINDS = ("new50", "new49", "inv50", "inv49", "old50", "old51", "both50")
# NOT compliant (controls, see check_control): NEW name one over the limit, and at / one over the limit + len("CONFIG_")
REN_CONTROL_KINDS = ("new51", "inv51", "new57", "new58")


def bname(tag: str, i: int, length: int) -> str:
    """an upper-case option name of exactly `length` characters (without CONFIG_)"""
    base = f"APP_{tag}{i}_"
    name = base + "Q" * (length - len(base))
    assert len(name) == length
    return name


def rename_lines(kinds: Tuple[str, ...]) -> List[Tuple[str, str]]:
    out = []
    for i, k in enumerate(kinds):
        if k == "cmt":
            out.append((f"# renamed in v{i}", "rename.comment"))
        elif k == "blank":
            out.append(("", "blank"))
        elif k == "plain":
            out.append((f"CONFIG_OLD_P{i} CONFIG_APP_NEW_P{i}", "rename.plain"))
        elif k == "inv":
            out.append((f"CONFIG_OLD_I{i} !CONFIG_APP_NEW_I{i}", "rename.inverted"))
        elif k == "tail":
            out.append((f"CONFIG_OLD_T{i} CONFIG_APP_NEW_T{i} # moved", "rename.trailing_comment"))
        elif k == "lower":
            out.append((f"CONFIG_old_l{i}x CONFIG_APP_NEW_L{i}X", "rename.lowercase_old"))
        elif k == "wide":
            out.append((f"CONFIG_OLD_W{i}      CONFIG_APP_NEW_W{i}", "rename.wide"))
        elif k[:3] in ("new", "inv") and k[3:].isdigit():
            bang = "!" if k[:3] == "inv" else ""
            out.append((f"CONFIG_OLD_{k[0].upper()}{i} {bang}CONFIG_{bname('N', i, int(k[3:]))}", "rename." + k))
        elif k[:3] == "old" and k[3:].isdigit():
            out.append((f"CONFIG_{bname('O', i, int(k[3:]))} CONFIG_APP_NEW_O{i}", "rename." + k))
        elif k[:4] == "both" and k[4:].isdigit():
            out.append((f"CONFIG_{bname('O', i, int(k[4:]))} CONFIG_{bname('N', i, int(k[4:]))}", "rename." + k))
        else:
            raise ValueError(k)
    return out


def rename_programs(tier: str) -> List[Tuple[str, ...]]:
    out = []
    allk = REN_KINDS + REN_BOUND_KINDS
    for n in (1, 2) if tier == "quick" else (1, 2, 3):
        for ks in itertools.product(allk, repeat=n):
            if ks[-1] == "blank":
                continue  # canonical files do not end in blank lines
            if n == 3 and sum(k in REN_BOUND_KINDS for k in ks) > 1:
                continue  # three lines: at most one of them carries a boundary-length name
            out.append(ks)
    return out


# rename files whose comment lines / trailing comments carry an odd character (option names are [A-Za-z0-9_] only)
ODD_RENAMES = (("cmt",), ("tail",), ("cmt", "plain"), ("plain", "tail"), ("cmt", "inv", "tail"), ("tail", "cmt", "tail"))


def rename_controls() -> List[Tuple[str, ...]]:
    out = []
    for k in REN_CONTROL_KINDS:
        out += [(k,), ("plain", k), (k, "plain"), ("cmt", k, "new50")]
    return out


# ----------------------------------------------------------------------------------------------------------
# runner interface
# ----------------------------------------------------------------------------------------------------------

CHUNK = 2500
KALPHA = IND_OPS + TRAIL_OPS + STR_OPS


def items(tier: str, seed: int):
    out = []
    for spec in programs(tier):
        files = render_spec(spec)
        for target, ls in files.items():
            if target == "Kconfig" and spec["pos"] == "sub" and spec["tag"] != "n1":
                continue  # the 3-line root of sourced bodies is identical everywhere; mangled once per n=1 program
            for lo, hi, n in chunks([l for l, _ in ls], spec["D"], KALPHA, CHUNK, [lb for _, lb in ls]):
                out.append({"family": "kconfig", "spec": spec, "target": target, "lo": lo, "hi": hi, "n": n})
    singles = odd_single_specs()
    per = 64
    for i in range(0, len(singles), per):
        out.append({"family": "oddcanon", "specs": singles[i : i + per]})
    texts = text_specs(tier)
    per = 8
    for i in range(0, len(texts), per):
        out.append({"family": "textcanon", "specs": texts[i : i + per]})
    rens = rename_programs(tier)
    per = 8
    for i in range(0, len(rens), per):
        out.append({"family": "rename", "kinds": rens[i : i + per]})
    for ch in SEP_CHARS + NEIGH_CHARS:
        out.append({"family": "rename", "kinds": list(ODD_RENAMES), "odd": ch})
    out.append({"family": "control", "specs": control_specs(), "renames": rename_controls()})
    return out


def run_kconfig_item(item, r: common.Result) -> None:
    spec = item["spec"]
    prog = render_spec(spec)
    files = {fn: text_of(ls) for fn, ls in prog.items()}
    target = item["target"]
    lines = [l for l, _ in prog[target]]
    labels = [lb for _, lb in prog[target]]
    ctx = Ctx(files, target)
    try:
        r.programs = 1 if item["lo"] == 0 else 0
        if item["lo"] == 0:
            check_canonical(ctx, r, labels, spec)
        # the statement about manglings presupposes a compliant file the checker accepts and both parsers read
        v = ctx.validate(files[target])
        canon_meaning = ctx.meaning(files[target], 1)
        m2c = ctx.meaning(files[target], 2)
        if not (v[0] == "ret" and v[1] and v[2] == files[target]) or canon_meaning[0] != "ok" or (m2c[0] != "ok" if spec.get("odd") else m2c != canon_meaning):
            r.count("work_items_not_mangled_because_canonical_form_is_refused")
            return
        single_cache: Dict[Tuple[int, str], set] = {}
        n = 0
        seen = set()
        for ops, mtext in manglings(lines, spec["D"], KALPHA, item["lo"], item["hi"], labels):
            if mtext in seen:
                r.count("duplicate_mangled_bytes")
                continue
            seen.add(mtext)
            evaluate(ctx, r, lines, labels, ops, mtext, canon_meaning, spec, single_cache)
            n += 1
        r.count("validate_file_real_calls", ctx.real_calls)
        r.count("validate_file_memo_hits", ctx.memo_hits)
        r.count("parser2_parses_of_distinct_fixed_points", ctx.p2_parses)
        r.sample = {"target": target, "spec": repr(spec), "text": files[target], "manglings_in_item": n}
    finally:
        ctx.close()


def rename_variants(item) -> Iterator[Tuple[List[Tuple[str, str]], Dict[str, Any]]]:
    """(lines with labels, spec) of every rename file of a work item; with an odd character: in every comment at once
    (site -1) and in each comment alone"""
    ch = item.get("odd")
    for kinds in item["kinds"]:
        ls = rename_lines(tuple(kinds))
        if ch is None:
            yield ls, {"rename": list(kinds)}
            continue
        sites = odd_sites(ls, "rename")
        for k in [-1] + (list(range(len(sites))) if len(sites) > 1 else []):
            yield odd_render(ls, ch, k, "rename"), {"rename": list(kinds), "odd": {"ch": ch, "site": k, "kind": "every_comment" if k < 0 else sites[k][3]}}


def run_rename_item(item, r: common.Result) -> None:
    for ls, spec in rename_variants(item):
        lines = [l for l, _ in ls]
        labels = [lb for _, lb in ls]
        files = {"sdkconfig.rename": text_of(ls)}
        ctx = Ctx(files, "sdkconfig.rename", family="rename")
        try:
            r.programs += 1
            if not check_canonical(ctx, r, labels, spec):
                r.count("programs_whose_canonical_form_is_refused")
                continue
            canon_meaning = ctx.meaning(files["sdkconfig.rename"], 1)
            single_cache: Dict[Tuple[int, str], set] = {}
            for ops, mtext in manglings(lines, 99, REN_OPS):
                evaluate(ctx, r, lines, labels, ops, mtext, canon_meaning, spec, single_cache)
            r.count("validate_file_real_calls", ctx.real_calls)
            r.count("validate_file_memo_hits", ctx.memo_hits)
            if r.sample is None:
                r.sample = {"target": "sdkconfig.rename", "text": files["sdkconfig.rename"]}
        finally:
            ctx.close()


def check_control(ctx: Ctx, r: common.Result, labels: List[str], spec: Any, broken: str) -> None:
    """A file that breaks exactly one documented limit on names by one.  It is neither compliant nor a file 'whose only
    defects are indentation / tabs / trailing whitespace', so the statement demands NOTHING of it: the verdict (and an
    exception, if the checker dies on it) is recorded in counters / outcomes only, never alarmed.  The controls show that
    the boundary files of the compliant families really sit AT the limit (one more character is refused)."""
    text = ctx.files[ctx.target]
    for replace in (False, True):
        r.evals += 1
        mode = "replace" if replace else "check"
        v = ctx.validate_real(text, replace)
        if v[0] == "exc":
            r.count(f"control_{broken}_raised_{v[1]}_at_{v[2]}(outside the statement)")
            r.outcome(("control", ctx.family, broken, mode, "exc", v[1], v[2]))
            continue
        _, ok, out, said_ok, left, first = v
        r.count(f"control_{broken}_{'accepted' if ok else 'refused'}")
        r.outcome(("control", ctx.family, broken, mode, ctx.target, text, bool(ok), left, first))
        if bool(ok) != bool(said_ok):
            r.count(f"control_{broken}_verdict_differs_from_printout(outside the statement)")


def _control_target(spec: Dict[str, Any]) -> str:
    return "Kconfig" if spec["pos"] == "main" else "Kconfig.body"


def _control_name(spec: Dict[str, Any]) -> str:
    return f"name_length_{spec['namelen']}" if spec.get("namelen") else f"common_prefix_{spec['nmode']}"


def run_control_item(item, r: common.Result) -> None:
    for spec in item["specs"]:
        prog = render_spec(spec)
        files = {fn: text_of(ls) for fn, ls in prog.items()}
        target = _control_target(spec)
        ctx = Ctx(files, target)
        try:
            r.programs += 1
            check_control(ctx, r, [lb for _, lb in prog[target]], spec, _control_name(spec))
        finally:
            ctx.close()
    for kinds in item["renames"]:
        ls = rename_lines(kinds)
        ctx = Ctx({"sdkconfig.rename": text_of(ls)}, "sdkconfig.rename", family="rename")
        try:
            r.programs += 1
            check_control(ctx, r, [lb for _, lb in ls], {"rename": list(kinds)}, next(k for k in kinds if k in REN_CONTROL_KINDS))
        finally:
            ctx.close()


def run_oddcanon_item(item, r: common.Result) -> None:
    for spec in item["specs"]:
        prog = render_spec(spec)
        files = {fn: text_of(ls) for fn, ls in prog.items()}
        target = odd_target(spec)
        ctx = Ctx(files, target)
        try:
            r.programs += 1
            ok = check_canonical(ctx, r, [lb for _, lb in prog[target]], spec)
            r.outcome(("odd", spec["pos"], odd_name(spec["odd"]["ch"]), spec["odd"]["site"], ok))
            r.count("odd_character_files_" + odd_class(spec["odd"]["ch"]))
            if r.sample is None and spec["odd"]["ch"] in SEP_CHARS:
                r.sample = {"target": target, "spec": repr(spec), "text": files[target]}
        finally:
            ctx.close()


def run_textcanon_item(item, r: common.Result) -> None:
    for spec in item["specs"]:
        prog = render_spec(spec)
        files = {fn: text_of(ls) for fn, ls in prog.items()}
        target = odd_target(spec)
        ctx = Ctx(files, target)
        try:
            r.programs += 1
            ok = check_canonical(ctx, r, [lb for _, lb in prog[target]], spec)
            r.outcome(("text", spec["pos"], tuple(sorted(spec["text"].items())), files[target], ok))
            r.count("text_files_" + spec["text"]["fam"])
            if r.sample is None:
                r.sample = {"target": target, "spec": repr(spec), "text": files[target]}
        finally:
            ctx.close()


def run_item(item) -> common.Result:
    r = common.Result()
    if item["family"] == "kconfig":
        run_kconfig_item(item, r)
    elif item["family"] == "textcanon":
        run_textcanon_item(item, r)
    elif item["family"] == "oddcanon":
        run_oddcanon_item(item, r)
    elif item["family"] == "control":
        run_control_item(item, r)
    else:
        run_rename_item(item, r)
    return r


def replay(case) -> List[dict]:
    r = common.Result()
    ctx = Ctx(case["files"], case["target"], family=case["family"])
    try:
        labels = case["labels"]
        lines = case["files"][case["target"]].split("\n")[:-1]
        ops = tuple((int(li), op) for li, op in case["ops"])
        spec = _Spec(case.get("spec", ""))
        if case.get("control"):
            check_control(ctx, r, labels, spec, case["control"])
        elif not ops:
            check_canonical(ctx, r, labels, spec)
        else:
            canon_meaning = ctx.meaning(case["files"][case["target"]], 1)
            evaluate(ctx, r, lines, labels, ops, case["mangled"], canon_meaning, spec, {})
    finally:
        ctx.close()
    return r.viols


class _Spec(dict):
    """spec rebuilt from its repr in a replay file (only used for the construct list of canonical violations)"""

    def __init__(self, text: str):
        super().__init__()
        import ast

        try:
            v = ast.literal_eval(text)
            if isinstance(v, dict):
                self.update(v)
        except Exception:
            pass

    def __repr__(self) -> str:
        return dict.__repr__(self)

"""C19 -- the deprecated-options check depends only on a file's own scope.

E  every layout (bounded, see RULE) over the fixed skeleton

       <idf>/                      IDF root (variant: with / without a CMakeLists.txt calling project(), as in ESP-IDF)
       <idf>/components/c          built-in component
       <idf>/examples/pa           project
       <idf>/examples/pa/main      directory of project pa
       <idf>/examples/pa/nested    project nested in pa
       <idf>/examples/pb           sibling project
       <idf>/examples/common       no project (orphan)

   plus the DEEP skeleton below project pa (nested projects two and three directory levels below pa's root, a project
   nested in the nested project, plain directories in between and a plain directory that bears the base name of a
   project directly below pa's root):

       <idf>/examples/pa/apps              directory of pa            <idf>/examples/pa/apps/grp        directory of pa
       <idf>/examples/pa/apps/unit         project nested in pa (2)   <idf>/examples/pa/apps/grp/deep   project nested in pa (3)
       <idf>/examples/pa/apps/unit/main    directory of that project  <idf>/examples/pa/nested/inner    project nested in pa/nested
       <idf>/examples/pa/main/nested       directory of pa (same base name as the project pa/nested)

   plus the TWIN skeleton (project directories that bear the SAME base name under different parents, as ESP-IDF's many
   `test_apps` directories):

       <idf>/examples/alpha               project                     <idf>/examples/beta              project
       <idf>/examples/alpha/test_apps     project nested in alpha     <idf>/examples/beta/test_apps    project nested in beta
       <idf>/examples/grp/test_apps       project below a plain directory

   of sdkconfig.rename files (old names X and/or Y) and sdkconfig.defaults-style files (assigning CONFIG_X and/or
   CONFIG_Y), every non-empty ordered selection of the defaults files as the argument list, invocation variants
   (IDF_PATH from the environment / cwd fallback, explicitly passed rename files, --includes directories), driven through
   _prepare_deprecated_options + check_deprecated_options exactly as kconfcheck.core.main does.
   SPELL family: layouts over the basic skeleton, each checked under every SPELLING of IDF_PATH that denotes the IDF root:
   plain, trailing slash, doubled slash, `<idf>/components/..`, `<parent>/./idf/.`, relative (`idf` from the parent, `.` from
   the root, `../..` from examples/pa), a symbolic link to the root with the files named through the link, and the link
   with the files named by their real path.
   CMAKE family: layouts over {pa, pa/main, pa/nested, pb} in which the CMakeLists.txt of ONE project directory (pa, pa/nested
   or pb) has another CONTENT SHAPE (table CMAKE_SHAPES): project() as the very first line / without final newline / after
   other commands / `project (` / indented / arguments on the following lines / CRLF line ends / after a comment header of
   > 4 KiB, > 64 KiB and of exactly such a length that `project(` straddles or starts at byte 4096 / 8192 / 65536 / after a
   header with bytes that are not UTF-8 / after a commented-out project() (all: a project); `# project(` commented out, only in a
   trailing comment, only inside the arguments of another command, only as part of a longer command name, an empty file (all:
   NOT a project); PROJECT( / Project( / a byte-order mark before project( (the documentation does not say: no verdict
   demanded where the two readings differ, order independence still checked).

   FLINK family: the CHECKED FILE ITSELF is a symbolic link.  One regular defaults file (the target) at one of {pa, pa/main,
   pa/nested, pb, common}, one or two [thorough: three] symbolic links named sdkconfig.defaults / sdkconfig.ci* at other places of
   that set pointing at it (relative link text [thorough: also absolute]) -- so: a link into a sibling / nested / enclosing
   project, a link into the shared directory outside every project, a link from the shared directory into a project, and two
   links in different projects to one file -- rename files at 1..2 of the places; every non-empty ordered selection of the
   links and the target as argument list.  This family is driven through the real kconfcheck.core.main() (its click callback,
   in process; check_deprecated_options / _prepare_deprecated_options wrapped to record what main hands over), because what
   main() does with the file arguments before the checker sees them is the thing under test.

O1 per-file verdict == memo-free specification (spec_verdict) written from the property statement.
O2 within one (layout, variant) the verdict of a file is the same for every order / subset of the argument list
   (the per-invocation project-root cache and the lazily built per-project sets are the suspects).
O4 (SPELL family) every spelling of IDF_PATH gives every file the verdict of the plain spelling (which is under O1).
O3 the list of files to check returned by the prepare step contains no rename file and every requested defaults file.
O5 (FLINK family) O1..O3 with the scope of a path taken from the DIRECTORY IT WAS PASSED FROM (docs: "When checking a file at path
   P: the checker walks up from P to find its nearest project root ancestor"): a link at path P is judged as a regular file with the
   same content at P would be; every path passed gets its own verdict (two links to one file are two files of two scopes).
conformance: a handful of layouts run through the real CLI (python -m kconfcheck --check deprecated) in a subprocess;
   the verdict lines must agree with what the in-process driver observed.
"""

from __future__ import annotations

import itertools
import os
import re
import shutil
import subprocess
import sys
import traceback
from typing import Any, Dict, List, Optional, Tuple

from .. import common

ID = "C19"
LEVEL = "exploration"
RULE = (
    "layouts = (IDF root is / is not itself a project) x rename files {place: X|Y|XY} (<=3) x defaults files {place: X|Y|XY} (1..3) "
    "over 7 places, canonical under the X<->Y symmetry. quick: one-option layouts with (r<=2,d<=2), (r<=1,d=3) or (r=3,d=1) plus "
    "two-option layouts with r<=2, d<=2, r+d<=3 (r+d=3: every file names one option). thorough: all one-option layouts r<=3, d<=3 "
    "plus the two-option layouts with r+d<=4 (d=3: each defaults file names one option; r=d=2: each rename file names one option). "
    "DEEP family: the same enumeration over the 10 places of project pa's subtree {pa, pa/main, pa/main/nested (plain), pa/nested (project), "
    "pa/nested/inner (project), pa/apps (plain), pa/apps/unit (project, 2 levels below pa), pa/apps/unit/main, pa/apps/grp (plain), "
    "pa/apps/grp/deep (project, 3 levels below pa)}: quick one-option r<=2, d<=2 plus two-option r<=2, d=1 (r=2: every rename file names one "
    "option), root not a project; thorough one-option r<=3, d<=2 and (r<=1, d=3) plus two-option r+d<=3 (r+d=3: every file names one "
    "option), root is / is not a project; --includes for this family: none / pa/apps / pa/apps/unit [thorough: pa/nested, pa/apps/grp, pa]. "
    "SPELL family (IDF_PATH spelled differently): layouts over the 7 basic places, root is / is not a project; quick one-option r<=2, d<=2; "
    "thorough one-option r<=3, d<=2 plus two-option r+d<=3 (r+d=3: every file names one option); spellings: plain | trailing slash | doubled "
    "slash | <idf>/components/.. | symbolic link with the files named through it | symbolic link with the files named by their real path | "
    "relative from the parent directory [thorough: <parent>/./idf/. , `.` from the root, `../..` from examples/pa; and all of them again with "
    "--includes examples/pa on singletons + forward + reversed]; every non-empty ordered selection per spelling; the per-file verdict must "
    "equal the one under the plain spelling (O4). "
    "TWIN family (equally named project directories): the basic bounds over the 5 places {alpha, alpha/test_apps, beta, beta/test_apps, "
    "grp/test_apps} (all five are projects; three share the base name test_apps), root is / is not a project, variants IDF_PATH from the "
    "environment / cwd fallback [thorough: --includes examples/alpha/test_apps, examples/grp; each rename file passed explicitly], EVERY "
    "non-empty ordered selection of the defaults files (so the verdict of a file in a run with others is compared with its verdict alone). "
    "CMAKE family (content of the CMakeLists.txt that makes a directory a project): one-option layouts over the 4 places {pa, pa/main, "
    "pa/nested, pb} with (r<=1, d<=2) or (r=2, d=1) [thorough: r<=2, d<=2], root not a project [thorough: is / is not], x the project "
    "directory whose CMakeLists.txt is re-shaped {pa, pa/nested, pb} (only where a file of the layout lies in that directory's "
    "subtree) x every shape of CMAKE_SHAPES (project: first_line, no_final_newline, after_commands, blank_before_paren, "
    "tab_before_paren, indented, tab_indented, args_on_next_lines, crlf, header_4k, header_straddles_4096, header_ends_at_4096, "
    "header_straddles_8192, header_64k, header_straddles_65536, header_not_utf8, commented_then_real; not a project: commented_out, "
    "commented_out_tight, commented_out_after_header, in_trailing_comment, in_arguments, longer_command_name, empty_file; "
    "undetermined: upper_case, mixed_case, bom_first_line); variants IDF_PATH from the environment (every ordered selection) / cwd "
    "fallback [thorough: every ordered selection; and --includes examples/pa]. "
    "FLINK family (the checked file is a symbolic link; driven through the real kconfcheck.core.main): places {pa, pa/main, pa/nested, pb, "
    "common}; rename files for X at 1..2 of them; one regular defaults file (target) at one of them; symbolic links at 1..2 [thorough: 1..3] "
    "of the other places pointing at the target, relative link text [thorough: relative | absolute], root not a project [thorough: is / is "
    "not]; variants IDF_PATH from the environment / cwd fallback (every non-empty ordered selection of links + target), --includes examples "
    "(singletons + forward + reversed) [thorough: --includes examples/pa, first rename file passed explicitly]. "
    "Per layout: invocation variants (IDF_PATH from the environment / cwd fallback; explicit rename files none / each / all; "
    "--includes none / examples / examples/pa [thorough: root, examples/common, examples/pa/nested, two dirs]) x EVERY non-empty "
    "ordered selection of the defaults files as argument list (variants with a single explicit rename file, which only changes "
    "the global set, and in quick the cwd / explicit variants use singletons + the full list forward and reversed). One evaluation "
    "= one invocation (prepare + one check call per file). distinct_nontrivial = distinct (layout, explicit, includes, verdict vector)."
)
ASSUMPTIONS = [
    "the IDF root is not a 'project' in the sense of the statement even when its CMakeLists.txt calls project() (ESP-IDF's does; the "
    "repository's own fixture and test_orphan_rename_is_invisible say an orphan rename file is not discovered unless a file inside "
    "that directory is checked). Only for a defaults file that itself lives in the orphan directory under such a root do the two "
    "readings disagree; there the verdict oracle is skipped (counter ambiguous_root_project), order-independence is still checked",
    "a directory is a project when a line of its CMakeLists.txt begins (after blanks / tabs) with `project`, optional blanks and `(` "
    "(docs/en/kconfcheck/index.rst: 'contains a CMakeLists.txt with a project( call'; _is_project_root: 'whose CMakeLists.txt runs "
    "project(...)', detection intentionally syntactic), wherever in the file that line stands and however long the file is; a "
    "project( that only occurs behind `#`, inside the arguments of another command or inside a longer command name is no call. CMake "
    "itself takes command names case-insensitively and skips a byte-order mark, the checker's documentation speaks of `project(` "
    "only: for PROJECT( / Project( / BOM + project( both readings are accepted (counter ambiguous_project_spelling). Not generated: "
    "project() inside if(FALSE) or inside a multi-line string (documented false positives of the syntactic detection)",
    "`# CONFIG_X is not set` lines are not generated (the statement does not say whether they 'assign')",
    "no project() above the IDF root (scratch tree on tmpfs); --exclude-submodules not used",
    "IDF_PATH names a directory; two values that denote the same directory (lexically different spellings, a relative path, a symbolic "
    "link) are the same IDF root in the sense of the statement. Under a spelling other than the plain one the specification oracle O1 is "
    "not applied a second time; the verdicts are compared with those of the plain spelling (O4), also for the files of the orphan "
    "directory whose O1 verdict is ambiguous. File arguments are made absolute by main() before the checker sees them; their own spelling "
    "is not varied (only: through the link / by real path)",
    "FLINK family: the statement does not name symbolic links; it speaks of 'the file's own nearest enclosing project' for 'files passed to "
    "one invocation', and docs/en/kconfcheck/index.rst defines the scope on the PATH ('When checking a file at path P: the checker walks up "
    "from P to find its nearest project root ancestor'). A symbolic link at path P is therefore a file at path P: its scope is that of the "
    "directory it was passed from (the project whose build reads it), not that of the directory its target lies in, and each path passed is a "
    "file of its own. Only links to regular files inside the IDF tree; no chains of links, no dangling links, no links to directories below "
    "the IDF root (SPELL family covers a link to the root itself)",
]

PLACES = ("", "components/c", "examples/pa", "examples/pa/main", "examples/pa/nested", "examples/pb", "examples/common",
          # deeper directories below a non-root project directory and below the orphan directory: they only carry defaults
          # files of the "chain" layouts (a lookup in D, then in D/S, then in D/S/T)
          "examples/pa/main/sub", "examples/pa/main/sub/deep", "examples/common/sub", "examples/common/sub/deep",
          # DEEP family: nested projects two and three directory levels below the root of project pa, plain directories of pa in
          # between, a project nested in the nested project, and a plain directory of pa that has the base name of a project
          # sitting directly below pa's root
          "examples/pa/main/nested", "examples/pa/nested/inner", "examples/pa/apps", "examples/pa/apps/unit",
          "examples/pa/apps/unit/main", "examples/pa/apps/grp", "examples/pa/apps/grp/deep",
          # TWIN family: project directories with the SAME base name under different parents (projects alpha and beta, and a
          # plain directory grp), as ESP-IDF's many `test_apps` directories
          "examples/alpha", "examples/alpha/test_apps", "examples/beta", "examples/beta/test_apps", "examples/grp/test_apps")
N_ENUM_PLACES = 7
CHAINS = (("examples/pa/main", "examples/pa/main/sub", "examples/pa/main/sub/deep"), ("examples/common", "examples/common/sub", "examples/common/sub/deep"))
PROJECTS = ("examples/pa", "examples/pa/nested", "examples/pb", "examples/pa/nested/inner", "examples/pa/apps/unit", "examples/pa/apps/grp/deep",
            "examples/alpha", "examples/alpha/test_apps", "examples/beta", "examples/beta/test_apps", "examples/grp/test_apps")
TWIN_PLACES = ("examples/alpha", "examples/alpha/test_apps", "examples/beta", "examples/beta/test_apps", "examples/grp/test_apps")
# spellings of IDF_PATH that all denote the IDF root (the file arguments are spelled through the real path, except "link+files")
SPELLINGS = ("slash", "dslash", "dotdot", "dot", "rel_parent", "rel_dot", "rel_up", "link+files", "link")
SPELLINGS_QUICK = ("slash", "dslash", "dotdot", "rel_parent", "link+files", "link")
DEEP_PLACES = ("examples/pa", "examples/pa/main", "examples/pa/main/nested", "examples/pa/nested", "examples/pa/nested/inner",
               "examples/pa/apps", "examples/pa/apps/unit", "examples/pa/apps/unit/main", "examples/pa/apps/grp", "examples/pa/apps/grp/deep")
DEFAULTS_NAME = {
    "": "sdkconfig.defaults",
    "components/c": "sdkconfig.defaults.esp32",
    "examples/pa": "sdkconfig.defaults",
    "examples/pa/main": "sdkconfig.ci.foo",
    "examples/pa/nested": "sdkconfig.defaults",
    "examples/pb": "sdkconfig.ci",
    "examples/common": "sdkconfig.defaults",
    "examples/pa/main/sub": "sdkconfig.defaults",
    "examples/pa/main/sub/deep": "sdkconfig.ci.deep",
    "examples/common/sub": "sdkconfig.ci",
    "examples/common/sub/deep": "sdkconfig.defaults",
    "examples/pa/main/nested": "sdkconfig.defaults",
    "examples/pa/nested/inner": "sdkconfig.ci.inner",
    "examples/pa/apps": "sdkconfig.ci.apps",
    "examples/pa/apps/unit": "sdkconfig.defaults",
    "examples/pa/apps/unit/main": "sdkconfig.ci",
    "examples/pa/apps/grp": "sdkconfig.defaults.esp32",
    "examples/pa/apps/grp/deep": "sdkconfig.defaults",
    "examples/alpha": "sdkconfig.defaults",
    "examples/alpha/test_apps": "sdkconfig.defaults",
    "examples/beta": "sdkconfig.ci",
    "examples/beta/test_apps": "sdkconfig.defaults",
    "examples/grp/test_apps": "sdkconfig.ci.grp",
}
CONTENTS = ("X", "Y", "XY")
INCLUDE_DIRS_QUICK = (("examples",), ("examples/pa",))
INCLUDE_DIRS_THOROUGH = INCLUDE_DIRS_QUICK + (("",), ("examples/common",), ("examples/pa/nested",), ("examples/pa", "examples/common"))
DEEP_INCLUDE_DIRS_QUICK = (("examples/pa/apps",), ("examples/pa/apps/unit",))
DEEP_INCLUDE_DIRS_THOROUGH = DEEP_INCLUDE_DIRS_QUICK + (("examples/pa/nested",), ("examples/pa/apps/grp",), ("examples/pa",))

# FLINK family: the checked file itself is a symbolic link (target: a regular defaults file at another place)
FLINK_PLACES = ("examples/pa", "examples/pa/main", "examples/pa/nested", "examples/pb", "examples/common")

_mod = None

# CMAKE family: content shapes of the CMakeLists.txt of one project directory.  name -> (is a project: True / False / None =
# the documentation does not say, class of the shape for the signature)
CMAKE_PLACES = ("examples/pa", "examples/pa/main", "examples/pa/nested", "examples/pb")
CMAKE_AT = ("examples/pa", "examples/pa/nested", "examples/pb")
CMAKE_SHAPES = {
    "first_line": (True, "project_call_position"),
    "no_final_newline": (True, "project_call_position"),
    "after_commands": (True, "project_call_position"),
    "blank_before_paren": (True, "project_call_spacing"),
    "tab_before_paren": (True, "project_call_spacing"),
    "indented": (True, "project_call_spacing"),
    "tab_indented": (True, "project_call_spacing"),
    "args_on_next_lines": (True, "project_call_spacing"),
    "crlf": (True, "project_call_spacing"),
    "header_4k": (True, "project_after_long_header"),
    "header_straddles_4096": (True, "project_after_long_header"),
    "header_ends_at_4096": (True, "project_after_long_header"),
    "header_straddles_8192": (True, "project_after_long_header"),
    "header_64k": (True, "project_after_long_header"),
    "header_straddles_65536": (True, "project_after_long_header"),
    "header_not_utf8": (True, "project_after_non_utf8_header"),
    "commented_then_real": (True, "project_after_commented_out_call"),
    "commented_out": (False, "project_commented_out"),
    "commented_out_tight": (False, "project_commented_out"),
    "commented_out_after_header": (False, "project_commented_out"),
    "in_trailing_comment": (False, "project_commented_out"),
    "in_arguments": (False, "project_inside_another_command"),
    "longer_command_name": (False, "project_inside_another_command"),
    "empty_file": (False, "empty_cmakelists"),
    "upper_case": (None, "project_other_case"),
    "mixed_case": (None, "project_other_case"),
    "bom_first_line": (None, "project_after_bom"),
}
_STD_HEAD = "cmake_minimum_required(VERSION 3.16)\ninclude($ENV{IDF_PATH}/tools/cmake/project.cmake)\n"


def _std_cmake(p: str) -> str:
    return _STD_HEAD + "project(%s)\n" % p.replace("/", "_")


def _header(n: int) -> str:
    """a comment header (licence / build notes) of exactly n characters, all ASCII, made of complete lines"""
    line = "# This example project is in the Public Domain (or CC0 licensed, at your option); see the build notes of the project.\n"
    out = line * (n // len(line))
    rest = n - len(out)
    if rest == 1:
        out = out[:-1] + "#\n"  # the last line one character longer
    elif rest > 1:
        out += "#" * (rest - 1) + "\n"
    assert len(out) == n and out.endswith("\n"), (n, len(out))
    return out


def cmake_text(shape: str, p: str) -> bytes:
    """the CMakeLists.txt of project directory `p` in the given content shape"""
    name = p.replace("/", "_")
    call = f"project({name})\n"
    std = _STD_HEAD + call
    if shape == "std":
        t = std
    elif shape == "first_line":
        t = call
    elif shape == "no_final_newline":
        t = std[:-1]
    elif shape == "after_commands":
        t = ("cmake_minimum_required(VERSION 3.16)\n\nset(EXTRA_COMPONENT_DIRS \"$ENV{IDF_PATH}/examples/common\")\nset(COMPONENTS main)\n"
             "list(APPEND SDKCONFIG_DEFAULTS \"sdkconfig.defaults\")\nif(NOT DEFINED ENV{IDF_PATH})\n    message(FATAL_ERROR \"IDF_PATH is not set\")\nendif()\n"
             "string(REGEX REPLACE \"/$\" \"\" IDF \"$ENV{IDF_PATH}\")\ninclude(${IDF}/tools/cmake/project.cmake)\nidf_build_set_property(MINIMAL_BUILD ON)\n\n"
             + call + "\nidf_build_get_property(target IDF_TARGET)\n")  # fmt: skip
    elif shape == "blank_before_paren":
        t = _STD_HEAD + f"project ({name})\n"
    elif shape == "tab_before_paren":
        t = _STD_HEAD + f"project\t({name})\n"
    elif shape == "indented":
        t = _STD_HEAD + f"    project({name})\n"
    elif shape == "tab_indented":
        t = _STD_HEAD + f"\tproject({name})\n"
    elif shape == "args_on_next_lines":
        t = _STD_HEAD + f"project(\n    {name}\n    LANGUAGES C CXX\n)\n"
    elif shape == "crlf":
        t = std.replace("\n", "\r\n")
    elif shape == "header_4k":
        t = _header(4200) + std
    elif shape == "header_straddles_4096":
        t = _header(4092) + call
    elif shape == "header_ends_at_4096":
        t = _header(4096) + call
    elif shape == "header_straddles_8192":
        t = _header(8192 - 3 - len(_STD_HEAD)) + std
    elif shape == "header_64k":
        t = _header(70000) + std
    elif shape == "header_straddles_65536":
        t = _header(65536 - 7) + call
    elif shape == "header_not_utf8":
        return b"# Copyright \xa9 2024 Caf\xe9 M\xfcller GmbH \xff\xfe\n" * 8 + std.encode()
    elif shape == "commented_then_real":
        t = f"# project(old_{name})\n" + _STD_HEAD + f"#project(older_{name})\n" + call
    elif shape == "commented_out":
        t = _STD_HEAD + f"# project({name})\n"
    elif shape == "commented_out_tight":
        t = _STD_HEAD + f"#project({name})\n    #project({name})\n"
    elif shape == "commented_out_after_header":
        t = _header(5000) + _STD_HEAD + f"# project({name})\n"
    elif shape == "in_trailing_comment":
        t = f'idf_component_register(SRCS "a.c")  # project({name})\n'
    elif shape == "in_arguments":
        t = _STD_HEAD + f'message(STATUS "no project({name}) here")\nset(NOTE project ({name}))\n'
    elif shape == "longer_command_name":
        t = _STD_HEAD + f"project_include({name})\nsubproject({name})\nidf_project ({name})\n__project({name})\n"
    elif shape == "empty_file":
        t = ""
    elif shape == "upper_case":
        t = _STD_HEAD + f"PROJECT({name})\n"
    elif shape == "mixed_case":
        t = _STD_HEAD + f"Project({name})\n"
    elif shape == "bom_first_line":
        t = "\ufeff" + call
    else:
        raise ValueError(shape)
    return t.encode("utf-8")


def layout_projects(layout: dict, undetermined: bool = True) -> Tuple[str, ...]:
    """the project directories of the skeleton under this layout (CMAKE family: one of them may have lost / kept its status)"""
    cm = layout.get("cmake")
    if not cm:
        return PROJECTS
    is_proj = CMAKE_SHAPES[cm["shape"]][0]
    if is_proj is None:
        is_proj = undetermined
    return PROJECTS if is_proj else tuple(p for p in PROJECTS if p != cm["at"])


class _NullLog:
    """Stand-in for esp_pylib's rich logger inside the checker module: the observed result is the value returned per file
    (rendering the one-line messages through rich costs more than the check itself). The real logger and the real exit
    status are exercised by the CLI conformance step."""

    def __getattr__(self, name):
        return lambda *a, **kw: None


def mod():
    global _mod
    if _mod is None:
        import kconfcheck.check_deprecated_options as m

        if not os.environ.get("MCK_DEBUG"):
            m.log = _NullLog()
        _mod = m
    return _mod


# --------------------------------------------------------------------------------------------------
# specification (memo-free, from the statement)
# --------------------------------------------------------------------------------------------------


def parent(p: str) -> Optional[str]:
    if p == "":
        return None
    return p.rsplit("/", 1)[0] if "/" in p else ""


def nearest_project(place: str, projects: Tuple[str, ...]) -> Optional[str]:
    d: Optional[str] = place
    while d is not None:
        if d in projects:
            return d
        d = parent(d)
    return None


def under(place: str, directory: str) -> bool:
    return directory == "" or place == directory or place.startswith(directory + "/")


def spec_verdict(layout: dict, variant: tuple, fplace: str, literal_root: bool = False, undetermined: bool = True) -> bool:
    """True iff the defaults file at `fplace` must be flagged."""
    _via, explicit, includes = variant
    renames: Dict[str, str] = layout["renames"]
    projects = layout_projects(layout, undetermined) + (("",) if (layout["rootproj"] and literal_root) else ())
    scope = set()
    for rp, content in renames.items():
        is_global = rp == "" or under(rp, "components") or rp in explicit or any(under(rp, inc) for inc in includes)
        if is_global:
            scope.update(content)
    mine = nearest_project(fplace, projects)
    if mine is not None:
        for rp, content in renames.items():
            if nearest_project(rp, projects) == mine:
                scope.update(content)
    return bool(scope & set(layout["defaults"][fplace]))


# --------------------------------------------------------------------------------------------------
# enumeration
# --------------------------------------------------------------------------------------------------


def _assignments(max_files: int, contents: Tuple[str, ...], min_files: int = 0, universe: Optional[Tuple[int, ...]] = None):
    """all assignments of a content to <= max_files places of the universe (indices into PLACES)"""
    if universe is None:
        universe = tuple(range(N_ENUM_PLACES))
    for k in range(min_files, max_files + 1):
        for places in itertools.combinations(universe, k):
            for cs in itertools.product(contents, repeat=k):
                yield tuple(zip(places, cs))


def _swap(a):
    sw = {"X": "Y", "Y": "X", "XY": "XY"}
    return tuple((p, sw[c]) for p, c in a)


def _one_option(ren, dfl) -> bool:
    return all(c == "X" for _, c in ren) and all(c == "X" for _, c in dfl)


def _no_xy(a) -> bool:
    return all(c != "XY" for _, c in a)


def in_tier(ren, dfl, tier: str) -> bool:
    r, d = len(ren), len(dfl)
    if _one_option(ren, dfl):
        if tier == "thorough":
            return True
        return (r <= 2 and d <= 2) or (r <= 1 and d == 3) or (r == 3 and d == 1)
    if tier == "thorough":
        if r + d > 4:
            return False
        if d == 3:
            return _no_xy(dfl)
        if r == 2 and d == 2:
            return _no_xy(ren)
        return True
    if not (r <= 2 and d <= 2 and r + d <= 3):
        return False
    if r + d == 3:
        return _no_xy(ren) and _no_xy(dfl)
    return True


def in_tier_deep(ren, dfl, tier: str) -> bool:
    r, d = len(ren), len(dfl)
    if _one_option(ren, dfl):
        if tier == "thorough":
            return (r <= 3 and d <= 2) or (r <= 1 and d == 3)
        return r <= 2 and d <= 2
    if tier == "thorough":
        if r + d > 3:
            return False
        return r + d < 3 or (_no_xy(ren) and _no_xy(dfl))
    return r <= 2 and d == 1 and (r < 2 or _no_xy(ren))


def deep_layouts(tier: str):
    uni = tuple(PLACES.index(p) for p in DEEP_PLACES)
    rens = list(_assignments(3, CONTENTS, 0, uni))
    dfls = list(_assignments(3, CONTENTS, 1, uni))
    for ren in rens:
        for dfl in dfls:
            if not in_tier_deep(ren, dfl, tier):
                continue
            if (ren, dfl) > (_swap(ren), _swap(dfl)):
                continue  # X<->Y mirror image is enumerated instead
            for rootproj in (False, True) if tier == "thorough" else (False,):
                yield {
                    "family": "deep",
                    "rootproj": rootproj,
                    "renames": {PLACES[p]: c for p, c in ren},
                    "defaults": {PLACES[p]: c for p, c in dfl},
                }


def in_tier_spell(ren, dfl, tier: str) -> bool:
    r, d = len(ren), len(dfl)
    if _one_option(ren, dfl):
        return r <= (3 if tier == "thorough" else 2) and d <= 2
    return tier == "thorough" and r + d <= 3 and (r + d < 3 or (_no_xy(ren) and _no_xy(dfl)))


def _family(family: str, universe: Tuple[int, ...], accept, tier: str):
    rens = list(_assignments(3, CONTENTS, 0, universe))
    dfls = list(_assignments(3, CONTENTS, 1, universe))
    for ren in rens:
        for dfl in dfls:
            if not accept(ren, dfl, tier):
                continue
            if (ren, dfl) > (_swap(ren), _swap(dfl)):
                continue  # X<->Y mirror image is enumerated instead
            for rootproj in (False, True):
                yield {
                    "family": family,
                    "rootproj": rootproj,
                    "renames": {PLACES[p]: c for p, c in ren},
                    "defaults": {PLACES[p]: c for p, c in dfl},
                }


def spell_layouts(tier: str):
    """SPELL family: the 7 places of the basic skeleton; checked under every spelling of IDF_PATH"""
    yield from _family("spell", tuple(range(N_ENUM_PLACES)), in_tier_spell, tier)


def twin_layouts(tier: str):
    """TWIN family: the 5 places alpha, alpha/test_apps, beta, beta/test_apps, grp/test_apps (same bounds as the basic family)"""
    yield from _family("twin", tuple(PLACES.index(p) for p in TWIN_PLACES), in_tier, tier)


def in_tier_cmake(ren, dfl, tier: str) -> bool:
    r, d = len(ren), len(dfl)
    if not _one_option(ren, dfl) or r > 2 or d > 2:
        return False
    return tier == "thorough" or r <= 1 or d == 1


def cmake_layouts(tier: str):
    """CMAKE family: the CMakeLists.txt of one project directory in every content shape"""
    for base in _family("cmake", tuple(PLACES.index(p) for p in CMAKE_PLACES), in_tier_cmake, tier):
        if base["rootproj"] and tier != "thorough":
            continue
        used = tuple(base["renames"]) + tuple(base["defaults"])
        for at in CMAKE_AT:
            if not any(under(p, at) for p in used):
                continue  # no file of the layout lies in the subtree of that directory
            for shape in CMAKE_SHAPES:
                yield dict(base, cmake={"at": at, "shape": shape})


def flink_layouts(tier: str):
    """FLINK family: one regular defaults file (target), 1..k symbolic links to it at other places, rename files at 1..2 places"""
    thorough = tier == "thorough"
    for r in (1, 2):
        for rp in itertools.combinations(FLINK_PLACES, r):
            for target in FLINK_PLACES:
                others = [p for p in FLINK_PLACES if p != target]
                for k in (1, 2, 3) if thorough else (1, 2):
                    for lp in itertools.combinations(others, k):
                        for rootproj in (False, True) if thorough else (False,):
                            for absl in (False, True) if thorough else (False,):
                                yield {
                                    "family": "flink",
                                    "rootproj": rootproj,
                                    "renames": {p: "X" for p in rp},
                                    "defaults": {p: "X" for p in FLINK_PLACES if p == target or p in lp},
                                    "links": {p: target for p in lp},
                                    "link_abs": absl,
                                }


def layouts(tier: str):
    rens = list(_assignments(3, CONTENTS))
    dfls = list(_assignments(3, CONTENTS, 1))
    for ren in rens:
        for dfl in dfls:
            if not in_tier(ren, dfl, tier):
                continue
            if (ren, dfl) > (_swap(ren), _swap(dfl)):
                continue  # X<->Y mirror image is enumerated instead
            for rootproj in (False, True):
                yield {
                    "rootproj": rootproj,
                    "renames": {PLACES[p]: c for p, c in ren},
                    "defaults": {PLACES[p]: c for p, c in dfl},
                }
    # chain layouts: defaults files in D, D/S and D/S/T (D not a project root), rename files for X at <= 2 places
    for chain in CHAINS:
        for ren in _assignments(2, ("X",)):
            for rootproj in (False, True):
                yield {"rootproj": rootproj, "renames": {PLACES[p]: c for p, c in ren}, "defaults": {p: "X" for p in chain}}
    yield from deep_layouts(tier)
    yield from spell_layouts(tier)
    yield from twin_layouts(tier)
    yield from cmake_layouts(tier)
    yield from flink_layouts(tier)


def variants(layout: dict, tier: str) -> List[Tuple[tuple, bool]]:
    """[(variant, full_orders)], variant = (idf_via, explicit rename places, include dirs).  full_orders: every non-empty
    ordered selection; otherwise singletons + the full list forward and reversed (variants that only change the global set)."""
    rp = tuple(layout["renames"])
    thorough = tier == "thorough"
    if layout.get("family") == "spell":
        # the plain spelling first: the others are compared with it (run_layout)
        out = [(("env", (), ()), True)]
        out += [(("env:" + sp, (), ()), True) for sp in (SPELLINGS if thorough else SPELLINGS_QUICK)]
        if thorough:
            out.append((("env", (), ("examples/pa",)), False))
            out += [(("env:" + sp, (), ("examples/pa",)), False) for sp in SPELLINGS]
        return out
    if layout.get("family") == "twin":
        out = [(("env", (), ()), True), (("cwd", (), ()), True)]
        if thorough:
            out += [(("env", (), ("examples/alpha/test_apps",)), True), (("env", (), ("examples/grp",)), True)]
            out += [(("env", (p,), ()), False) for p in rp]
        return out
    if layout.get("family") == "cmake":
        out = [(("env", (), ()), True), (("cwd", (), ()), thorough)]
        if thorough:
            out.append((("env", (), ("examples/pa",)), True))
        return out
    if layout.get("family") == "flink":
        out = [(("env", (), ()), True), (("cwd", (), ()), True), (("env", (), ("examples",)), False)]
        if thorough:
            out += [(("env", (), ("examples/pa",)), True), (("env", rp[:1], ()), False)]
        return out
    deep = layout.get("family") == "deep"
    if deep:
        incs = DEEP_INCLUDE_DIRS_THOROUGH if thorough else DEEP_INCLUDE_DIRS_QUICK
    else:
        incs = INCLUDE_DIRS_THOROUGH if thorough else INCLUDE_DIRS_QUICK
    out: List[Tuple[tuple, bool]] = [(("env", (), ()), True)]
    for inc in incs:
        out.append((("env", (), inc), True))
    out.append((("cwd", (), ()), thorough))
    out.append((("cwd", (), ("examples/pa/apps",) if deep else ("examples",)), thorough))
    for p in rp:
        out.append((("env", (p,), ()), False))
    if len(rp) >= 2:
        out.append((("env", rp, ()), thorough))
    if thorough and rp:
        if len(rp) == 1:
            out.append((("env", rp, ()), True))
        out.append((("cwd", (rp[0],), ("examples/pa",)), True))
    return out


def orders(dplaces: Tuple[str, ...], full: bool) -> List[Tuple[str, ...]]:
    if full:
        out = []
        for k in range(1, len(dplaces) + 1):
            out.extend(itertools.permutations(dplaces, k))
        return out
    out = [(p,) for p in dplaces]
    if len(dplaces) > 1:
        out.append(tuple(dplaces))
        out.append(tuple(reversed(dplaces)))
    return out


# --------------------------------------------------------------------------------------------------
# driver: the real code, as main() calls it
# --------------------------------------------------------------------------------------------------


def _text_rename(content: str) -> str:
    lines = ["# old name              new name", ""]
    for o in content:
        lines.append(f"CONFIG_{o}             CONFIG_{o}_NEW")
    return "\n".join(lines) + "\n"


def _text_defaults(content: str) -> str:
    lines = ["# defaults", "CONFIG_Z=y"]
    for o in content:
        lines.append(f"CONFIG_{o}=y" if o == "X" else f"CONFIG_{o}=5")
    return "\n".join(lines) + "\n"


_tree: Dict[str, Any] = {}


def build_tree(layout: dict) -> str:
    """The layout on tmpfs.  The skeleton (directories, CMakeLists.txt of the projects) is created once per process; per
    layout the rename/defaults files of the previous layout are removed and the new ones created in a canonical order
    (root CMakeLists.txt, rename files, defaults files), so the directory-entry order that os.walk sees is the same as in a
    tree built from scratch (replay in a fresh process)."""
    base = os.path.join(common.scratch_dir("c19"), "idf")
    if _tree.get("base") != base or not os.path.isdir(base):
        shutil.rmtree(base, ignore_errors=True)
        for p in PLACES:
            os.makedirs(os.path.join(base, p), exist_ok=True)
        for p in PROJECTS:
            with open(os.path.join(base, p, "CMakeLists.txt"), "w") as f:
                f.write(_std_cmake(p))
        with open(os.path.join(base, "examples/pa/main", "CMakeLists.txt"), "w") as f:
            f.write('idf_component_register(SRCS "main.c")\n')
        with open(os.path.join(base, "components/c", "CMakeLists.txt"), "w") as f:
            f.write('idf_component_register(SRCS "c.c")\n')
        link = os.path.join(os.path.dirname(base), "idf_link")  # a second name of the IDF root (SPELL family)
        if os.path.lexists(link):
            os.unlink(link)
        os.symlink("idf", link)
        _tree.clear()
        _tree.update(base=base, files=[], rootproj=False, cmake=None)
    for fp in _tree["files"]:
        os.unlink(fp)
    _tree["files"] = files = []
    root_cmake = os.path.join(base, "CMakeLists.txt")
    if layout["rootproj"] != _tree["rootproj"]:
        if layout["rootproj"]:
            with open(root_cmake, "w") as f:
                f.write("cmake_minimum_required(VERSION 3.22)\n\nproject(esp-idf C CXX ASM)\n")
        else:
            os.unlink(root_cmake)
        _tree["rootproj"] = layout["rootproj"]
    cm = layout.get("cmake") or None
    if cm != _tree["cmake"]:
        # rewritten in place (the directory entry stays where it is)
        if _tree["cmake"]:
            with open(os.path.join(base, _tree["cmake"]["at"], "CMakeLists.txt"), "w") as f:
                f.write(_std_cmake(_tree["cmake"]["at"]))
        if cm:
            with open(os.path.join(base, cm["at"], "CMakeLists.txt"), "wb") as f:
                f.write(cmake_text(cm["shape"], cm["at"]))
        _tree["cmake"] = dict(cm) if cm else None
    for p in PLACES:
        if p in layout["renames"]:
            fp = os.path.join(base, p, "sdkconfig.rename")
            with open(fp, "w") as f:
                f.write(_text_rename(layout["renames"][p]))
            files.append(fp)
    for p in PLACES:
        if p in layout["defaults"]:
            fp = os.path.join(base, p, DEFAULTS_NAME[p])
            target = (layout.get("links") or {}).get(p)
            if target is not None:  # FLINK family: a symbolic link to the regular defaults file at `target`
                tp = fpath(base, target)
                os.symlink(tp if layout.get("link_abs") else os.path.relpath(tp, os.path.join(base, p)), fp)
            else:
                with open(fp, "w") as f:
                    f.write(_text_defaults(layout["defaults"][p]))
            files.append(fp)
    return base


class _Quiet:
    """The checker prints one line per file; keep the runner's stdout clean (fd level, restored afterwards)."""

    def __enter__(self):
        if os.environ.get("MCK_DEBUG"):
            self.saved = None
            return self
        sys.stdout.flush()
        sys.stderr.flush()
        self.saved = (os.dup(1), os.dup(2))
        fd = os.open(os.devnull, os.O_WRONLY)
        os.dup2(fd, 1)
        os.dup2(fd, 2)
        os.close(fd)
        return self

    def __exit__(self, *a):
        if self.saved is not None:
            sys.stdout.flush()
            sys.stderr.flush()
            os.dup2(self.saved[0], 1)
            os.dup2(self.saved[1], 2)
            os.close(self.saved[0])
            os.close(self.saved[1])


class ImplRaised(Exception):
    def __init__(self, exc: BaseException):
        tb = traceback.extract_tb(exc.__traceback__)
        site = "?"
        for fr in reversed(tb):
            if "/mck/" not in fr.filename:
                site = f"{os.path.basename(fr.filename)}:{fr.name}"
                break
        super().__init__(f"{type(exc).__name__}: {exc} at {site}")
        self.exc_type, self.site = type(exc).__name__, site


def fpath(base: str, place: str) -> str:
    return os.path.join(base, place, DEFAULTS_NAME[place]) if place else os.path.join(base, DEFAULTS_NAME[place])


def spell_idf_path(base: str, how: str) -> Tuple[str, Optional[str], str]:
    """(value of IDF_PATH, working directory or None, prefix the file arguments are spelled with) for one spelling of the
    IDF root `base` (an absolute, normalised path without symbolic links)"""
    parent_dir, name = os.path.split(base)
    if how == "":
        return base, None, base
    if how == "slash":
        return base + os.sep, None, base
    if how == "dslash":
        return parent_dir + os.sep + os.sep + name, None, base
    if how == "dotdot":
        return os.path.join(base, "components", ".."), None, base
    if how == "dot":
        return os.path.join(parent_dir, ".", name, "."), None, base
    if how == "rel_parent":
        return name, parent_dir, base
    if how == "rel_dot":
        return ".", base, base
    if how == "rel_up":
        return os.path.join("..", ".."), os.path.join(base, "examples", "pa"), base
    if how == "link+files":  # a symbolic link to the IDF root; the files are named through the same link
        link = os.path.join(parent_dir, "idf_link")
        return link, None, link
    if how == "link":  # the link in IDF_PATH only: the files are named by their real path (what os.getcwd() gives a hook)
        return os.path.join(parent_dir, "idf_link"), None, base
    raise ValueError(how)


def run_real_main(argv: List[str], inc: tuple) -> Tuple[List[Tuple[str, Optional[bool]]], List[str]]:
    """kconfcheck.core.main() itself (the click callback, in process) with --check deprecated; the two functions main() calls are
    wrapped to record the list of files after the prepare step and (path handed to the checker, verdict) per file."""
    import kconfcheck.core as core

    m = mod()
    rec_files: List[str] = []
    rec_out: List[Tuple[str, Optional[bool]]] = []
    saved = (core._prepare_deprecated_options, core.check_deprecated_options, core.log)

    def prep(includes, exclude_submodules, files):
        res = m._prepare_deprecated_options(includes, exclude_submodules, files)
        rec_files.extend(res[0])
        return res

    def chk(full_path, *a, **kw):
        v = m.check_deprecated_options(full_path, *a, **kw)
        rec_out.append((os.path.abspath(full_path), v))
        return v

    core._prepare_deprecated_options, core.check_deprecated_options = prep, chk
    if not os.environ.get("MCK_DEBUG"):
        core.log = _NullLog()
    try:
        try:
            core.main.callback(check="deprecated", files=tuple(argv), verbose=0, replace=False, includes=tuple(inc), exclude_submodules=())
        except SystemExit:
            pass
    finally:
        core._prepare_deprecated_options, core.check_deprecated_options, core.log = saved
    return rec_out, rec_files


def invoke(base: str, variant: tuple, order: Tuple[str, ...], real_main: bool = False) -> Tuple[List[Tuple[str, Optional[bool]]], List[str]]:
    """One kconfcheck invocation. Returns ([(absolute file, verdict)] in check order, files list after prepare)."""
    m = mod()
    via, explicit, includes = variant
    argv = [fpath(base, p) for p in order]
    ex = [os.path.join(base, p, "sdkconfig.rename") for p in explicit]
    # explicit rename files: a single one goes last, several go first (both positions occur on a command line)
    argv = argv + ex if len(ex) == 1 else ex + argv
    saved_env = os.environ.get("IDF_PATH")
    cwd = os.getcwd()
    fbase = base
    try:
        if via.startswith("env"):
            spelling, chdir_to, fbase = spell_idf_path(base, via[4:])
            if fbase != base:
                argv = [fbase + a[len(base) :] if a.startswith(base + os.sep) else a for a in argv]
            os.environ["IDF_PATH"] = spelling
            inc = tuple(os.path.join(fbase, d) if d else fbase for d in includes)
            if chdir_to is not None:
                os.chdir(chdir_to)
        else:
            os.environ.pop("IDF_PATH", None)
            os.chdir(base)
            inc = tuple(d if d else "." for d in includes)  # relative, as typed in the ESP-IDF checkout
        # --- what main() does -------------------------------------------------------------------
        files = [os.path.abspath(p) for p in argv]
        try:
            if real_main:
                out, files = run_real_main(argv, inc)
                return out, [os.path.abspath(f) for f in files]
            files, glob, local, ignore_dirs, cache, abs_idf = m._prepare_deprecated_options(inc, (), files)
            out = []
            for full_path in files:
                out.append((os.path.abspath(full_path), m.check_deprecated_options(full_path, glob, local, ignore_dirs, cache, abs_idf)))
        except Exception as e:  # noqa: BLE001 -- an exception out of the code under test is an observation
            raise ImplRaised(e) from e
        files = [os.path.abspath(f) for f in files]
        if fbase != base:  # report under the real name of the tree
            out = [(base + a[len(fbase) :] if a.startswith(fbase + os.sep) else a, v) for a, v in out]
            files = [base + a[len(fbase) :] if a.startswith(fbase + os.sep) else a for a in files]
        return out, files
    finally:
        os.chdir(cwd)
        if saved_env is None:
            os.environ.pop("IDF_PATH", None)
        else:
            os.environ["IDF_PATH"] = saved_env


def place_of(base: str, path: str) -> str:
    rel = os.path.relpath(os.path.dirname(path), base)
    return "" if rel == "." else rel


def relation(layout: dict, fplace: str, opt_places: List[str]) -> str:
    """How the rename files that mention an option of the file relate to the file's place (for the signature)."""
    rels = set()
    projects = layout_projects(layout)
    mine = nearest_project(fplace, projects)
    for rp in opt_places:
        theirs = nearest_project(rp, projects)
        if rp == "":
            rels.add("idf_root")
        elif under(rp, "components"):
            rels.add("component")
        elif theirs is None:
            rels.add("orphan")
        elif theirs == mine:
            rels.add("own_project")
        elif mine is not None and under(theirs, mine):
            # levels between the file's project and the nested project that holds the rename file
            lv = theirs.count("/") - mine.count("/")
            rels.add("nested_project" if lv == 1 else f"nested_project_{lv}_levels_down")
        elif mine is not None and under(mine, theirs):
            rels.add("enclosing_project")
        else:
            rels.add("sibling_project" if mine is not None else "some_project")
    return "+".join(sorted(rels)) or "none"


def file_scope(fplace: str) -> str:
    if nearest_project(fplace, PROJECTS) is not None:
        return "project"
    return "idf_root_dir" if fplace == "" else "component" if under(fplace, "components") else "orphan_dir"


def variant_kind(variant: tuple) -> str:
    via, explicit, includes = variant
    return f"{via}{'+explicit' if explicit else ''}{'+includes' if includes else ''}"


def check_group(layout: dict, variant: tuple, order_list: List[Tuple[str, ...]], r: common.Result, base: str) -> Dict[str, bool]:
    """All invocations of one (layout, variant); applies O1..O3.  Returns the verdict map of the first observation."""
    seen: Dict[str, Dict[bool, Tuple[str, ...]]] = {}
    via, explicit, includes = variant
    for order in order_list:
        case = {"layout": layout, "variant": [via, list(explicit), list(includes)], "orders": [list(order)]}
        r.evals += 1
        try:
            res, files = invoke(base, variant, order, real_main=layout.get("family") == "flink")
        except ImplRaised as e:
            r.violation(
                {"kind": "exception", "exc": e.exc_type, "site": e.site, "variant": variant_kind(variant)},
                f"{e} for layout {layout} variant {variant} order {order}",
                case,
            )
            continue
        # O3: the to-check list
        want = set(fpath(base, p) for p in order)
        for inc in includes:
            want.update(fpath(base, p) for p in layout["defaults"] if under(p, inc))
        got = set(files)
        if got != want or any(f.endswith("sdkconfig.rename") for f in files):
            r.violation(
                {"kind": "file_list", "site": "check_deprecated_options.py:_prepare_deprecated_options", "variant": variant_kind(variant),
                 "extra": sorted(os.path.basename(x) for x in got - want), "missing": sorted(os.path.basename(x) for x in want - got),
                 **({"checked_file_is": "symlink", "site": "core.py:main"} if any(place_of(base, x) in (layout.get("links") or {}) for x in (got ^ want)) else {})},
                f"files to check {sorted(place_of(base, f) for f in got)} but requested {sorted(place_of(base, f) for f in want)} ({layout}, {variant}, {order})",
                case,
            )
        for idx, (path, verdict) in enumerate(res):
            fplace = place_of(base, path)
            if fplace not in layout["defaults"] or path != fpath(base, fplace):
                continue  # reported by O3
            if verdict is None:
                r.violation(
                    {"kind": "ignored", "site": "check_deprecated_options.py:check_deprecated_options", "file_at": fplace},
                    f"file at {fplace!r} reported as ignored without --exclude-submodules ({layout}, {variant}, {order})",
                    case,
                )
                continue
            flagged = verdict is False
            # O1
            want_a = spec_verdict(layout, variant, fplace, literal_root=False)
            want_b = spec_verdict(layout, variant, fplace, literal_root=True)
            cm = layout.get("cmake")
            if via not in ("env", "cwd"):
                pass  # another spelling of IDF_PATH: compared with the plain spelling (O4), which is itself under O1
            elif cm and CMAKE_SHAPES[cm["shape"]][0] is None and want_a != spec_verdict(layout, variant, fplace, undetermined=False):
                # PROJECT( / Project( / BOM + project(: the documentation does not say whether that directory is a project
                r.count("ambiguous_project_spelling")
                r.skipped += 1
            elif want_a != want_b and nearest_project(fplace, PROJECTS) is None and fplace not in ("", "components/c"):
                # the file itself lives in the orphan directory under a root that calls project(): see ASSUMPTIONS
                r.count("ambiguous_root_project")
                r.skipped += 1
            elif flagged != want_a:
                opts = layout["defaults"][fplace]
                blame = [rp for rp, c in layout["renames"].items() if set(c) & set(opts)]
                sig = {
                    "kind": "verdict",
                    "site": "check_deprecated_options.py:check_deprecated_options",
                    "error": "false_alarm" if flagged else "missed",
                    "file_at": fplace,
                    "rename_at": relation(layout, fplace, blame),
                    "position": "first" if idx == 0 else "after_other_files",
                    "variant": variant_kind(variant),
                    "root_is_project": layout["rootproj"],
                }
                if layout.get("links"):
                    sig["site"] = "core.py:main"
                    sig["checked_file_is"] = "symlink_to_" + file_scope(layout["links"][fplace]) if fplace in layout["links"] else "target_of_symlink"
                if cm:
                    sig["site"] = "check_deprecated_options.py:_is_project_root"
                    sig["cmakelists"] = f"{CMAKE_SHAPES[cm['shape']][1]}@{cm['at']}"
                r.violation(
                    sig,
                    f"file at {fplace!r} (uses {opts}) {'flagged' if flagged else 'not flagged'}, specification says "
                    f"{'flagged' if want_a else 'not flagged'}; rename files {layout['renames']}, variant {variant}, checked in order {order}"
                    + (f"; CMakeLists.txt of {cm['at']} in shape {cm['shape']!r} ({ {True: 'a project', False: 'not a project', None: 'undetermined'}[CMAKE_SHAPES[cm['shape']][0]]})" if cm else ""),
                    case,
                )
            # O2
            s = seen.setdefault(fplace, {})
            if flagged not in s:
                s[flagged] = order
                if len(s) == 2:
                    other = s[not flagged]
                    r.violation(
                        {
                            "kind": "order_dependence",
                            "site": "check_deprecated_options.py:_find_project_root",
                            "file_at": fplace,
                            "variant": variant_kind(variant),
                            "root_is_project": layout["rootproj"],
                        },
                        f"file at {fplace!r}: {'flagged' if flagged else 'not flagged'} when the argument list is {order}, "
                        f"{'not flagged' if flagged else 'flagged'} when it is {other}; rename files {layout['renames']}, variant {variant}",
                        {"layout": layout, "variant": [via, list(explicit), list(includes)], "orders": [list(other), list(order)]},
                    )
    return {p: (True in s) for p, s in sorted(seen.items())}


def compare_spellings(layout: dict, plain: tuple, variant: tuple, order_list: List[Tuple[str, ...]], r: common.Result,
                      plain_verd: Dict[str, bool], verd: Dict[str, bool]) -> None:  # fmt: skip
    """O4: a spelling of IDF_PATH that denotes the same directory gives every file the verdict of the plain spelling"""
    for fplace in sorted(set(plain_verd) | set(verd)):
        if plain_verd.get(fplace) == verd.get(fplace):
            continue
        word = {True: "flagged", False: "not flagged", None: "not reported"}
        r.violation(
            {
                "kind": "idf_path_spelling_dependence",
                "site": "check_deprecated_options.py:_prepare_deprecated_options",
                "spelling": variant[0],
                "file_in": file_scope(fplace),
                "became": word[verd.get(fplace)].replace(" ", "_"),
                "root_is_project": layout["rootproj"],
            },
            f"file at {fplace!r}: {word[plain_verd.get(fplace)]} with IDF_PATH=<idf>, {word[verd.get(fplace)]} with the spelling {variant[0]!r} "
            f"({spell_idf_path('<parent>/idf', variant[0][4:])[0]}); rename files {layout['renames']}, defaults {layout['defaults']}",
            {"layout": layout, "variant": [variant[0], list(variant[1]), list(variant[2])], "orders": [list(o) for o in order_list],
             "compare_with": [plain[0], list(plain[1]), list(plain[2])]},
        )


def run_layout(layout: dict, tier: str, r: common.Result) -> None:
    base = build_tree(layout)
    dplaces = tuple(layout["defaults"])
    first = None
    plain_verds: Dict[tuple, Dict[str, bool]] = {}
    for variant, full in variants(layout, tier):
        verd = check_group(layout, variant, orders(dplaces, full), r, base)
        if layout.get("family") == "spell":
            if variant[0] == "env":
                plain_verds[variant[1:]] = verd
            else:
                compare_spellings(layout, ("env",) + variant[1:], variant, orders(dplaces, full), r, plain_verds[variant[1:]], verd)
                r.count("spelling_" + variant[0][4:])
        _via, explicit, includes = variant
        r.outcome((layout["rootproj"], sorted(layout["renames"].items()), sorted(layout["defaults"].items()), explicit, includes, sorted(verd.items()))
                  + ((_via,) if _via not in ("env", "cwd") else ()) + ((tuple(sorted(layout["links"].items())), layout["link_abs"]) if layout.get("links") else ()) + ((layout["cmake"]["at"], layout["cmake"]["shape"]) if layout.get("cmake") else ()))  # fmt: skip
        if first is None:
            first = verd
    r.sample = {"layout": layout, "verdicts_plain": first, "invocations": r.evals}


def items(tier: str, seed: int):
    # the tier travels with the item (workers do not see the command line)
    return [(tier, l) for l in layouts(tier)]


def run_item(item) -> common.Result:
    tier, layout = item
    r = common.Result()
    r.programs = 1
    run_layout(layout, tier, r)
    return r


def replay(case) -> List[dict]:
    r = common.Result()
    layout = case["layout"]
    via, explicit, includes = case["variant"]
    variant = (via, tuple(explicit), tuple(includes))
    if case.get("cli"):
        v = cli_compare(layout, variant, tuple(case["orders"][0]))
        if v is not None:
            r.violation(v["sig"], v["msg"], v["case"])
        return r.viols
    base = build_tree(layout)
    order_list = [tuple(o) for o in case["orders"]]
    verd = check_group(layout, variant, order_list, r, base)
    if case.get("compare_with"):
        pv, pe, pi = case["compare_with"]
        plain = (pv, tuple(pe), tuple(pi))
        compare_spellings(layout, plain, variant, order_list, r, check_group(layout, plain, order_list, r, base), verd)
    return r.viols


# --------------------------------------------------------------------------------------------------
# conformance: the same cases through the real command line
# --------------------------------------------------------------------------------------------------

_LINE = re.compile(r"^(?:WARNING: )?(\S+): (OK$|The following options are deprecated)")


def cli_compare(layout: dict, variant: tuple, order: Tuple[str, ...]) -> Optional[dict]:
    via, explicit, includes = variant
    base = build_tree(layout)
    try:
        with _Quiet():
            want, _files = invoke(base, variant, order, real_main=layout.get("family") == "flink")
    except ImplRaised:
        return None  # reported by the exploration itself
    argv = [fpath(base, p) for p in order] + [os.path.join(base, p, "sdkconfig.rename") for p in explicit]
    cmd = [common.PY, "-m", "kconfcheck", "--check", "deprecated"] + argv
    if includes:
        cmd += ["--includes"] + [os.path.join(base, d) for d in includes]
    env = dict(os.environ)
    env["IDF_PATH"] = base
    env["COLUMNS"] = "1000"
    p = subprocess.run(cmd, cwd=base, env=env, stdout=subprocess.PIPE, stderr=subprocess.STDOUT, text=True, timeout=120)
    got = []
    for line in p.stdout.splitlines():
        mm = _LINE.match(line.strip())
        if mm:
            got.append((os.path.abspath(os.path.join(base, mm.group(1))), mm.group(2) == "OK"))
    exp_rc = 1 if any(v is False for _, v in want) else 0
    if sorted(got) != sorted(want) or p.returncode != exp_rc:
        return {
            "sig": {"kind": "cli_conformance", "site": "core.py:main"},
            "msg": f"CLI verdicts {sorted((place_of(base, a), b) for a, b in got)} rc={p.returncode}, in-process driver "
            f"{sorted((place_of(base, a), b) for a, b in want)} rc={exp_rc} for {layout} {variant} {order}",
            "case": {"layout": layout, "variant": [via, list(explicit), list(includes)], "orders": [list(order)], "cli": True},
        }
    return None


def conformance(tier: str, seed: int):
    all_l = list(layouts("quick"))
    step = max(1, len(all_l) // (10 if tier == "quick" else 40))
    picked = [l for l in all_l[::step] if l["renames"]]
    fl = [l for l in all_l if l.get("family") == "flink"]
    picked += fl[:: max(1, len(fl) // (6 if tier == "quick" else 24))]  # the checked file is a symbolic link: through the real CLI too
    viols = []
    n = 0
    for layout in picked:
        order = tuple(reversed(tuple(layout["defaults"])))
        explicit = tuple(layout["renames"])[:1] if n % 3 == 0 else ()
        includes = ("examples/pa",) if n % 2 == 0 else ()
        v = cli_compare(layout, ("env", explicit, includes), order)
        n += 1
        if v is not None:
            viols.append(v)
    return n, viols

"""C05 -- a choice always has exactly one selected member.

Explicit-state search per program over: set(member, y|n), set(condition symbol, y|n), reset(member),
reset(choice node), load / merge of files assigning 0-3 members in every order (several =y, only n's, a member of a
currently invisible choice).  Oracle in every state, for every choice: the structural invariant of the statement,
the reference selection (mck/refsem.py with the user's pick tracked along the history), and the header / CMake / JSON /
sdkconfig outputs defining exactly that member.
"""

from __future__ import annotations

import itertools
import json
import os
import re
from typing import Any, Dict, Iterator, List, Optional, Tuple

from .. import common, explore, impl, kgen, refsem
from ..kgen import And, Cfg, Choice, If, L, Menu, Not, Or, Program, S

ID = "C05"
LEVEL = "model_checking"
RULE = (
    "explicit-state BFS per program (families: 2-3 members with prompt conditions in {none,A,!A,B} x choice prompt/depends "
    "conditions x 0-2 conditional defaults; named/unnamed, nested, named choice defined twice, if/menu inside the choice, "
    "promptless member) over set/reset/load/merge operations; states merged on (user values, user selections). "
    "distinct_nontrivial = distinct (program, user state) pairs in which some choice has a hidden member, a user pick, or is invisible."
)
ASSUMPTIONS = [
    "the user's pick is the last member set to y since the last reset / replacing load (mck/refsem.RefState)",
    "Symbol.unset_value on members is not in the alphabet (UI-level reset is what users have)",
    "loaded files carry no default-marked entries (C08 owns those)",
]


def A(name):
    return Cfg(name, "bool", prompt=name.lower())


COND = {"none": None, "A": S("A"), "!A": Not(S("A")), "B": S("B")}


def programs(tier: str) -> Iterator[Tuple[str, Program]]:
    mconds2 = list(itertools.product(("none", "A", "!A", "B"), repeat=2))
    cvis = [("none", None), ("prompt", "A"), ("depends", "A"), ("depends", "B")]
    dfls = [[], [("M2", "none")], [("M2", "A")], [("M2", "B"), ("M1", "none")], [("M1", "!A"), ("M2", "none")]]
    for (c1, c2), (vk, vc), dfl in itertools.product(mconds2, cvis, dfls):
        if tier == "quick" and c1 == "B" and c2 == "B":
            continue
        ch = Choice(prompt="c", children=[Cfg("M1", "bool", prompt="m1", prompt_cond=COND[c1]), Cfg("M2", "bool", prompt="m2", prompt_cond=COND[c2])])
        if vk == "prompt":
            ch.prompt_cond = S(vc)
        elif vk == "depends":
            ch.depends.append(S(vc))
        for m, c in dfl:
            ch.defaults.append((m, COND[c]))
        used = {x.strip("!") for x in (c1, c2) if x != "none"} | ({vc} if vc else set()) | {c.strip("!") for _, c in dfl if c != "none"}
        kids = [A(n) for n in sorted(used)] + [ch]
        yield ("two", Program(children=kids))
    # three members
    m3 = list(itertools.product(("none", "A", "!A"), repeat=3)) if tier == "quick" else list(itertools.product(("none", "A", "!A", "B"), repeat=3))
    for cs in m3:
        for dfl in ([], [("M3", "A"), ("M2", "none")], [("M2", "!A")]):
            ch = Choice(prompt="c", children=[Cfg(f"M{i+1}", "bool", prompt=f"m{i+1}", prompt_cond=COND[c]) for i, c in enumerate(cs)])
            for m, c in dfl:
                ch.defaults.append((m, COND[c]))
            used = {x.strip("!") for x in cs if x != "none"} | {c.strip("!") for _, c in dfl if c != "none"}
            yield ("three", Program(children=[A(n) for n in sorted(used)] + [ch]))
    # named
    yield ("named", Program(children=[A("A"), Choice(name="CH", prompt="c", defaults=[("M2", S("A"))], children=[Cfg("M1", "bool", prompt="m1"), Cfg("M2", "bool", prompt="m2")])]))
    # named choice defined at two places
    for c2 in ("none", "A"):
        yield ("twice", Program(children=[A("A"), Choice(name="CH", prompt="c", children=[Cfg("M1", "bool", prompt="m1", prompt_cond=S("A"))]),
                                          Cfg("MID", "bool", prompt="mid"),
                                          Choice(name="CH", prompt=None, defaults=[("M3", COND[c2])] if c2 != "none" else [], children=[Cfg("M2", "bool", prompt="m2"), Cfg("M3", "bool", prompt="m3")])]))
    # if block / menu inside the choice
    yield ("if_inside", Program(children=[A("A"), Choice(prompt="c", children=[Cfg("M1", "bool", prompt="m1"), If(cond=S("A"), children=[Cfg("M2", "bool", prompt="m2"), Cfg("M3", "bool", prompt="m3")])])]))
    yield ("if_inside_default", Program(children=[A("A"), Choice(prompt="c", defaults=[("M2", None)], children=[Cfg("M1", "bool", prompt="m1"), If(cond=S("A"), children=[Cfg("M2", "bool", prompt="m2")])])]))
    yield ("menu_inside", Program(children=[A("A"), Choice(prompt="c", children=[Cfg("M1", "bool", prompt="m1"), Cfg("M2", "bool", prompt="m2"),
                                                                                 Menu(title="sub", visible_if=[S("M2")], children=[Cfg("N", "int", prompt="n", defaults=[(L("3"), None)])])])]))
    # member without prompt
    yield ("promptless_member", Program(children=[A("A"), Choice(prompt="c", defaults=[("M2", S("A"))], children=[Cfg("M1", "bool", prompt="m1"), Cfg("M2", "bool"), Cfg("M3", "bool", prompt="m3")])]))
    # nested choice
    yield ("nested", Program(children=[A("A"), Choice(prompt="outer", children=[Cfg("M1", "bool", prompt="m1"), Cfg("M2", "bool", prompt="m2"),
                                                                                 Choice(prompt="inner", prompt_cond=S("A"), children=[Cfg("I1", "bool", prompt="i1"), Cfg("I2", "bool", prompt="i2")])])]))
    # member depending on another choice's member; select targeting nothing in the choice
    yield ("two_choices", Program(children=[Choice(prompt="c1", children=[Cfg("P1", "bool", prompt="p1"), Cfg("P2", "bool", prompt="p2")]),
                                            Choice(prompt="c2", defaults=[("M2", S("P2"))], children=[Cfg("M1", "bool", prompt="m1"), Cfg("M2", "bool", prompt="m2", depends=[S("P2")])])]))
    # choice under menu with depends / visible if
    for w in ("depends", "visible"):
        menu = Menu(title="m", children=[Choice(prompt="c", children=[Cfg("M1", "bool", prompt="m1"), Cfg("M2", "bool", prompt="m2")])])
        (menu.depends if w == "depends" else menu.visible_if).append(S("A"))
        yield ("in_menu_" + w, Program(children=[A("A"), menu]))


def load_files(members: List[str], others: List[str]) -> List[str]:
    out = []
    m = members
    out.append("")  # empty file: replace clears everything
    out.append(f"CONFIG_{m[0]}=y\n")
    out.append(f"CONFIG_{m[-1]}=y\n")
    out.append(f"# CONFIG_{m[0]} is not set\n")
    out.append(f"CONFIG_{m[0]}=y\nCONFIG_{m[-1]}=y\n")
    out.append(f"CONFIG_{m[-1]}=y\nCONFIG_{m[0]}=y\n")
    out.append("".join(f"# CONFIG_{x} is not set\n" for x in m))
    out.append(f"# CONFIG_{m[-1]} is not set\nCONFIG_{m[0]}=y\n")
    out.append(f"CONFIG_{m[0]}=y\n# CONFIG_{m[0]} is not set\n" if len(m) < 3 else f"CONFIG_{m[1]}=y\n# CONFIG_{m[0]} is not set\nCONFIG_{m[2]}=y\n")
    if others:
        out.append(f"# CONFIG_{others[0]} is not set\nCONFIG_{m[-1]}=y\n")
        out.append(f"CONFIG_{m[-1]}=y\nCONFIG_{others[0]}=y\n")
    return list(dict.fromkeys(out))


def items(tier: str, seed: int):
    depth = 3 if tier == "quick" else 4
    return [{"family": f, "files": kgen.render(p), "prog": p, "depth": depth} for f, p in programs(tier)]


def op_menu(model: refsem.Model) -> List[tuple]:
    ops: List[tuple] = []
    members = [m for ci in model.choices for m in ci.members]
    others = [n for n in model.order if n not in members and model.syms[n].type == "bool" and any(d.prompt is not None for d in model.syms[n].defs)]
    for m in members:
        ops.append(("set", m, "y"))
        ops.append(("set", m, "n"))
    for o in others:
        ops.append(("set", o, "y"))
        ops.append(("set", o, "n"))
    if members:
        ops.append(("reset", members[0]))
    for ci in model.choices:
        ops.append(("resetc", ci.idx))
    if others:
        ops.append(("reset", others[0]))
    if members:
        for t in load_files(model.choices[0].members, others):
            ops.append(("load", t, True))
            ops.append(("load", t, False))
    return ops


DEF_RE = re.compile(r"#define CONFIG_([A-Za-z0-9_]+) (.*)")
CM_RE = re.compile(r'set\(CONFIG_([A-Za-z0-9_]+) "(.*)"\)')


def outputs_members(inst) -> Dict[str, set]:
    import kconfgen.core as kg

    hdr = inst.header_text()
    in_hdr = {m.group(1) for m in map(DEF_RE.match, hdr.splitlines()) if m}
    p = impl.tmpfile("cmake")
    kg.write_cmake(inst.k, p)
    with open(p) as f:
        cm = f.read()
    os.unlink(p)
    in_cm = {m.group(1) for m in map(CM_RE.match, cm.splitlines()) if m and m.group(2) not in ("",)}
    js = inst.json_values()
    in_js = {k for k, v in js.items() if v is True}
    cfg = inst.config_text()
    in_cfg = {m.group(1) for m in re.finditer(r"^CONFIG_([A-Za-z0-9_]+)=y$", cfg, re.M)}
    return {"header": in_hdr, "cmake": in_cm, "json": in_js, "sdkconfig": in_cfg}


def explore_item(item, r: common.Result, only_history=None):
    files, prog, fam = item["files"], item["prog"], item["family"]
    model = refsem.build(prog)
    ptext = files["Kconfig"]
    ops = op_menu(model)

    def build(h):
        return impl.replay_ops(files, h)

    def enabled(h, st):
        return ops

    def canon(st):
        k = st.k
        return (
            tuple(s._user_value for s in k.unique_defined_syms),
            tuple(c._user_selection.name if c._user_selection is not None else None for c in k.unique_choices),
        )

    def case_of(h):
        return {"family": fam, "program": ptext, "files": files, "history": [list(o) for o in h], "depth": item["depth"]}

    def check(h, st):
        check_on(h, st, "fresh")
        if h:
            # the same history on one live instance that is READ after every operation (as a front end does): the
            # invariant must hold there too (stale memoised selections / member values)
            live = impl.Inst(files)
            try:
                for op in h:
                    impl.apply_op(live, op)
                    live.obs()
                    live.choice_obs()
            except Exception:  # noqa: BLE001 -- reported by the fresh path's on_raise
                return
            check_on(h, live, "read_after_every_op")

    def check_on(h, st, mode):
        r.evals += 1
        ref = refsem.RefState(model)
        for op in h:
            ref.apply(op)
        ev = ref.eval()
        k = st.k
        vals = st.values()
        nontrivial = False
        outs = None
        for ci in model.choices:
            ch = k.unique_choices[ci.idx]
            members = ci.members
            impl_members = [s.name for s in ch.syms]
            if impl_members != members:
                r.violation({"kind": "membership", "family": fam}, f"[{fam}] members {impl_members} vs reference {members}", case_of(h))
                continue
            ys = [m for m in members if vals[m] == "y"]
            cvis = ch.visibility
            mvis = [m for m in members if k.syms[m].visibility]
            exp_sel = ev.selection(ci.idx)
            if cvis == 0 or len(mvis) < len(members) or ci.idx in ref.picks:
                nontrivial = True
            if cvis and mvis:
                if len(ys) != 1:
                    r.violation(
                        {"kind": "not_exactly_one", "family": fam, "count": len(ys), "mode": mode},
                        f"[{fam}] after {fmt(h)}: visible choice with visible members {mvis} has members at y: {ys}",
                        case_of(h),
                    )
            if not cvis and ys:
                r.violation({"kind": "invisible_choice_has_y", "family": fam, "mode": mode}, f"[{fam}] after {fmt(h)}: invisible choice has {ys} at y", case_of(h))
            if cvis != ev.choice_vis(ci.idx):
                r.violation({"kind": "choice_visibility", "family": fam}, f"[{fam}] after {fmt(h)}: choice visibility {cvis}, reference {ev.choice_vis(ci.idx)}", case_of(h))
            sel = ch.selection
            seln = sel.name if sel is not None else None
            if seln != exp_sel or ys != ([exp_sel] if exp_sel else []):
                why = "pick" if ci.idx in ref.picks else "default"
                r.violation(
                    {"kind": "wrong_member", "family": fam, "expected_from": why, "last_op": h[-1][0] if h else "init", "mode": mode},
                    f"[{fam}] after {fmt(h)}: selection {seln} / members at y {ys}, documented rule gives {exp_sel} (pick={ref.picks.get(ci.idx)})",
                    case_of(h),
                )
            if mode != "fresh":
                continue  # the generators read through the same properties; their agreement is checked on the fresh path
            if outs is None:
                outs = outputs_members(st)
            for fmt_name, present in outs.items():
                got = sorted(m for m in members if m in present)
                if got != ys:
                    r.violation(
                        {"kind": "output_disagrees", "format": fmt_name, "family": fam, "mode": mode},
                        f"[{fam}] after {fmt(h)}: {fmt_name} defines members {got}, values say {ys}",
                        case_of(h),
                    )
        if nontrivial and mode == "fresh":
            r.outcome((ptext, canon(st)))

    def on_raise(h, e):
        if not isinstance(e, impl.OpRaised):
            raise e
        r.violation({"kind": "exception", "exc": e.exc_type, "site": e.site, "op": e.op[0]}, f"[{fam}] {fmt(h)}: {e}", case_of(h))

    if only_history is not None:
        h = tuple(tuple(o) for o in only_history)
        try:
            check(h, build(h))
        except impl.OpRaised as e:
            r.violation({"kind": "exception", "exc": e.exc_type, "site": e.site, "op": e.op[0]}, f"[{fam}] {fmt(h)}: {e}", case_of(h))
        return None
    # the key (all user values + all user selections) determines every value the oracle reads (no default-marked loads
    # in this alphabet, hence no injected defaults), so revisited states need not be re-checked
    st = explore.bfs(build, enabled, canon, check, item["depth"], on_raise=on_raise, check_revisits=False)
    r.states += st.states
    r.transitions += st.transitions
    return st


def fmt(h) -> str:
    return " ; ".join("(" + ",".join(map(repr, o)) + ")" for o in h)


def run_item(item) -> common.Result:
    r = common.Result()
    r.programs = 1
    st = explore_item(item, r)
    r.sample = {"family": item["family"], "program": item["files"]["Kconfig"], "states": st.states, "transitions": st.transitions, "max_depth": st.max_depth}
    return r


def replay(case) -> List[dict]:
    for tier in ("quick", "thorough"):
        for f, p in programs(tier):
            if f == case["family"] and kgen.render(p)["Kconfig"] == case["program"]:
                r = common.Result()
                explore_item({"family": f, "files": case["files"], "prog": p, "depth": case["depth"]}, r, only_history=case["history"])
                return r.viols
    raise SystemExit("replay: program not found")

"""C05 -- a choice always has exactly one selected member.

Explicit-state search per program over: set(member, y|n), set(condition symbol, y|n), reset(member),
reset(choice node), load / merge of files assigning 0-3 members in every order (several =y, only n's, a member of a
currently invisible choice).  Oracle in every state, for every choice: the structural invariant of the statement,
the reference selection (mck/refsem.py with the user's pick tracked along the history), and the header / CMake / JSON /
sdkconfig outputs defining exactly that member.

Two instance disciplines are explored (the statement speaks of "every configuration", which includes configurations
reached on an instance that a front end keeps alive and evaluates between the user's edits):

* fresh  -- the history is applied to a new instance and the configuration is evaluated once, at the end;
* live   -- ONE instance, and the configuration is EVALUATED BETWEEN operations (so memoised visibilities, values and
            selections exist when the next operation arrives).  Dimensions:
              - how it is evaluated (READS): "values" (every option's value, as the output writers and kconfserver do
                -- never asks a choice for its selection), "full" (values, visibilities, assignable + every choice's
                selection); thorough also "shown" (what a menu front end touches: prompt conditions, and values /
                selections of the visible items only), "choices" (only the choices) and "outputs" (the real
                header/CMake/JSON/sdkconfig writers);
              - when: (1) a second explicit-state search per program and READS kind in which the configuration is
                evaluated before the first and after every operation (load alphabet reduced to one file per effect
                class); its states are merged on (user values, user selections, the CONTENT of every memo cell), taken
                right after an evaluation -- everything that an instance carries into the next operation, so a
                transition into a seen state (hide -> show again, pick -> reset ...) is known to behave like it;
                (2) for the first history reaching each state of the fresh search (full alphabet): evaluation at each
                single point of {initially, after op 1, ..., after op n-1} and at all of them (quick) / at every
                non-empty subset of the points (thorough).
  The "hidden" families give the live search something to bite on: a choice hidden in every documented way (choice
  `depends on`, prompt `if`, enclosing `if`, enclosing menu `depends on` / `visible if`, `if` inside a menu, two
  levels) by A / !A / A && B / a member of another choice, for plain, defaulted, named, twice-defined, nested and paired
  choices and members with their own conditions -- evaluate while hidden, show, evaluate, pick, evaluate.

Family twice_dfl (wave 5): a NAMED choice defined at two places whose `default` lines -- in the first, the second or
both definitions -- carry conditions on symbols that nothing else in the choice mentions (no member's visibility, no
prompt), so that the default line itself is the only thing tying the selection to the symbol.  Dimensions: members
1|23, 12|3, 123|none; second definition promptless / with a prompt of its own; 5 (thorough 9) splits of conditional
defaults over the two definitions; thorough also a member with its own condition.  Searched fresh and live like every
family (alphabet of the live search: set(F|G, y|n) with evaluations in between is what bites).

Two further small families:

* member_select / member_imply -- an option OUTSIDE the choice has `select M2` / `imply M2` on a member (plain, with a
  default on another member, hidden choice; the selecting option prompted, promptless `default y`, thorough also
  conditional `if A`, defined after the choice, itself a member of another choice).  language.rst defines select/imply
  for (menu)configs only; the library accepts the tree and its own diagnostic says "select/imply has no effect on choice
  symbols", so the reference ignores the reverse dependency and the statement must hold unchanged.
* written_* -- the load alphabet is made of files THE TOOL WROTE (write_config of the real library) for other
  configurations of the same tree: untouched (members appear only as `# default:` entries), a member picked (user
  entries), the condition symbol switched, both; plus files that do not mention the choice at all.  Loaded replacing and
  merging after picks, under the default KCONFIG_DEFAULTS_POLICY and under `kconfig` (tool-written files are merged only
  under `kconfig`, see written_loads).  Reference: a default-marked entry assigns nothing (defaults.rst; refsem.RefState
  skips it), so a replacing load of such a file leaves no pick behind and a merging one keeps the pick there was.
"""

from __future__ import annotations

import itertools
import json
import os
import re
from typing import Any, Dict, Iterator, List, Optional, Tuple

from .. import common, explore, impl, kgen, refsem
from ..kgen import And, Cfg, Choice, If, L, Menu, Not, Or, Program, S

ID = "C05"
LEVEL = "model_checking"
RULE = (
    "explicit-state BFS per program (families: 2-3 members with prompt conditions in {none,A,!A,B} x choice prompt/depends "
    "conditions x 0-2 conditional defaults; named/unnamed, nested, named choice defined twice, if/menu inside the choice, "
    "promptless member; 'hidden': every way of hiding a choice {choice depends on, prompt if, enclosing if, menu depends on, "
    "menu visible if, if inside menu, menu inside if, two levels} x condition {A, !A; thorough also A&&B, A||B; a member of "
    "another choice} x shape {plain, conditional defaults, named, members with own condition, named twice (both / first "
    "definition hidden), nested (outer / inner hidden), pair of choices behind one switch}; 'twice_dfl': named choice defined "
    "twice x members {1|23, 12|3, 123|none} x second definition {promptless, prompted} x conditional defaults split over the two "
    "definitions (5, thorough 9 splits; conditions F, !F, G, thorough F&&G, F||G, on symbols nothing else in the choice mentions) "
    "x thorough a member with its own condition) over set/reset/load/merge "
    "operations; states merged on (user values, user selections). Every state is evaluated on a fresh instance; the first "
    "history reaching it also on one live instance evaluated at each single point / all points (thorough: every non-empty "
    "subset) of {initially, after op 1..n-1}, per READS kind {values, full; thorough + shown, choices, outputs}. A second BFS "
    "per program and READS kind (one load file per effect class; also the alphabet of the 'hidden' families) evaluates before "
    "the first and after every operation and merges states on (user values, user selections, content of every memo cell). "
    "Family member_select/member_imply: `select`/`imply` of a member from an option outside the choice (ignored per the library's "
    "diagnostic). Families written_*: 4 (thorough 8) trees x KCONFIG_DEFAULTS_POLICY {default, kconfig}; alphabet set(member,y), "
    "set(condition symbol,y|n), reset(choice), load {replacing, merging} of {files write_config() of the real library produced for "
    "the configurations untouched / last member picked / first member picked / switch on / switch on + pick / switch off; files "
    "silent about the choice: empty, switch y, switch n} (tool-written files merged only under policy kconfig); states merged on "
    "user values + selections + Inst.user_state() (what the file said, default-marked, injected), values/outputs oracle on every "
    "transition. distinct_nontrivial = distinct (program, user state) pairs in which some choice has a hidden member, a user pick, or is invisible."
)
ASSUMPTIONS = [
    "the user's pick is the last member set to y since the last reset / replacing load (mck/refsem.RefState)",
    "Symbol.unset_value on members is not in the alphabet (UI-level reset is what users have)",
    "loaded files carry no default-marked entries (C08 owns those), except in the written_* families, where every file with such "
    "entries was written by the library itself for a configuration of the SAME tree; there a default-marked entry assigns nothing "
    "(docs/en/kconfiglib/defaults.rst), and merging such a file into a configuration it was not written for is only explored "
    "under KCONFIG_DEFAULTS_POLICY=kconfig (documented to ignore a stored default that differs from the Kconfig one)",
    "`select` / `imply` whose target is a choice member is ignored (language.rst is silent; the library accepts the tree and notes "
    "'select/imply has no effect on choice symbols')",
    "no per-option / per-choice state influences values beyond the cells the live search merges on (SYM_CELLS / CHOICE_CELLS: "
    "user values, selections, default-injection flags, every memo cell; NOT the load/report bookkeeping _was_set, "
    "_present_in_current_sdkconfig, _sdkconfig_value, _user_source, _old_val -- the fresh search makes the same assumption); "
    "'evaluating' the configuration means reading through the public properties "
    "(str_value / visibility / assignable / Choice.selection) or running the real output writers",
    "a named choice defined twice is only generated with all definitions hidden alike or with the single prompted one hidden "
    "(what per-definition `depends on` means for the members of the other definition is not documented)",
    "twice_dfl: the definitions of a named choice add up -- members and `default` lines in definition order, visible if any "
    "definition's prompt is (both prompts are unconditional there, so the choice is always visible)",
]


def A(name):
    return Cfg(name, "bool", prompt=name.lower())


COND = {"none": None, "A": S("A"), "!A": Not(S("A")), "B": S("B")}

# --------------------------------------------------------------------------------------------------
# hidden choices: every documented way of making a choice invisible through something OUTSIDE its members
# --------------------------------------------------------------------------------------------------
HIDE_KINDS = ("depends", "prompt", "if", "menu_dep", "menu_vis", "menu_if", "if_menu")
HCOND = {"A": S("A"), "!A": Not(S("A")), "A&&B": And(S("A"), S("B")), "A||B": Or(S("A"), S("B")), "P2": S("P2"), "!P2": Not(S("P2"))}


def hide(kind: str, cond: tuple, ch: Choice):
    """returns the node to put in place of `ch` so that `ch` is visible only if `cond` holds"""
    if kind == "depends":
        ch.depends.append(cond)
        return ch
    if kind == "prompt":
        ch.prompt_cond = cond if ch.prompt_cond is None else And(ch.prompt_cond, cond)
        return ch
    if kind == "if":
        return If(cond=cond, children=[ch])
    if kind == "menu_dep":
        return Menu(title="m", depends=[cond], children=[ch])
    if kind == "menu_vis":
        return Menu(title="m", visible_if=[cond], children=[ch])
    if kind == "menu_if":
        return Menu(title="m", children=[If(cond=cond, children=[ch])])
    if kind == "if_menu":
        return If(cond=cond, children=[Menu(title="m", children=[ch])])
    raise ValueError(kind)


def M(i, **kw):
    return Cfg(f"M{i}", "bool", prompt=f"m{i}", **kw)


def hidden_shapes(kind: str, cond: tuple) -> Iterator[Tuple[str, List[Any], List[str]]]:
    """(shape, nodes, extra condition symbols) -- `kind`/`cond` hide the choice(s) of the shape"""
    yield "plain", [hide(kind, cond, Choice(prompt="c", children=[M(1), M(2)]))], []
    yield "dfl", [hide(kind, cond, Choice(prompt="c", defaults=[("M3", S("F")), ("M2", None)], children=[M(1), M(2), M(3)]))], ["F"]
    yield "named", [hide(kind, cond, Choice(name="CH", prompt="c", defaults=[("M2", None)], children=[M(1), M(2)]))], []
    yield "mcond", [hide(kind, cond, Choice(prompt="c", children=[M(1, prompt_cond=S("G")), M(2)]))], ["G"]
    # named choice defined at two places: both definitions hidden alike / only the one that has the prompt
    yield "twice_both", [
        hide(kind, cond, Choice(name="CH", prompt="c", children=[M(1)])),
        Cfg("MID", "bool"),
        hide(kind, cond, Choice(name="CH", prompt=None, defaults=[("M3", None)], children=[M(2), M(3)])),
    ], []
    yield "twice_first", [
        hide(kind, cond, Choice(name="CH", prompt="c", children=[M(1), M(2)])),
        Cfg("MID", "bool"),
        Choice(name="CH", prompt=None, children=[M(3)]),
    ], []
    inner = Choice(prompt="inner", children=[Cfg("I1", "bool", prompt="i1"), Cfg("I2", "bool", prompt="i2")])
    yield "nested_outer", [hide(kind, cond, Choice(prompt="outer", children=[M(1), inner]))], []
    if kind in ("depends", "prompt", "if"):
        inner = Choice(prompt="inner", children=[Cfg("I1", "bool", prompt="i1"), Cfg("I2", "bool", prompt="i2")])
        yield "nested_inner", [Choice(prompt="outer", children=[M(1), hide(kind, cond, inner)])], []
    # two choices behind the same switch (the second one always through an `if` inside a menu)
    yield "pair", [
        hide(kind, cond, Choice(name="CH", prompt="c", defaults=[("M2", None)], children=[M(1), M(2)])),
        Menu(title="other", children=[If(cond=cond, children=[Choice(prompt="d", children=[Cfg("N1", "bool", prompt="n1"), Cfg("N2", "bool", prompt="n2")])])]),
    ], []


def hidden_programs(tier: str) -> Iterator[Tuple[str, Program]]:
    conds = ("A", "!A") if tier == "quick" else ("A", "!A", "A&&B", "A||B")
    for kind, cn in itertools.product(HIDE_KINDS, conds):
        for shape, nodes, extra in hidden_shapes(kind, HCOND[cn]):
            if tier == "quick" and cn == "!A" and kind not in ("depends", "if"):
                continue  # quick: "hidden unless switched off" only for the two commonest constructs
            syms = sorted(set(kgen.expr_syms(HCOND[cn])) | set(extra))
            yield ("hidden_" + shape, Program(children=[A(n) for n in syms] + nodes))
    # the switch is a member of another choice (a pick there shows / hides this one); hidden choice first so that the
    # load files address its members
    for kind, cn in itertools.product(HIDE_KINDS, ("P2", "!P2")):
        if tier == "quick" and cn == "!P2" and kind not in ("depends", "if"):
            continue
        yield ("hidden_by_member", Program(children=[
            hide(kind, HCOND[cn], Choice(prompt="c", defaults=[("M2", None)], children=[M(1), M(2)])),
            Choice(prompt="p", children=[Cfg("P1", "bool", prompt="p1"), Cfg("P2", "bool", prompt="p2")]),
        ]))
    # two levels: the choice is visible iff A && B, each through a different construct
    for k1, k2 in (("if", "depends"), ("menu_dep", "prompt"), ("menu_vis", "if"), ("if", "if")):
        ch = Choice(prompt="c", defaults=[("M2", None)], children=[M(1), M(2)])
        node = hide(k1, S("A"), hide(k2, S("B"), ch))
        yield ("hidden_two_levels", Program(children=[A("A"), A("B"), node]))


TWICE_DFL = True  # wave-5 family twice_dfl; False gives exactly the previous program list


def twice_programs(tier: str) -> Iterator[Tuple[str, Program]]:
    """a NAMED choice defined at two places, with `default` lines in either definition whose conditions mention symbols
    that nothing else in the choice mentions (F, G: no member's visibility, no prompt depends on them) -- so that the ONLY
    thing tying the selection to F / G is the default line itself, wherever it was written.  Dimensions: where the members
    are (1|23, 12|3, 123|none), whether the second definition has a prompt of its own, which definition carries which
    defaults; thorough also a member with its own condition (H) and the negated / conjunctive conditions.  No definition
    has a `depends on` (see ASSUMPTIONS), so the reference is: visibility = OR of the prompts, defaults in definition order."""
    F, G = S("F"), S("G")
    places = (((1,), (2, 3)), ((1, 2), (3,)), ((1, 2, 3), ()))
    # (defaults of the first definition, defaults of the second definition)
    dfls = [
        ([], [("M3", F)]),
        ([], [("M2", Not(F))]),
        ([("M2", G)], [("M3", F)]),
        ([("M3", F)], [("M2", G)]),
        ([("M1", G)], [("M3", F), ("M2", None)]),
    ]
    if tier != "quick":
        dfls += [
            ([], [("M3", And(F, G))]),
            ([], [("M3", Or(F, G)), ("M2", Not(G))]),
            ([("M3", Not(F))], []),
            ([], [("M2", F), ("M3", F)]),
        ]
    mconds = (None,) if tier == "quick" else (None, 3)
    for (first, second), p2, (d1, d2), mc in itertools.product(places, (None, "c2"), dfls, mconds):
        if tier == "quick" and p2 is not None and not second:
            continue  # quick: a memberless second definition only without a prompt (the `default`-only extension)

        def mem(i):
            return M(i, prompt_cond=S("H")) if mc == i else M(i)

        used = sorted({n for _, c in d1 + d2 if c is not None for n in kgen.expr_syms(c)} | ({"H"} if mc else set()))
        yield ("twice_dfl", Program(children=[A(n) for n in used] + [
            Choice(name="CH", prompt="c", defaults=list(d1), children=[mem(i) for i in first]),
            Cfg("MID", "bool"),
            Choice(name="CH", prompt=p2, defaults=list(d2), children=[mem(i) for i in second]),
        ]))


def selected_member_programs(tier: str) -> Iterator[Tuple[str, Program]]:
    """`select` / `imply` of a choice member from OUTSIDE the choice.  docs/en/kconfiglib/language.rst gives select/imply
    a meaning for (menu)configs only; the library's own diagnostic (_check_choice_sanity, a note, not an error) says
    "select/imply has no effect on choice symbols" -- so the tree is accepted, the reverse dependency is ignored and
    the statement's "exactly one member y / none in an invisible choice" must hold whatever the selecting option is."""
    kws = ("select", "imply")
    shapes = ("plain", "dfl", "hidden")
    conds = (None,) if tier == "quick" else (None, S("A"))
    poss = ("before",) if tier == "quick" else ("before", "after")

    def choice_of(shape):
        if shape == "plain":
            return [], Choice(prompt="c", children=[M(1), M(2), M(3)])
        if shape == "dfl":
            return [], Choice(name="CH", prompt="c", defaults=[("M3", None)], children=[M(1), M(2), M(3)])
        return [A("G")], hide("depends", S("G"), Choice(prompt="c", defaults=[("M1", None)], children=[M(1), M(2), M(3)]))

    for kw, shape, cond, pos in itertools.product(kws, shapes, conds, poss):
        pre, ch = choice_of(shape)
        t = Cfg("T", "bool", prompt="t")
        (t.selects if kw == "select" else t.implies).append(("M2", cond))
        kids = ([A("A")] if cond is not None else []) + pre + ([t, ch] if pos == "before" else [ch, t])
        yield ("member_" + kw, Program(children=kids))
    for kw in kws:
        # the selecting option has no prompt and is y by default: the reverse dependency is on in EVERY configuration
        t = Cfg("T", "bool", defaults=[(L("y"), None)])
        (t.selects if kw == "select" else t.implies).append(("M2", None))
        yield ("member_" + kw, Program(children=[A("G"), t, hide("depends", S("G"), Choice(prompt="c", children=[M(1), M(2)]))]))
        if tier != "quick":
            # ... is itself a member of another choice
            p2 = Cfg("P2", "bool", prompt="p2")
            (p2.selects if kw == "select" else p2.implies).append(("M2", None))
            yield ("member_" + kw, Program(children=[Choice(prompt="c", defaults=[("M1", None)], children=[M(1), M(2)]),
                                                     Choice(prompt="p", children=[Cfg("P1", "bool", prompt="p1"), p2])]))


def written_programs(tier: str) -> Iterator[Tuple[str, Program]]:
    """the small family whose load alphabet is made of files THE TOOL WROTE for other configurations of the same tree
    (see written_loads)"""
    yield ("written_plain", Program(children=[Choice(prompt="c", children=[M(1), M(2)])]))
    yield ("written_dfl", Program(children=[A("A"), Choice(name="CH", prompt="c", defaults=[("M3", S("A")), ("M2", None)], children=[M(1), M(2), M(3)])]))
    yield ("written_hidden", Program(children=[A("A"), hide("depends", S("A"), Choice(prompt="c", defaults=[("M2", None)], children=[M(1), M(2)]))]))
    yield ("written_mcond", Program(children=[A("A"), Choice(prompt="c", defaults=[("M1", None)], children=[M(1, prompt_cond=S("A")), M(2), M(3)])]))
    if tier == "quick":
        return
    yield ("written_hidden", Program(children=[A("A"), hide("menu_vis", Not(S("A")), Choice(prompt="c", children=[M(1), M(2)]))]))
    yield ("written_by_member", Program(children=[
        hide("if", S("P2"), Choice(prompt="c", defaults=[("M2", None)], children=[M(1), M(2)])),
        Choice(prompt="p", children=[Cfg("P1", "bool", prompt="p1"), Cfg("P2", "bool", prompt="p2")]),
    ]))
    inner = Choice(prompt="inner", children=[Cfg("I1", "bool", prompt="i1"), Cfg("I2", "bool", prompt="i2")])
    yield ("written_nested", Program(children=[Choice(prompt="outer", defaults=[("M2", None)], children=[M(1), M(2), inner])]))
    yield ("written_twice", Program(children=[A("A"), Choice(name="CH", prompt="c", children=[M(1)]), Cfg("MID", "bool", prompt="mid"),
                                              Choice(name="CH", prompt=None, defaults=[("M3", S("A"))], children=[M(2), M(3)])]))


POLICIES = (None, "kconfig")


def written_loads(files, model: refsem.Model, policy: Optional[str]) -> List[tuple]:
    """load operations of the 'written' families.  Files: (a) what write_config() of the REAL library produces on a fresh
    instance of the same tree in the configurations {untouched; last / first member picked; first condition symbol
    switched on; switched on and last member picked; switched off} -- members appear as `# default:` entries in the
    untouched ones and as user entries in the picked ones; (b) files that do not mention the choice at all (empty, only
    the first condition symbol y / n).  Every file is loaded replacing and merging, except that the tool-written files
    are merged only under KCONFIG_DEFAULTS_POLICY=kconfig: merged into a configuration they were not written for, a
    default-marked entry may differ from the current Kconfig default, which that policy is documented to ignore, while
    the default policy keeps the stored value (C08's subject)."""
    members = [m for ci in model.choices for m in ci.members]
    first = model.choices[0].members
    others = [n for n in model.order if n not in members and model.syms[n].type == "bool" and any(d.prompt is not None for d in model.syms[n].defs)]
    hs: List[tuple] = [(), (("set", first[-1], "y"),), (("set", first[0], "y"),)]
    if others:
        o = others[0]
        hs += [(("set", o, "y"),), (("set", o, "y"), ("set", first[-1], "y")), (("set", o, "n"),)]
    written = []
    for h in hs:
        inst = impl.replay_ops(files, h, policy=policy)
        try:
            written.append(inst.config_text())
        except Exception as e:  # noqa: BLE001 -- the real writer raised: an observation, reported by the caller
            raise impl.OpRaised(len(h), ("snap",), e) from e
    written = list(dict.fromkeys(written))
    silent = [""]
    if others:
        silent += [f"CONFIG_{others[0]}=y\n", f"# CONFIG_{others[0]} is not set\n"]
    ops = []
    for t in written:
        ops.append(("load", t, True))
        if policy == "kconfig":
            ops.append(("load", t, False))
    for t in silent:
        ops.append(("load", t, True))
        ops.append(("load", t, False))
    return ops


def programs(tier: str) -> Iterator[Tuple[str, Program]]:
    mconds2 =list(itertools.product(("none", "A", "!A", "B"), repeat=2))
    cvis = [("none", None), ("prompt", "A"), ("depends", "A"), ("depends", "B")]
    dfls = [[], [("M2", "none")], [("M2", "A")], [("M2", "B"), ("M1", "none")], [("M1", "!A"), ("M2", "none")]]
    for (c1, c2), (vk, vc), dfl in itertools.product(mconds2, cvis, dfls):
        if tier == "quick" and c1 == "B" and c2 == "B":
            continue
        ch = Choice(prompt="c", children=[Cfg("M1", "bool", prompt="m1", prompt_cond=COND[c1]), Cfg("M2", "bool", prompt="m2", prompt_cond=COND[c2])])
        if vk == "prompt":
            ch.prompt_cond = S(vc)
        elif vk == "depends":
            ch.depends.append(S(vc))
        for m, c in dfl:
            ch.defaults.append((m, COND[c]))
        used = {x.strip("!") for x in (c1, c2) if x != "none"} | ({vc} if vc else set()) | {c.strip("!") for _, c in dfl if c != "none"}
        kids = [A(n) for n in sorted(used)] + [ch]
        yield ("two", Program(children=kids))
    # three members
    m3 = list(itertools.product(("none", "A", "!A"), repeat=3)) if tier == "quick" else list(itertools.product(("none", "A", "!A", "B"), repeat=3))
    for cs in m3:
        for dfl in ([], [("M3", "A"), ("M2", "none")], [("M2", "!A")]):
            ch = Choice(prompt="c", children=[Cfg(f"M{i+1}", "bool", prompt=f"m{i+1}", prompt_cond=COND[c]) for i, c in enumerate(cs)])
            for m, c in dfl:
                ch.defaults.append((m, COND[c]))
            used = {x.strip("!") for x in cs if x != "none"} | {c.strip("!") for _, c in dfl if c != "none"}
            yield ("three", Program(children=[A(n) for n in sorted(used)] + [ch]))
    # named
    yield ("named", Program(children=[A("A"), Choice(name="CH", prompt="c", defaults=[("M2", S("A"))], children=[Cfg("M1", "bool", prompt="m1"), Cfg("M2", "bool", prompt="m2")])]))
    # named choice defined at two places
    for c2 in ("none", "A"):
        yield ("twice", Program(children=[A("A"), Choice(name="CH", prompt="c", children=[Cfg("M1", "bool", prompt="m1", prompt_cond=S("A"))]),
                                          Cfg("MID", "bool", prompt="mid"),
                                          Choice(name="CH", prompt=None, defaults=[("M3", COND[c2])] if c2 != "none" else [], children=[Cfg("M2", "bool", prompt="m2"), Cfg("M3", "bool", prompt="m3")])]))
    # if block / menu inside the choice
    yield ("if_inside", Program(children=[A("A"), Choice(prompt="c", children=[Cfg("M1", "bool", prompt="m1"), If(cond=S("A"), children=[Cfg("M2", "bool", prompt="m2"), Cfg("M3", "bool", prompt="m3")])])]))
    yield ("if_inside_default", Program(children=[A("A"), Choice(prompt="c", defaults=[("M2", None)], children=[Cfg("M1", "bool", prompt="m1"), If(cond=S("A"), children=[Cfg("M2", "bool", prompt="m2")])])]))
    yield ("menu_inside", Program(children=[A("A"), Choice(prompt="c", children=[Cfg("M1", "bool", prompt="m1"), Cfg("M2", "bool", prompt="m2"),
                                                                                 Menu(title="sub", visible_if=[S("M2")], children=[Cfg("N", "int", prompt="n", defaults=[(L("3"), None)])])])]))
    # member without prompt
    yield ("promptless_member", Program(children=[A("A"), Choice(prompt="c", defaults=[("M2", S("A"))], children=[Cfg("M1", "bool", prompt="m1"), Cfg("M2", "bool"), Cfg("M3", "bool", prompt="m3")])]))
    # nested choice
    yield ("nested", Program(children=[A("A"), Choice(prompt="outer", children=[Cfg("M1", "bool", prompt="m1"), Cfg("M2", "bool", prompt="m2"),
                                                                                 Choice(prompt="inner", prompt_cond=S("A"), children=[Cfg("I1", "bool", prompt="i1"), Cfg("I2", "bool", prompt="i2")])])]))
    # member depending on another choice's member; select targeting nothing in the choice
    yield ("two_choices", Program(children=[Choice(prompt="c1", children=[Cfg("P1", "bool", prompt="p1"), Cfg("P2", "bool", prompt="p2")]),
                                            Choice(prompt="c2", defaults=[("M2", S("P2"))], children=[Cfg("M1", "bool", prompt="m1"), Cfg("M2", "bool", prompt="m2", depends=[S("P2")])])]))
    # choice under menu with depends / visible if
    for w in ("depends", "visible"):
        menu = Menu(title="m", children=[Choice(prompt="c", children=[Cfg("M1", "bool", prompt="m1"), Cfg("M2", "bool", prompt="m2")])])
        (menu.depends if w == "depends" else menu.visible_if).append(S("A"))
        yield ("in_menu_" + w, Program(children=[A("A"), menu]))
    # named choice defined twice, defaults in either definition on conditions nothing else mentions
    if TWICE_DFL:
        yield from twice_programs(tier)
    # choices hidden from outside, in every way
    yield from hidden_programs(tier)
    # a member that an option outside the choice selects / implies
    yield from selected_member_programs(tier)


def load_files(members: List[str], others: List[str]) -> List[str]:
    out = []
    m = members
    out.append("")  # empty file: replace clears everything
    out.append(f"CONFIG_{m[0]}=y\n")
    out.append(f"CONFIG_{m[-1]}=y\n")
    out.append(f"# CONFIG_{m[0]} is not set\n")
    out.append(f"CONFIG_{m[0]}=y\nCONFIG_{m[-1]}=y\n")
    out.append(f"CONFIG_{m[-1]}=y\nCONFIG_{m[0]}=y\n")
    out.append("".join(f"# CONFIG_{x} is not set\n" for x in m))
    out.append(f"# CONFIG_{m[-1]} is not set\nCONFIG_{m[0]}=y\n")
    out.append(f"CONFIG_{m[0]}=y\n# CONFIG_{m[0]} is not set\n" if len(m) < 3 else f"CONFIG_{m[1]}=y\n# CONFIG_{m[0]} is not set\nCONFIG_{m[2]}=y\n")
    if others:
        out.append(f"# CONFIG_{others[0]} is not set\nCONFIG_{m[-1]}=y\n")
        out.append(f"CONFIG_{m[-1]}=y\nCONFIG_{others[0]}=y\n")
    return list(dict.fromkeys(out))


def live_load_ops(members: List[str], others: List[str]) -> List[tuple]:
    """the load operations of the live search: one representative per effect class (clear everything; pick a member,
    replacing / merging; pick a member and switch the first condition symbol on / off in the same file)"""
    m = members
    ops = [("load", "", True), ("load", f"CONFIG_{m[-1]}=y\n", True), ("load", f"CONFIG_{m[-1]}=y\n", False)]
    if others:
        ops.append(("load", f"CONFIG_{m[-1]}=y\nCONFIG_{others[0]}=y\n", True))
        ops.append(("load", f"# CONFIG_{others[0]} is not set\nCONFIG_{m[-1]}=y\n", False))
    return ops


# --------------------------------------------------------------------------------------------------
# how a live instance is evaluated between two operations
# --------------------------------------------------------------------------------------------------
def read_values(inst) -> None:
    for s in inst.k.unique_defined_syms:
        s.str_value


def read_full(inst) -> None:
    inst.obs()
    inst.choice_obs()


def read_choices(inst) -> None:
    inst.choice_obs()


def read_shown(inst) -> None:
    """what a menu front end touches: the prompt condition of every node, and value / assignable values (selection) of
    the items whose prompt is visible"""
    c = impl.core()
    for node in inst.k.node_iter():
        if not (node.prompt and c.expr_value(node.prompt[1])):
            continue
        it = node.item
        if isinstance(it, c.Symbol):
            it.str_value
            it.assignable
        elif isinstance(it, c.Choice):
            it.visibility
            it.selection


def read_outputs(inst) -> None:
    outputs_members(inst)


READS = {"values": read_values, "full": read_full, "shown": read_shown, "choices": read_choices, "outputs": read_outputs}


def reads_of(tier: str) -> Tuple[str, ...]:
    return ("values", "full") if tier == "quick" else ("values", "full", "shown", "choices", "outputs")


def point_sets(n: int, tier: str) -> List[Tuple[int, ...]]:
    """subsets of the evaluation points 0..n-1 (point i = just before operation i; 0 = the initial configuration; n =
    after the last operation, used by the live search only).  quick: every single point and all of them;
    thorough: every non-empty subset"""
    if tier == "quick":
        return list(dict.fromkeys([(i,) for i in range(n)] + ([tuple(range(n))] if n else [])))
    out = []
    for k in range(1, n + 1):
        out.extend(itertools.combinations(range(n), k))
    return out


def items(tier: str, seed: int):
    depth = 3 if tier == "quick" else 4
    out = []
    for f, p in programs(tier):
        files = kgen.render(p)
        out.append({"family": f, "files": files, "prog": p, "depth": depth, "phase": "fresh", "reads": reads_of(tier), "tier": tier})
        for rk in reads_of(tier):
            out.append({"family": f, "files": files, "prog": p, "depth": depth, "phase": "live", "reads": (rk,), "tier": tier})
    for (f, p), pol in itertools.product(written_programs(tier), POLICIES):
        files = kgen.render(p)
        out.append({"family": f, "files": files, "prog": p, "depth": depth, "phase": "fresh", "reads": reads_of(tier), "tier": tier, "policy": pol})
        for rk in reads_of(tier):
            out.append({"family": f, "files": files, "prog": p, "depth": depth, "phase": "live", "reads": (rk,), "tier": tier, "policy": pol})
    return out


def op_menu(model: refsem.Model, live: bool = False, loads: Optional[List[tuple]] = None) -> List[tuple]:
    """loads: the load operations to use instead of the hand-written files (the 'written' families; their alphabet has
    no set(member, n) / reset(member) -- the other families own those)"""
    ops: List[tuple] = []
    members = [m for ci in model.choices for m in ci.members]
    others = [n for n in model.order if n not in members and model.syms[n].type == "bool" and any(d.prompt is not None for d in model.syms[n].defs)]
    if loads is not None:
        ops += [("set", m, "y") for m in members]
        for o in others:
            ops += [("set", o, "y"), ("set", o, "n")]
        ops += [("resetc", ci.idx) for ci in model.choices]
        return ops + list(loads)
    for m in members:
        ops.append(("set", m, "y"))
        ops.append(("set", m, "n"))
    for o in others:
        ops.append(("set", o, "y"))
        ops.append(("set", o, "n"))
    if members:
        ops.append(("reset", members[0]))
    for ci in model.choices:
        ops.append(("resetc", ci.idx))
    if others:
        ops.append(("reset", others[0]))
    if members:
        if live:
            ops.extend(live_load_ops(model.choices[0].members, others))
        else:
            for t in load_files(model.choices[0].members, others):
                ops.append(("load", t, True))
                ops.append(("load", t, False))
    return ops


DEF_RE = re.compile(r"#define CONFIG_([A-Za-z0-9_]+) (.*)")
CM_RE = re.compile(r'set\(CONFIG_([A-Za-z0-9_]+) "(.*)"\)')


def outputs_members(inst) -> Dict[str, set]:
    import kconfgen.core as kg

    hdr = inst.header_text()
    in_hdr = {m.group(1) for m in map(DEF_RE.match, hdr.splitlines()) if m}
    p = impl.tmpfile("cmake")
    kg.write_cmake(inst.k, p)
    with open(p) as f:
        cm = f.read()
    os.unlink(p)
    in_cm = {m.group(1) for m in map(CM_RE.match, cm.splitlines()) if m and m.group(2) not in ("",)}
    js = inst.json_values()
    in_js = {k for k, v in js.items() if v is True}
    cfg = inst.config_text()
    in_cfg = {m.group(1) for m in re.finditer(r"^CONFIG_([A-Za-z0-9_]+)=y$", cfg, re.M)}
    return {"header": in_hdr, "cmake": in_cm, "json": in_js, "sdkconfig": in_cfg}


def replay_live(files, h, rk: str, points, policy: Optional[str] = None) -> "impl.Inst":
    """the history on ONE instance that is evaluated (READS kind rk) just before every operation whose index is in `points`"""
    inst = impl.Inst(files, policy=policy)
    rd = READS[rk]
    for i, op in enumerate(h):
        if i in points:
            try:
                rd(inst)
            except Exception as e:  # noqa: BLE001 -- evaluating the configuration goes through public entry points only
                raise impl.OpRaised(i, ("eval", rk), e) from e
        try:
            impl.apply_op(inst, op)
        except Exception as e:  # noqa: BLE001
            raise impl.OpRaised(i, op, e) from e
    if len(h) in points:
        try:
            rd(inst)
        except Exception as e:  # noqa: BLE001
            raise impl.OpRaised(len(h), ("eval", rk), e) from e
    return inst


# what an option / a choice carries from one operation to the next, as far as values are concerned.  Not included: the
# load / report bookkeeping (_was_set, _present_in_current_sdkconfig, _sdkconfig_value, _user_source, _old_val), which
# only feeds warnings, the report and sync_deps and would split every state by "how the user value got there".
SYM_CELLS = (
    "_user_value", "_cached_str_val", "_cached_bool_val", "_cached_vis", "_cached_assignable", "_write_to_conf",
    "_has_active_indirect_set", "_default_value_injected", "_defaults_resolved", "_loaded_as_default",
)
CHOICE_CELLS = ("_user_selection", "_user_value", "_cached_vis", "_cached_assignable", "_cached_selection", "_defaults_resolved")


def _cell(x):
    if x is None or isinstance(x, (bool, int, str)):
        return x
    if isinstance(x, (tuple, list)):
        return tuple(_cell(y) for y in x)
    n = getattr(x, "name", None)
    return ("obj", n) if isinstance(n, str) else repr(x)


def memo_key(k) -> tuple:
    """user values / selections and the content of every memo cell, per option / choice"""
    return (
        tuple(tuple(_cell(getattr(s, a, None)) for a in SYM_CELLS) for s in k.unique_defined_syms),
        tuple(tuple(_cell(getattr(c, a, None)) for a in CHOICE_CELLS) for c in k.unique_choices),
    )


def explore_item(item, r: common.Result, only_history=None, only_reads=None):
    files, prog, fam = item["files"], item["prog"], item["family"]
    phase = item.get("phase", "fresh")
    rkinds = tuple(item.get("reads", ()))
    policy = item.get("policy")
    written = fam.startswith("written_")
    model = refsem.build(prog)
    ptext = files["Kconfig"]

    def canon(st):
        k = st.k
        return (
            tuple(s._user_value for s in k.unique_defined_syms),
            tuple(c._user_selection.name if c._user_selection is not None else None for c in k.unique_choices),
        )

    def case_of(h, reads=None):
        c = {"family": fam, "program": ptext, "files": files, "history": [list(o) for o in h], "depth": item["depth"]}
        if policy is not None:
            c["policy"] = policy
        if reads is not None:
            c["reads"] = {"kind": reads[0], "points": list(reads[1])}
        return c

    def ref_eval(h):
        ref = refsem.RefState(model)
        for op in h:
            ref.apply(op)
        return ref, ref.eval()

    def raised(h, e, reads=None):
        r.violation({"kind": "exception", "exc": e.exc_type, "site": e.site, "op": e.op[0]}, f"[{fam}] {fmt(h)}: {e}", case_of(h, reads))

    def check_fresh(h, st):
        rv = ref_eval(h)
        check_on(h, st, "fresh", rv, None)
        # the first history reaching this state, on one live instance evaluated at a subset of the points
        tier = item.get("tier", "thorough")
        for rk in rkinds:
            for pts in point_sets(len(h), tier):
                check_live_variant(h, rk, pts, rv)

    def check_live_variant(h, rk, pts, rv=None):
        try:
            live = replay_live(files, h, rk, pts, policy)
        except impl.OpRaised as e:
            raised(h, e, (rk, pts))
            return
        r.count("live_subset_replays")
        check_on(h, live, "live:" + rk, rv or ref_eval(h), (rk, pts))

    def check_on(h, st, mode, rv, reads):
        r.evals += 1
        ref, ev = rv
        case = case_of(h, reads)
        where = fmt(h) if reads is None else f"{fmt(h)} [one instance, {reads[0]} evaluated before ops {list(reads[1])}]"
        k = st.k
        vals = st.values()
        nontrivial = False
        outs = None
        for ci in model.choices:
            ch = k.unique_choices[ci.idx]
            members = ci.members
            impl_members = [s.name for s in ch.syms]
            if impl_members != members:
                r.violation({"kind": "membership", "family": fam}, f"[{fam}] members {impl_members} vs reference {members}", case)
                continue
            ys = [m for m in members if vals[m] == "y"]
            cvis = ch.visibility
            mvis = [m for m in members if k.syms[m].visibility]
            exp_sel = ev.selection(ci.idx)
            if cvis == 0 or len(mvis) < len(members) or ci.idx in ref.picks:
                nontrivial = True
            if cvis and mvis:
                if len(ys) != 1:
                    r.violation(
                        {"kind": "not_exactly_one", "family": fam, "count": len(ys), "mode": mode},
                        f"[{fam}] after {where}: visible choice with visible members {mvis} has members at y: {ys}",
                        case,
                    )
            if not cvis and ys:
                r.violation({"kind": "invisible_choice_has_y", "family": fam, "mode": mode}, f"[{fam}] after {where}: invisible choice has {ys} at y", case)
            if cvis != ev.choice_vis(ci.idx):
                r.violation({"kind": "choice_visibility", "family": fam, "mode": mode}, f"[{fam}] after {where}: choice visibility {cvis}, reference {ev.choice_vis(ci.idx)}", case)
            sel = ch.selection
            seln = sel.name if sel is not None else None
            if seln != exp_sel or ys != ([exp_sel] if exp_sel else []):
                why = "pick" if ci.idx in ref.picks else "default"
                r.violation(
                    {"kind": "wrong_member", "family": fam, "expected_from": why, "last_op": h[-1][0] if h else "init", "mode": mode},
                    f"[{fam}] after {where}: selection {seln} / members at y {ys}, documented rule gives {exp_sel} (pick={ref.picks.get(ci.idx)})",
                    case,
                )
            if mode != "fresh":
                continue  # the generators read through the same properties; their agreement is checked on the fresh path
            if outs is None:
                outs = outputs_members(st)
            for fmt_name, present in outs.items():
                got = sorted(m for m in members if m in present)
                if got != ys:
                    r.violation(
                        {"kind": "output_disagrees", "format": fmt_name, "family": fam, "mode": mode},
                        f"[{fam}] after {where}: {fmt_name} defines members {got}, values say {ys}",
                        case,
                    )
        if nontrivial and mode == "fresh":
            r.outcome((ptext, canon(st)))

    if only_history is not None:
        h = tuple(tuple(o) for o in only_history)
        if only_reads is not None:
            check_live_variant(h, only_reads["kind"], tuple(only_reads["points"]))
            return None
        try:
            check_fresh(h, impl.replay_ops(files, h, policy=policy))
        except impl.OpRaised as e:
            raised(h, e)
        return None

    loads = None
    if written:
        try:
            loads = written_loads(files, model, policy)
        except impl.OpRaised as e:
            raised((), e)
            return explore.Stats()
        r.count("written_load_ops", len(loads))

    def on_raise(h, e):
        if not isinstance(e, impl.OpRaised):
            raise e
        raised(h, e)

    if phase == "fresh" and written:
        # files with default-marked entries leave more behind than user values (what the file said, injected defaults), so
        # states are merged on impl.Inst.user_state() as well, the values / selection / outputs oracle runs on EVERY
        # transition, and the live variants on the first history reaching each state
        ops = op_menu(model, loads=loads)
        first_seen = set()

        def canon_w(st):
            return (canon(st), st.user_state())

        def check_written(h, st):
            key = canon_w(st)  # before the oracle reads
            if key in first_seen:
                check_on(h, st, "fresh", ref_eval(h), None)
            else:
                first_seen.add(key)
                check_fresh(h, st)

        st = explore.bfs(lambda h: impl.replay_ops(files, h, policy=policy), lambda h, s: ops, canon_w, check_written, item["depth"], on_raise=on_raise)
        r.states += st.states
        r.transitions += st.transitions
        return st

    if phase == "fresh":
        # the hidden families are about showing / hiding; the load-file orders are exercised by the other families
        # ... and so is twice_dfl (about which definition a default was written in)
        ops = op_menu(model, live=fam.startswith("hidden_") or fam == "twice_dfl")

        # the key (all user values + all user selections) determines every value the oracle reads on a FRESH instance (no
        # default-marked loads in this alphabet, hence no injected defaults), so revisited states need not be re-checked
        st = explore.bfs(lambda h: impl.replay_ops(files, h), lambda h, s: ops, canon, check_fresh, item["depth"], on_raise=on_raise, check_revisits=False)
        r.states += st.states
        r.transitions += st.transitions
        return st

    # live search: evaluated before the first and after every operation; merged on the complete instance state (taken
    # right after an evaluation, so in a correct implementation it is a function of the user state)
    rk = rkinds[0]
    ops = op_menu(model, live=True, loads=loads)

    def live_key(s):
        return (memo_key(s.k), s.user_state()) if written else memo_key(s.k)

    def build_live(h):
        return replay_live(files, h, rk, range(len(h) + 1), policy)

    def check_live(h, st):
        check_on(h, st, "live:" + rk, ref_eval(h), (rk, tuple(range(len(h) + 1))))

    def on_raise_live(h, e):
        if not isinstance(e, impl.OpRaised):
            raise e
        raised(h, e, (rk, tuple(range(len(h) + 1))))

    st = explore.bfs(build_live, lambda h, s: ops, live_key, check_live, item["depth"], on_raise=on_raise_live, check_revisits=False)
    r.count("live_states", st.states)
    r.count("live_transitions", st.transitions)
    r.count("live_states_" + rk, st.states)
    return st


def fmt(h) -> str:
    return " ; ".join("(" + ",".join(map(repr, o)) + ")" for o in h)


def run_item(item) -> common.Result:
    r = common.Result()
    r.programs = 1 if item.get("phase", "fresh") == "fresh" else 0
    st = explore_item(item, r)
    r.sample = {"family": item["family"], "phase": item.get("phase"), "reads": list(item.get("reads", ())), "program": item["files"]["Kconfig"],
                "states": st.states, "transitions": st.transitions, "max_depth": st.max_depth}
    return r


def replay(case) -> List[dict]:
    for tier in ("quick", "thorough"):
        for f, p in itertools.chain(programs(tier), written_programs(tier)):
            if f == case["family"] and kgen.render(p)["Kconfig"] == case["program"]:
                r = common.Result()
                item = {"family": f, "files": case["files"], "prog": p, "depth": case["depth"], "phase": "fresh", "reads": reads_of("thorough"),
                        "policy": case.get("policy")}
                explore_item(item, r, only_history=case["history"], only_reads=case.get("reads"))
                return r.viols
    raise SystemExit("replay: program not found")

"""C15 -- the config server answers every request and survives bad ones.

Phase "matrix": the full single-request matrix against the REAL `kconfserver.core.run_server` (mck/server.py), each
request in each of 3 prior states and followed by two probe requests (a valid `set`, a `save` null):
    version x V,  set x V,  set{<option of each type>: V} alone and next to a valid entry,  reset x V,  reset [valid, V],
    load x V + missing / directory / undecodable file,  save x V + new file / directory / path below a regular file,
    request without version, non-JSON lines, JSON lines that are not objects, last line without newline
    V = null true 0 -1 3 4 1.5 1e999 "" "x" "3" [] ["x"] [1] {} {"A":1}
Phase "matrix"/float limits: the float option with a range and the one without x numeric values at and beyond what a double
holds, as JSON numbers and as strings (1e308, the largest double, 10**308 as an integer | 1e309, +-1e999, the first literal
that rounds to infinity, integers of 310 / 401 digits, sign / upper-case / blank-padded spellings | underflowing literals)
and the non-finite words (nan, inf in all 8 capitalisations, infinity in 3 -- thorough: all 256 --, signed, blank-padded;
the bare tokens NaN / Infinity / -Infinity that Python's decoder accepts in a request); loading project files whose float
entries overflow or are those words.
Phase "matrix"/unicode: request strings that the server's stdout encoding may be unable to represent -- non-ASCII text
(Latin-1, BMP, astral pair; \\u-escaped and raw UTF-8), lone / reversed surrogates (incl. the surrogateescape range), NUL --
and ASCII text that a console-markup renderer on the diagnostics path reads as tags ("[/b]", "x[/tmp]", "[bold red]y\\[z"),
in every place a request string is echoed or stored (unknown option name, value of an option of each type, reset name / menu
id, load / save file name, unknown key, version), x the same prior states and probes, x stdout encoding {utf-8, ascii}.
Phase "seq": all sequences up to depth 3 (thorough 4) over one representative of each response class mixed with valid
requests.

Every in-process server life writes to what a real process has: a byte stream behind a STRICTLY encoding text layer
(mck/server.py stdout_encoding), so a reply that cannot be encoded raises out of run_server in the middle of the line
exactly as it kills the real process.

Oracle (per case): run_server returns normally at EOF; stdout lines == input lines + 1; every line is one STRICT (RFC 8259)
JSON object with `version` -- parsed with parse_constant raising, so the tokens NaN / Infinity / -Infinity, which Python's
own json.loads would accept, are "not JSON" (server.parse_reply); where the documents demand it the reply carries `error`; the captured configuration (values, user
values, choice picks), the files on disk and the replies to the probes equal those of the TWIN history in which just the
offending entry is removed or -- the other reading the statement allows -- the whole offending request is removed.  In-process stdout is the captured byte-level `sys.stdout`; a subset is
replayed on a real `python -m kconfserver` (conformance) whose stdout must be byte-identical; the unicode cases run there
with PYTHONIOENCODING=utf-8, =ascii and the environment's default, and that process is also judged on its own (exit status 0,
one complete strict-JSON line per input line).

What counts as offending (docs/en/kconfserver/index.rst "Kconfig Symbol Types", "Interaction", "Error Responses"):
    version: anything but the integers 1..3.     set: anything but an object.   reset: anything but an array of strings.
    load / save: anything but null or a string; strings are paths and may fail.
    set entries -- bool: only true/false;  int: JSON integers ("3" tolerated);  hex: JSON integers or a string of hex
    digits;  float: JSON numbers that a double can hold (an overflowing literal or integer, NaN / Infinity are offending;
    a string that spells a representable JSON number is tolerated, one that spells an overflowing number or a non-finite
    word is offending);  string: JSON strings (numbers tolerated);
    unknown and invisible options.   "tolerated" = either ignored or applied exactly like the canonical form.
    Numbers outside an option's range are documented to be adjusted by the server and are not offending.
"""

from __future__ import annotations

import itertools
import json
import math
import os
import re
from typing import Dict, List, Optional, Tuple

from .. import common, kgen, server
from ..kgen import Cfg, Choice, L, Menu, Program, S

ID = "C15"
LEVEL = "exploration"
RULE = (
    "matrix: every (protocol key | option type) x JSON value alphabet request (plus file-system and non-JSON classes) x 3 "
    "prior states x (server default version, request version) in {(3,3),(2,2),(1,1)} (thorough: all 9); float limits: "
    "{float option with a range, without a range} x 17 JSON numbers / bare tokens and 19 strings at and beyond the largest "
    "double + the words nan / inf / infinity in every capitalisation (infinity: 3 in quick, 256 in thorough), signed and "
    "blank-padded, in the same priors and pairs; unicode: 12 "
    "strings (non-ASCII escaped/raw, lone and reversed surrogates, NUL, console-markup-like ASCII) x 13..16 echo/store positions x the same priors and "
    "pairs x stdout encoding {utf-8, ascii}, every server life on a strictly encoding byte-level stdout; seq: all sequences "
    "of length <= 3 (thorough 4) over 19 representatives (one per response class + valid requests). One fresh real server "
    "per case and per twin. distinct_nontrivial = distinct (request class, prior state, protocol pair, reply line) for "
    "matrix cases and distinct (sequence of request classes, final configuration) for sequences."
)
ASSUMPTIONS = [
    "JSON lines that are valid JSON but not objects (null, 5, \"x\", []) are included under 'for every line received' with their "
    "own request classes (toplevel<-type)",
    "a failed load/save must not change which file later `load`/`save` null use (checked through the probe `save` null); "
    "reported under its own kind session_differs_from_twin (request_class load:failed / save:failed)",
    "numbers outside an option's range are not offending (the protocol document says the server adjusts them)",
    "a number no double can hold is 'out of range' for every float option, with or without a `range` (the protocol document: "
    "float values are IEEE 754 doubles), in whatever JSON form it arrives; strings that Python's float() would read as a "
    "finite number but that are not JSON number spellings (' 1.5', '+1', '1_0') are not generated (documents silent)",
    "loading a project file with non-finite float entries: only liveness, reply count and strict reply shape are demanded",
    "the protocol is JSON lines on stdout of a process whose stdout encoding the client chooses (UTF-8 or a legacy / ASCII "
    "code page): a reply must be encodable whatever strings the request carried; request LINES are pure ASCII (\\u escapes) "
    "except the raw-UTF-8 variant, which is only generated for a UTF-8 stdin. Bytes on stdin that are not valid in the "
    "stdin encoding are outside the explored space",
    "a string option set to an unencodable string, and a save to a file name with such characters, are not offending (any "
    "JSON string is a documented value / path): only liveness, reply count and reply shape are demanded for them",
]

VALS = ["null", "true", "0", "-1", "3", "4", "1.5", "1e999", '""', '"x"', '"3"', "[]", '["x"]', "[1]", "{}", '{"A":1}']


_JSON_NUMBER = re.compile(r"-?(0|[1-9][0-9]*)(\.[0-9]+)?([eE][+-]?[0-9]+)?")


def caps(word: str) -> List[str]:
    """every capitalisation of a word"""
    return ["".join(t) for t in itertools.product(*[(c.lower(), c.upper()) for c in word])]


def float_vals(tier: str) -> List[Tuple[str, str]]:
    """(tag, raw JSON value): numeric request values at and beyond what a double can hold, as JSON numbers and as strings,
    and the non-finite words in every capitalisation.  Sent to the float option with a range and to the one without."""
    big = "1" + "0" * 308  # 10**308 as a JSON integer: the largest power of ten a double holds
    nums = [
        ("at_limit", "1e308"),
        ("at_limit", "-1e308"),
        ("at_limit", "1.7976931348623157e308"),  # the largest double
        ("at_limit", big),
        ("at_limit", "-" + big),
        ("underflow", "5e-324"),
        ("underflow", "1e-400"),
        ("overflow", "1e309"),
        ("overflow", "-1e309"),
        ("overflow", "-1e999"),
        ("overflow", "1.7976931348623159e308"),  # rounds up to infinity
        ("overflow", big + "0"),  # JSON integers beyond the largest double
        ("overflow", "-" + big + "0"),
        ("overflow", "1" + "0" * 400),
        # what Python's decoder accepts beyond RFC 8259: the bare words
        ("nonfinite_token", "NaN"),
        ("nonfinite_token", "Infinity"),
        ("nonfinite_token", "-Infinity"),
    ]
    strs = [
        ("at_limit", "1e308"),
        ("at_limit", "-1e308"),
        ("at_limit", "1.7976931348623157e308"),
        ("at_limit", big),
        ("underflow", "1e-400"),
        ("overflow", "1e309"),
        ("overflow", "-1e309"),
        ("overflow", "1e999"),
        ("overflow", "-1e999"),
        ("overflow", "+1e999"),
        ("overflow", "1E999"),
        ("overflow", "1e+999"),
        ("overflow", "-1E+999"),
        ("overflow", " 1e999"),
        ("overflow", "1e999 "),
        ("overflow", "1.7976931348623159e308"),
        ("overflow", big + "0"),
        ("overflow", "1" + "0" * 400),
        ("overflow", "-1" + "0" * 400 + ".0"),
    ]
    words = caps("nan") + caps("inf") + (caps("infinity") if tier != "quick" else ["infinity", "Infinity", "INFINITY"])
    words += [sg + w for sg in "-+" for w in ("nan", "NaN", "NAN", "inf", "Inf", "INF", "infinity", "Infinity", "INFINITY")]
    words += [" inf", "nan ", "-Inf "]
    strs += [("nonfinite_word", w) for w in words]
    return nums + [(tag, json.dumps(v)) for tag, v in strs]


def jtype(raw: str) -> str:
    v = json.loads(raw)
    if v is None:
        return "null"
    if isinstance(v, bool):
        return "bool"
    if isinstance(v, int):
        return "int"
    if isinstance(v, float):
        return "float"
    if isinstance(v, str):
        return "string"
    if isinstance(v, list):
        return "array"
    return "object"


# --------------------------------------------------------------------------------------------------
# tree, prior states
# --------------------------------------------------------------------------------------------------


def tree() -> Dict[str, str]:
    return kgen.render(
        Program(
            children=[
                Cfg("B", "bool", prompt="b"),
                Cfg("B2", "bool", prompt="b2", defaults=[(L("y"), None)]),
                Cfg("I", "int", prompt="i", ranges=[(L("0"), L("10"), None)], defaults=[(L("3"), None)]),
                Cfg("H", "hex", prompt="h", defaults=[(L("0x10"), None)]),
                Cfg("S", "string", prompt="s", defaults=[(L('"s0"'), None)]),
                Cfg("F", "float", prompt="f", ranges=[(L("-2.0"), L("8.0"), None)], defaults=[(L("1.5"), None)]),
                Cfg("FN", "float", prompt="fn", defaults=[(L("0.5"), None)]),  # float WITHOUT a range: nothing clamps / refuses by range
                Cfg("DEP", "int", prompt="dep", depends=[S("B")], defaults=[(L("1"), None)]),
                Cfg("GATE", "bool"),  # no prompt, no default: always n
                Cfg("INV", "int", prompt="inv", depends=[S("GATE")], defaults=[(L("2"), None)]),  # never visible
                Menu(title="M", children=[Cfg("MI", "int", prompt="mi", defaults=[(L("7"), None)])]),
                Choice(name="CH", prompt="ch", children=[Cfg("CA", "bool", prompt="ca"), Cfg("CB", "bool", prompt="cb")]),
            ]
        )
    )


SDK0 = "CONFIG_I=4\n"
HAND = 'CONFIG_H=0x20\nCONFIG_F=2.5\nCONFIG_MI=9\nCONFIG_S="hand"\n'
AUX = {
    "hand": HAND,
    "dir": None,
    "binary": b"CONFIG_I=5\n\xff\xfe\xfa\nCONFIG_MI=3\n",
    # project files whose float entries are not finite numbers (the reply to the load must still be strict JSON)
    "fover": "CONFIG_FN=1e999\nCONFIG_F=-1e999\nCONFIG_MI=3\n",
    "fword": "CONFIG_FN=inf\nCONFIG_F=nan\nCONFIG_MI=3\n",
}

PRIORS = [
    [],
    ['{"version": 3, "set": {"B": true, "I": 5, "S": "u", "CB": true}}'],
    ['{"version": 2, "save": "$D/alt"}', '{"version": 3, "load": "$D/hand"}'],
]
PROBES = ['{"version": 3, "set": {"MI": 8}}', '{"version": 3, "save": null}']

OPTS = {"bool": "B", "int": "I", "hex": "H", "string": "S", "float": "F", "float_norange": "FN"}
SIB = '"B2": false'  # valid sibling entry


def classify_entry(t: str, raw: str) -> Tuple[str, Optional[str]]:
    """('valid'|'invalid'|'tolerated', canonical raw value for tolerated)"""
    jt = jtype(raw)
    if t == "bool":
        return ("valid", None) if jt == "bool" else ("invalid", None)
    if t == "int":
        if jt == "int":
            return "valid", None
        if raw == '"3"':
            return "tolerated", "3"
        return "invalid", None
    if t == "hex":
        if jt == "int" or raw == '"3"':
            return "valid", None
        return "invalid", None
    if t in ("float", "float_norange"):
        v = json.loads(raw)  # Python's decoder maps an overflowing literal (and the bare words NaN / Infinity) to inf / nan
        if jt in ("int", "float"):
            try:
                finite = math.isfinite(float(v))
            except OverflowError:  # a JSON integer beyond the largest double
                finite = False
            return ("valid", None) if finite else ("invalid", None)
        if jt == "string":
            if _JSON_NUMBER.fullmatch(v):
                # the string form of a JSON number: tolerated if that number is representable, else out of range
                return ("tolerated", v) if math.isfinite(float(v)) else ("invalid", None)
            try:
                finite = math.isfinite(float(v))
            except ValueError:
                return "invalid", None  # not a number at all
            if finite:
                raise ValueError(f"{raw}: neither a JSON number spelling nor offending -- the documents are silent, do not generate")
            return "invalid", None  # inf / nan words, overflowing literals with sign / blanks / upper-case exponent
        return "invalid", None
    if t == "string":
        if jt == "string":
            return "valid", None
        if jt in ("int", "float"):
            v = json.loads(raw)
            return "tolerated", json.dumps(str(v))
        return "invalid", None
    raise ValueError(t)


def case(cls: str, line: str, twin: Optional[str], expect: str, need_error: bool = False, canon: Optional[str] = None) -> dict:
    return {"cls": cls, "line": line, "twin": twin, "expect": expect, "need_error": need_error, "canon": canon}


def matrix(rv: int, tier: str = "quick") -> List[dict]:
    out: List[dict] = []
    V = f'"version": {rv}'
    ok_set = f'{{{V}, "set": {{{SIB}}}}}'
    # ---- version
    for raw in VALS + ["1", "2"]:
        good = raw in ("1", "2", "3")
        jt = jtype(raw)
        cls = "version<-int:supported" if good else "version<-int:unsupported" if jt == "int" else f"version<-{jt}"
        out.append(case(cls, f'{{"version": {raw}, "set": {{{SIB}}}}}', None, "valid" if good else "invalid", need_error=not good))
    out.append(case("version:missing", f'{{"set": {{{SIB}}}}}', None, "invalid", need_error=True))
    # ---- set as a whole
    for raw in VALS:
        jt = jtype(raw)
        if raw == "{}":
            out.append(case("set<-object:empty", f'{{{V}, "set": {raw}}}', None, "valid"))
        elif jt == "object":
            out.append(case("set:unknown_option", f'{{{V}, "set": {raw}}}', None, "invalid"))
        else:
            out.append(case(f"set<-{jt}", f'{{{V}, "load": "$D/hand", "set": {raw}}}', f'{{{V}, "load": "$D/hand"}}', "invalid"))
    # ---- set entries
    entries = [(t, "", raw) for t in OPTS for raw in VALS + ["false"]]
    # float options (with / without a range) x the limits of the representable range and the non-finite words
    entries += [(t, f"[{tag}]", raw) for t in ("float", "float_norange") for tag, raw in float_vals(tier)]
    for t, tag, raw in entries:
        name = OPTS[t]
        kind, canon = classify_entry(t, raw)
        for paired in (False, True):
            pre = f"{SIB}, " if paired else ""
            line = f'{{{V}, "set": {{{pre}"{name}": {raw}}}}}'
            twin = ok_set if paired else None
            cn = f'{{{V}, "set": {{{pre}"{name}": {canon}}}}}' if canon is not None else None
            cls = f"set:{t}<-{jtype(raw)}{tag}" + ("" if kind != "tolerated" else ":tolerated") + ("+sibling" if paired else "")
            out.append(case(cls, line, twin, "tolerated" if kind == "tolerated" else kind, canon=cn))
    for paired in (False, True):
        pre = f"{SIB}, " if paired else ""
        sfx = "+sibling" if paired else ""
        out.append(case("set:invisible_option" + sfx, f'{{{V}, "set": {{{pre}"INV": 3}}}}', ok_set if paired else None, "invalid"))
        out.append(case("set:unknown_option" + sfx, f'{{{V}, "set": {{{pre}"NOPE": 3}}}}', ok_set if paired else None, "invalid"))
        # names that are not options but exist in the symbol table as literals of the Kconfig text
        out.append(case("set:literal_name" + sfx, f'{{{V}, "set": {{{pre}"7": 3}}}}', ok_set if paired else None, "invalid"))
        out.append(case("set:literal_name" + sfx, f'{{{V}, "set": {{{pre}"y": true}}}}', ok_set if paired else None, "invalid"))
    # ---- reset (protocol 3 only; older protocols must refuse it)
    if rv >= 3:
        for raw in VALS:
            jt = jtype(raw)
            if raw == "[]":
                out.append(case("reset<-array:empty", f'{{{V}, "reset": {raw}}}', None, "valid"))
            elif raw == '["x"]':
                out.append(case("reset:unknown_symbol", f'{{{V}, "reset": {raw}}}', None, "invalid"))
            else:
                out.append(case(f"reset<-{jt}" + ("[int]" if raw == "[1]" else ""), f'{{{V}, "reset": {raw}, "set": {{{SIB}}}}}', ok_set, "invalid"))
        for raw in VALS:
            jt = jtype(raw)
            if jt == "string":
                continue
            out.append(case(f"reset[]<-{jt}", f'{{{V}, "reset": ["I", {raw}]}}', f'{{{V}, "reset": ["I"]}}', "invalid"))
        out.append(case("reset:unknown_menu", f'{{{V}, "reset": ["I", "no-such-menu-1"]}}', f'{{{V}, "reset": ["I"]}}', "invalid"))
        out.append(case("reset:unknown_symbol+valid", f'{{{V}, "reset": ["I", "NOPE"]}}', f'{{{V}, "reset": ["I"]}}', "invalid"))
        out.append(case("reset:literal_name", f'{{{V}, "reset": ["I", "7"]}}', f'{{{V}, "reset": ["I"]}}', "invalid"))
        out.append(case("reset:literal_name", f'{{{V}, "reset": ["y"]}}', None, "invalid"))
    else:
        out.append(case("reset:unsupported_protocol", f'{{{V}, "reset": ["I"], "set": {{{SIB}}}}}', ok_set, "invalid", need_error=True))
    # ---- load
    for raw in VALS:
        jt = jtype(raw)
        if raw == "null":
            out.append(case("load<-null", f'{{{V}, "load": null}}', None, "valid"))
        elif jt == "string":
            out.append(case("load:missing_relative" if raw != '""' else "load:empty_path", f'{{{V}, "load": {raw}, "set": {{{SIB}}}}}', ok_set, "invalid", need_error=True))
        else:
            out.append(case(f"load<-{jt}", f'{{{V}, "load": {raw}, "set": {{{SIB}}}}}', ok_set, "invalid", need_error=True))
    for cls, path in (("load:missing_file", "$D/missing"), ("load:directory", "$D/dir"), ("load:undecodable_file", "$D/binary")):
        out.append(case(cls, f'{{{V}, "load": "{path}", "set": {{{SIB}}}}}', ok_set, "invalid", need_error=True))
    out.append(case("load:file", f'{{{V}, "load": "$D/hand"}}', None, "valid"))
    # project files whose float entries overflow / are the non-finite words: what the server makes of them is not documented,
    # the reply (and the replies to the probes) must nevertheless be protocol JSON
    out.append(case("load:file_with_overflowing_float", f'{{{V}, "load": "$D/fover"}}', None, "valid"))
    out.append(case("load:file_with_nonfinite_word_float", f'{{{V}, "load": "$D/fword"}}', None, "valid"))
    # ---- save
    for raw in VALS:
        jt = jtype(raw)
        if raw == "null":
            out.append(case("save<-null", f'{{{V}, "save": null}}', None, "valid"))
        elif raw == '""':
            out.append(case("save:empty_path", f'{{{V}, "set": {{{SIB}}}, "save": ""}}', ok_set, "invalid", need_error=True))
        elif jt == "string":
            out.append(case("save:relative_file", f'{{{V}, "save": {raw}}}', None, "valid"))
        else:
            out.append(case(f"save<-{jt}", f'{{{V}, "set": {{{SIB}}}, "save": {raw}}}', ok_set, "invalid", need_error=True))
    # (saving onto an existing directory is not a failure: write_config moves it to <name>.old; the documents are silent)
    for cls, path in (("save:below_regular_file", "$D/hand/x"), ("save:missing_directory", "$D/nodir/x")):
        out.append(case(cls, f'{{{V}, "set": {{{SIB}}}, "save": "{path}"}}', ok_set, "invalid", need_error=True))
    out.append(case("save:new_file", f'{{{V}, "save": "$D/new"}}', None, "valid"))
    # ---- not JSON / not an object
    for cls, line in (
        ("nonjson:empty", ""),
        ("nonjson:blank", "  "),
        ("nonjson:cr", "\r"),
        ("nonjson:brace", "{"),
        ("nonjson:word", "garbage"),
        ("nonjson:open_array", "[1,2"),
        ("nonjson:truncated_request", f'{{{V}, "set": {{{SIB}}}'),
        ("nonjson:two_objects", f"{ok_set} {ok_set}"),
        # well-formed JSON grammar that Python's json refuses with a plain ValueError (int digit limit)
        ("nonjson:huge_integer", f'{{{V}, "set": {{"I": ' + "9" * 5000 + "}}"),
        ("nonjson:huge_integer_toplevel", "1" * 5000),
    ):
        out.append(case(cls, line, None, "invalid", need_error=True))
    for raw in ("null", "true", "5", "1.5", '"x"', '"version"', "[]", "[1]", "1e999", "NaN", "-Infinity"):
        out.append(case(f"toplevel<-{jtype(raw)}" + (":'version'" if raw == '"version"' else ""), raw, None, "invalid", need_error=True))
    return out


# Strings a JSON request can carry that the server's stdout encoding may be unable to represent.  Spelled with \\uXXXX
# escapes the request LINE is pure ASCII (deliverable through any stdin encoding); only the decoded string is unusual.
USTR = [
    ("latin1", "caf\\u00e9"),
    ("bmp", "\\u4e16\\u754c"),
    ("astral_pair", "\\ud83d\\ude00"),
    ("lone_high_surrogate", "x\\ud83d"),
    ("lone_low_surrogate", "\\ude00y"),
    ("lone_low_surrogate_dc80", "\\udc80"),  # the range `surrogateescape` maps to raw bytes 0x80..0xff
    ("reversed_pair", "\\ude00\\ud83d"),
    ("nul", "a\\u0000b"),
    # plain ASCII that a console-markup renderer on the diagnostics path would read as tags (an unmatched closing tag, an
    # opening tag, an escaped bracket): echoed client text must reach the reply verbatim and must not stop the server
    ("markup_closing_tag", "[/b]"),
    ("markup_path_like_tag", "x[/tmp]"),
    ("markup_opening_tag", "[bold red]y\\\\[z"),
]
# the same kind of text written raw (UTF-8 on the wire): only deliverable when stdin decodes UTF-8
USTR_RAW = [("raw_utf8", "caf\u00e9 \u4e16\u754c \U0001f600")]
STDOUT_ENCODINGS = ["utf-8", "ascii"]
UGROUP = {
    "latin1": "non_ascii",
    "bmp": "non_ascii",
    "astral_pair": "non_ascii",
    "raw_utf8": "non_ascii",
    "lone_high_surrogate": "lone_surrogate",
    "lone_low_surrogate": "lone_surrogate",
    "lone_low_surrogate_dc80": "lone_surrogate",
    "reversed_pair": "lone_surrogate",
    "nul": "nul",
    "markup_closing_tag": "console_markup",
    "markup_path_like_tag": "console_markup",
    "markup_opening_tag": "console_markup",
}


def unicode_matrix(rv: int, enc: str) -> List[dict]:
    """every place where a request string is echoed (error texts) or stored and reported (values), x USTR"""
    out: List[dict] = []
    V = f'"version": {rv}'
    ok_set = f'{{{V}, "set": {{{SIB}}}}}'
    for uname, u in USTR + (USTR_RAW if enc == "utf-8" else []):
        tag = f"[{UGROUP[uname]}]"  # failure classes are named by the group, the message carries the request line
        out.append(case("set:unknown_option" + tag, f'{{{V}, "set": {{"NOPE{u}": 1}}}}', None, "invalid"))
        out.append(case("set:unknown_option" + tag + "+sibling", f'{{{V}, "set": {{{SIB}, "NOPE{u}": 1}}}}', ok_set, "invalid"))
        # any JSON string is a documented value of a string option: only liveness / reply shape is demanded
        out.append(case("set:string<-string" + tag, f'{{{V}, "set": {{"S": "{u}"}}}}', None, "valid"))
        for t in ("bool", "int", "hex", "float"):
            out.append(case(f"set:{t}<-string" + tag, f'{{{V}, "set": {{"{OPTS[t]}": "{u}"}}}}', None, "invalid"))
        if rv >= 3:
            out.append(case("reset:unknown_symbol" + tag, f'{{{V}, "reset": ["{u}"]}}', None, "invalid"))
            out.append(case("reset:unknown_symbol+valid" + tag, f'{{{V}, "reset": ["I", "NOPE{u}"]}}', f'{{{V}, "reset": ["I"]}}', "invalid"))
            out.append(case("reset:unknown_menu" + tag, f'{{{V}, "reset": ["I", "m-{u}-1"]}}', f'{{{V}, "reset": ["I"]}}', "invalid"))
        out.append(case("load:missing_file" + tag, f'{{{V}, "load": "$D/missing{u}", "set": {{{SIB}}}}}', ok_set, "invalid", need_error=True))
        # whether such a name can be created is the file system's business: only liveness / reply shape is demanded
        out.append(case("save:new_file" + tag, f'{{{V}, "save": "$D/new{u}"}}', None, "valid"))
        out.append(case("save:missing_directory" + tag, f'{{{V}, "set": {{{SIB}}}, "save": "$D/nodir{u}/x"}}', ok_set, "invalid", need_error=True))
        out.append(case("unknown_key" + tag, f'{{{V}, "{u}": 1, "set": {{{SIB}}}}}', None, "valid"))
        out.append(case("version<-string" + tag, f'{{"version": "{u}", "set": {{{SIB}}}}}', None, "invalid", need_error=True))
        if (uname, u) in USTR_RAW:
            out.append(case("nonjson:word" + tag, f"garbage {u}", None, "invalid", need_error=True))
    return out


# representatives for the sequence phase: (class, line, twin line or None=removed / "same")
def representatives() -> List[Tuple[str, str, Optional[str], str]]:
    """(name, line, twin line | None = removed | "same" = not offending, request class used if this request kills the server)"""
    V = '"version": 3'
    return [
        ("ok:set_bool", f'{{{V}, "set": {{"B": true}}}}', "same", "set:bool<-bool"),
        ("ok:set_int", f'{{{V}, "set": {{"I": 6}}}}', "same", "set:int<-int"),
        ("ok:reset_all", f'{{{V}, "reset": ["all"]}}', "same", "reset:all"),
        ("ok:save_null", f'{{{V}, "save": null}}', "same", "save<-null"),
        ("ok:load_null", f'{{{V}, "load": null}}', "same", "load<-null"),
        ("ok:v1_set", '{"version": 1, "set": {"B": false, "S": "w"}}', "same", "set:string<-string"),
        ("bad:nonjson", "garbage", None, "nonjson:word"),
        ("bad:no_version", '{"set": {"B2": false}}', None, "version:missing"),
        ("bad:version", '{"version": 4, "set": {"B2": false}}', None, "version<-int:unsupported"),
        ("bad:unknown_option", f'{{{V}, "set": {{"NOPE": 1, "MI": 2}}}}', f'{{{V}, "set": {{"MI": 2}}}}', "set:unknown_option+sibling"),
        ("bad:bool_type", f'{{{V}, "set": {{"B": "x", "H": 17}}}}', f'{{{V}, "set": {{"H": 17}}}}', "set:bool<-string+sibling"),
        ("bad:invisible", f'{{{V}, "set": {{"INV": 5}}}}', None, "set:invisible_option"),
        ("bad:load_missing", f'{{{V}, "load": "$D/missing"}}', None, "load:missing_file"),
        ("bad:save_unwritable", f'{{{V}, "save": "$D/hand/x"}}', None, "save:below_regular_file"),
        ("bad:reset_unknown", f'{{{V}, "reset": ["NOPE", "no-such-menu-1"]}}', None, "reset:unknown_symbol"),
        ("bad:reset_v2", '{"version": 2, "reset": ["I"]}', None, "reset:unsupported_protocol"),
        ("bad:hex_float", f'{{{V}, "set": {{"H": 1.5}}}}', None, "set:hex<-float"),
        ("bad:float_overflow", f'{{{V}, "set": {{"FN": "-1e999", "MI": 2}}}}', f'{{{V}, "set": {{"MI": 2}}}}', "set:float_norange<-string[overflow]"),
        ("bad:unencodable_name", f'{{{V}, "set": {{"NOPE\\ud83d": 1, "S": "t"}}}}', f'{{{V}, "set": {{"S": "t"}}}}', "set:unknown_option[lone_surrogate]"),
    ]


PAIRS_QUICK = [(3, 3), (2, 2), (1, 1)]
PAIRS_ALL = [(d, c) for d in (3, 2, 1) for c in (3, 2, 1)]
CHUNK = 12


def items(tier: str, seed: int):
    out: List[dict] = []
    for dv, rv in PAIRS_QUICK if tier == "quick" else PAIRS_ALL:
        cases = matrix(rv, tier)
        for i in range(0, len(cases), CHUNK):
            out.append({"phase": "matrix", "dv": dv, "rv": rv, "cases": cases[i : i + CHUNK]})
    for dv, rv in PAIRS_QUICK if tier == "quick" else PAIRS_ALL:
        for enc in STDOUT_ENCODINGS:
            cases = unicode_matrix(rv, enc)
            for i in range(0, len(cases), CHUNK):
                out.append({"phase": "matrix", "dv": dv, "rv": rv, "enc": enc, "cases": cases[i : i + CHUNK]})
    reps = representatives()
    depth = 3 if tier == "quick" else 4
    for i in range(len(reps)):
        if depth == 3:
            out.append({"phase": "seq", "dv": 3, "prefix": [i], "depth": depth})
        else:
            for j in range(len(reps)):
                out.append({"phase": "seq", "dv": 3, "prefix": [i, j], "depth": depth})
    if depth == 4:
        for i in range(len(reps)):
            out.append({"phase": "seq", "dv": 3, "prefix": [i], "depth": 1})
    return out


# --------------------------------------------------------------------------------------------------
# oracle
# --------------------------------------------------------------------------------------------------

FILES: Optional[Dict[str, str]] = None


def files() -> Dict[str, str]:
    global FILES
    if FILES is None:
        FILES = tree()
    return FILES


_POS = re.compile(r"in position \d+(-\d+)?")


def norm_pos(text: str) -> str:
    """codec error texts echoed in replies carry an offset into the (run-directory dependent) path: not part of the behaviour"""
    return _POS.sub("in position N", text)


def do_run(reqs: List[str], dv: int, enc: str = "utf-8") -> server.Run:
    """in-process server life whose stdout is, like a real process's, a byte stream behind a strictly encoding text layer"""
    return server.run(files(), reqs, sdkconfig=SDK0, default_version=dv, aux=AUX, stdout_encoding=enc)


def generic_checks(r: common.Result, run: server.Run, reqs: List[str], cls: str, msg_ctx: str, cs: dict) -> Optional[List[Optional[dict]]]:
    """liveness, reply count, strict protocol JSON on stdout.  Returns parsed replies or None if the server died."""
    if run.exc is not None:
        r.violation(
            {"kind": "server_died", "exc": run.exc[0], "site": run.exc[1], "request_class": cls},
            f"{msg_ctx}: run_server raised {run.exc[0]}: {run.exc[2]} at {run.exc[1]} after {len(run.lines) - 1} replies",
            cs,
        )
        return None
    if len(run.lines) != len(reqs) + 1:
        r.violation(
            {"kind": "reply_count", "request_class": cls, "stdout_lines": "too_many" if len(run.lines) > len(reqs) + 1 else "too_few"},
            f"{msg_ctx}: {len(run.lines)} stdout lines for {len(reqs)} input lines (+1 initial)",
            cs,
        )
    parsed: List[Optional[dict]] = []
    for i, ln in enumerate(run.lines):
        obj, why = server.parse_reply(ln)
        if obj is not None and "version" not in obj:
            obj, why = None, "object without `version`"
        if obj is None:
            r.violation(
                {"kind": "stdout_not_protocol_json", "request_class": cls, "why": why.split(" (")[0]},
                f"{msg_ctx}: stdout line {i} is not a protocol reply ({why}): {ln[:100]!r}",
                cs,
            )
        parsed.append(obj)
    return parsed


def compare_with_twin(r: common.Result, main: server.Run, twin: server.Run, nprobe: int, sig_extra: dict, msg_ctx: str, cs: dict) -> bool:
    """configuration, files and probe replies of main vs twin; True if everything agrees"""
    a, b = server.config_state(main.kconfig), server.config_state(twin.kconfig)
    if a != b:
        r.violation(
            dict({"kind": "config_differs_from_twin"}, **sig_extra),
            f"{msg_ctx}: configuration differs from the history without the offending part: {'; '.join(server.config_diff(a, b))[:300]}",
            cs,
        )
        return False
    files_differ = main.files != twin.files
    probes_differ = bool(nprobe) and main.lines[-nprobe:] != twin.lines[-nprobe:]
    if files_differ or probes_differ:
        # same configuration, but the session behaves differently afterwards (e.g. `save` null goes elsewhere)
        names = sorted(n for n in set(main.files) | set(twin.files) if main.files.get(n) != twin.files.get(n))
        sig = dict({"kind": "session_differs_from_twin"}, **sig_extra)
        rc = sig.get("request_class", "")
        if rc.split(":")[0].split("<-")[0] in ("load", "save") and rc not in ("load<-null", "save<-null"):
            sig["request_class"] = rc.split(":")[0].split("<-")[0] + ":failed"  # which way it failed does not matter here
        r.violation(
            sig,
            f"{msg_ctx}: same configuration as the history without the offending part, but after the probes (set + save null) "
            f"files {names} differ / probe replies {'differ: ' + str(main.lines[-nprobe:]) + ' vs ' + str(twin.lines[-nprobe:]) if probes_differ else 'agree'}"[:500],
            cs,
        )
        return False
    return True


def check_case(r: common.Result, dv: int, rv: int, pi: int, c: dict, enc: str = "utf-8") -> None:
    prior = PRIORS[pi]
    cls = c["cls"].replace("+sibling", "")  # the sibling variant is part of the case, not of the failure class
    if enc != "utf-8":
        cls += f"@{enc}-stdout"
    reqs = prior + [c["line"]] + PROBES
    cs = {"phase": "matrix", "dv": dv, "rv": rv, "prior": pi, "enc": enc, "case": c}
    shown = c["line"] if len(c["line"]) <= 200 else c["line"][:120] + f"...<{len(c['line']) - 160} more>..." + c["line"][-40:]
    ctx = f"[dv={dv} prior#{pi} stdout={enc}] {cls}: {shown!r}"
    r.evals += 1

    def run_(reqs_: List[str], dv_: int) -> server.Run:  # every life of this case (twins too) on the same kind of stdout
        return do_run(reqs_, dv_, enc)

    main = run_(reqs, dv)
    parsed = generic_checks(r, main, reqs, cls, ctx, cs)
    if parsed is None:
        return
    idx = len(prior) + 1
    rep = parsed[idx] if idx < len(parsed) else None
    if rep is not None:
        err = rep.get("error")
        if c["need_error"] and not err:
            r.violation({"kind": "error_not_reported", "request_class": cls}, f"{ctx}: reply has no `error`: {main.lines[idx][:160]}", cs)
        if err is not None and not (isinstance(err, list) and err and all(isinstance(e, str) for e in err)):
            r.violation({"kind": "error_shape", "request_class": cls}, f"{ctx}: `error` is not a non-empty array of strings: {main.lines[idx][:160]}", cs)
        r.outcome((cls, pi, dv, rv, norm_pos(main.lines[idx])))
    if c["expect"] == "valid" or len(main.lines) != len(reqs) + 1:
        return
    treqs = prior + ([c["twin"]] if c["twin"] is not None else []) + PROBES
    twin = run_(treqs, dv)
    r.evals += 1
    if twin.exc is not None or len(twin.lines) != len(treqs) + 1:
        generic_checks(r, twin, treqs, "twin-of:" + cls, ctx + " (twin)", cs)
        return
    if c["expect"] == "tolerated":
        if server.config_state(main.kconfig) == server.config_state(twin.kconfig):
            r.count("tolerated_form_ignored")
            return
        canon = run_(prior + [c["canon"]] + PROBES, dv)
        r.evals += 1
        if canon.exc is None and server.config_state(canon.kconfig) == server.config_state(main.kconfig):
            r.count("tolerated_form_applied_like_canonical")
            return
    sub = common.Result()
    if compare_with_twin(sub, main, twin, len(PROBES), {"request_class": cls}, ctx, cs):
        return
    if c["twin"] is not None:
        # the other documented reading: the whole offending request is refused
        twin2 = run_(prior + PROBES, dv)
        r.evals += 1
        if twin2.exc is None and compare_with_twin(common.Result(), main, twin2, len(PROBES), {}, ctx, cs):
            r.count("whole_request_refused")
            return
    for v in sub.viols:
        r.violation(v["sig"], v["msg"], v["case"])


def check_seq(r: common.Result, dv: int, idxs: List[int], reps) -> None:
    seq = [reps[i] for i in idxs]
    names = [s[0] for s in seq]
    reqs = [s[1] for s in seq] + PROBES
    cs = {"phase": "seq", "dv": dv, "seq": idxs, "classes": names}
    ctx = f"[dv={dv}] sequence {' ; '.join(names)}"
    r.evals += 1
    main = do_run(reqs, dv)
    if main.exc is not None:
        # which request killed it: the last one of the shortest prefix that dies
        k = len(reqs) - 1
        for p_ in range(1, len(reqs)):
            if do_run(reqs[:p_], dv).exc is not None:
                k = p_ - 1
                break
            r.evals += 1
        cls = seq[k][3] if k < len(seq) else "probe"
        generic_checks(r, main, reqs, cls, ctx, cs)
        return
    parsed = generic_checks(r, main, reqs, "seq:" + "+".join(sorted({s[3] for s in seq if s[2] != "same"})), ctx, cs)
    if parsed is None or len(main.lines) != len(reqs) + 1:
        return
    bad = [j for j, s in enumerate(seq) if s[2] != "same"]
    r.outcome((tuple(names), server.config_state(main.kconfig)))
    if not bad:
        return

    def twin_of(keep_bad: Optional[int]) -> List[str]:
        out = []
        for j, s in enumerate(seq):
            if s[2] == "same" or j == keep_bad:
                out.append(s[1])
            elif s[2] is not None:
                out.append(s[2])
        return out + PROBES

    treqs = twin_of(None)
    twin = do_run(treqs, dv)
    r.evals += 1
    if twin.exc is not None or len(twin.lines) != len(treqs) + 1:
        generic_checks(r, twin, treqs, "twin-of-seq", ctx + " (twin)", cs)
        return
    sub = common.Result()
    if compare_with_twin(sub, main, twin, len(PROBES), {}, ctx, cs):
        return
    if any(seq[j][2] is not None for j in bad):
        # the other documented reading: every offending request is refused as a whole
        t2 = [s_[1] for s_ in seq if s_[2] == "same"] + PROBES
        twin2 = do_run(t2, dv)
        r.evals += 1
        if twin2.exc is None and compare_with_twin(common.Result(), main, twin2, len(PROBES), {}, ctx, cs):
            r.count("whole_request_refused")
            return
    # attribute: offending requests that, put back into the twin one at a time, reproduce a disagreement on their own
    culprits = []
    for j in bad:
        one = do_run(twin_of(j), dv)
        r.evals += 1
        s2 = common.Result()
        if one.exc is not None or not compare_with_twin(s2, one, twin, len(PROBES), {}, ctx, cs):
            culprits.append(names[j])
    bad_cls = {names[j]: seq[j][3] for j in bad}
    targets = sorted(set(culprits)) if culprits else ["only-in-combination:" + "+".join(sorted(bad_cls.values()))]
    for v in sub.viols:
        for c in targets:
            sig = dict(v["sig"])
            rc = bad_cls.get(c, c)
            if sig["kind"] == "session_differs_from_twin" and rc.split(":")[0] in ("load", "save"):
                rc = rc.split(":")[0] + ":failed"
            sig["request_class"] = rc
            sig["in_sequence"] = True
            r.violation(sig, v["msg"], cs)


def run_item(item) -> common.Result:
    r = common.Result()
    r.programs = 1
    if item["phase"] == "matrix":
        for c in item["cases"]:
            for pi in range(len(PRIORS)):
                check_case(r, item["dv"], item["rv"], pi, c, item.get("enc", "utf-8"))
        r.sample = {"phase": "matrix", "server_default_version": item["dv"], "stdout_encoding": item.get("enc", "utf-8"), "kconfig": files()["Kconfig"], "priors": PRIORS, "probes": PROBES,
                    "requests": [c["line"] for c in item["cases"]]}
        return r
    reps = representatives()
    pre = item["prefix"]
    n = 0
    for extra in range(0, item["depth"] - len(pre) + 1):
        for tail in itertools.product(range(len(reps)), repeat=extra):
            check_seq(r, item["dv"], list(pre) + list(tail), reps)
            n += 1
    r.sample = {"phase": "seq", "prefix": [reps[i][1] for i in pre], "depth": item["depth"], "sequences": n, "representatives": [x[1] for x in reps]}
    return r


def replay(case) -> List[dict]:
    r = common.Result()
    if case.get("phase") == "matrix":
        check_case(r, case["dv"], case["rv"], case["prior"], case["case"], case.get("enc", "utf-8"))
    elif case.get("phase") == "seq":
        check_seq(r, case["dv"], list(case["seq"]), representatives())
    elif case.get("phase") == "subprocess":
        for v in conformance_one(case):
            r.violation(v["sig"], v["msg"], v["case"])
    return r.viols


# --------------------------------------------------------------------------------------------------
# conformance: the same request scripts on the real `python -m kconfserver`
# --------------------------------------------------------------------------------------------------


def conformance_cases(tier: str) -> List[dict]:
    n = 10 if tier == "quick" else 60
    cases = matrix(3)
    # spread over the matrix: one of every len/n-th case, alternating prior states
    step = max(1, len(cases) // n)
    picked = [cases[(i * step + (i % step if step > 1 else 0)) % len(cases)] for i in range(n)]
    out = []
    for i, c in enumerate(picked):
        pi = i % len(PRIORS)
        out.append({"phase": "subprocess", "cls": c["cls"], "requests": PRIORS[pi] + [c["line"]] + PROBES})
    # and the no-trailing-newline variant of a valid request
    out[-1] = {"phase": "subprocess", "cls": "eof_without_newline", "requests": [PROBES[0] + server.NO_NL]}
    # request strings the stdout encoding may be unable to represent: the real process with PYTHONIOENCODING = utf-8 / ascii
    # (strict, what IDE clients set) and with the environment's default (C locale: utf-8 with surrogateescape)
    m = 4 if tier == "quick" else 24
    for enc, env in (("utf-8", {"PYTHONIOENCODING": "utf-8"}), ("ascii", {"PYTHONIOENCODING": "ascii"}), ("utf-8", None)):
        ucases = unicode_matrix(3, enc if env else "ascii")  # without an explicit stdin encoding only pure-ASCII lines
        ustep = max(1, len(ucases) // m)
        for i in range(m):
            c = ucases[(i * ustep + i % ustep) % len(ucases)]
            out.append({"phase": "subprocess", "cls": c["cls"] + (f"@{env['PYTHONIOENCODING']}-process" if env else "@default-process"),
                        "requests": PRIORS[i % len(PRIORS)] + [c["line"]] + PROBES, "enc": enc, "env": env})
    return out


def run_sub(case: dict) -> dict:
    return server.run_subprocess(files(), list(case["requests"]), sdkconfig=SDK0, default_version=None, aux=AUX,
                                 env_extra=case.get("env"), errors="backslashreplace")


def conformance_one(case: dict, sub: Optional[dict] = None) -> List[dict]:
    reqs = list(case["requests"])
    cls = case["cls"]
    inproc = do_run(reqs, 3, case.get("enc", "utf-8"))
    if sub is None:
        sub = run_sub(case)
    viols = []
    if norm_pos(sub["raw"]) != norm_pos(inproc.raw):
        a, b_ = [norm_pos(x) for x in sub["lines"]], [norm_pos(x) for x in inproc.lines]
        fd = next((i for i, (x, y) in enumerate(zip(a, b_)) if x != y), min(len(a), len(b_)))
        bad_json = any(server.parse_reply(ln)[0] is None for ln in a)
        viols.append(
            {
                "sig": {"kind": "subprocess_stdout_differs", "request_class": cls, "non_json_on_stdout": bad_json},
                "msg": f"{cls}: stdout of `python -m kconfserver` differs from the in-process run at line {fd}: "
                f"{(a[fd] if fd < len(a) else '<missing>')[:100]!r} vs {(b_[fd] if fd < len(b_) else '<missing>')[:100]!r}",
                "case": case,
            }
        )
    own = "env" in case  # byte-level stdout cases: the real process is judged on its own, not only against the in-process run
    if (inproc.exc is None or own) and sub["rc"] != 0:
        viols.append({"sig": {"kind": "subprocess_exit_status", "request_class": cls, "rc": sub["rc"]}, "msg": f"{cls}: python -m kconfserver exited with {sub['rc']}: {sub['stderr'][-200:]}", "case": case})
    if (inproc.exc is None or own) and len(sub["lines"]) != len(reqs) + 1:
        viols.append({"sig": {"kind": "reply_count", "request_class": "subprocess:" + cls, "stdout_lines": "too_many" if len(sub["lines"]) > len(reqs) + 1 else "too_few"},
                      "msg": f"{cls}: subprocess wrote {len(sub['lines'])} stdout lines for {len(reqs)} input lines", "case": case})
    if own:
        bad = next(((i, server.parse_reply(ln)[1]) for i, ln in enumerate(sub["lines"]) if server.parse_reply(ln)[0] is None), None)
        if bad is None and sub["raw"] and not sub["raw"].endswith("\n"):
            bad = (len(sub["lines"]) - 1, "unterminated line")
        if bad is not None:
            i, why = bad
            viols.append({"sig": {"kind": "stdout_not_protocol_json", "request_class": "subprocess:" + cls, "why": why.split(" (")[0]},
                          "msg": f"{cls}: stdout line {i} of `python -m kconfserver` is not a complete protocol reply ({why}): {sub['lines'][i][:100]!r}", "case": case})
    return viols


def conformance(tier: str, seed: int):
    from concurrent.futures import ThreadPoolExecutor

    viols: List[dict] = []
    saved = None
    if not os.environ.get("MCK_DEBUG"):
        saved = os.dup(2)
        common.silence_stderr()
    try:
        cases = conformance_cases(tier)
        files()
        # the real servers are independent OS processes: up to 8 at a time; the in-process twins stay sequential
        with ThreadPoolExecutor(max_workers=8) as ex:
            subs = list(ex.map(run_sub, cases))
        for case_, sub in zip(cases, subs):
            viols.extend(conformance_one(case_, sub))
    finally:
        if saved is not None:
            os.dup2(saved, 2)
            os.close(saved)
    return len(cases), viols

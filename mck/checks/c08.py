"""C08 -- inferred values stay inferred; user values stay user values.

Clause 1 (unchanged tree): for every configuration s reachable by <= D1 operations and every follow-up edit sequence E of
<= D2 operations:  f = write(s);  f' = f with every default-marked entry (pragma + line) removed.
   load(f);E  ==  load(f');E   (values, visibilities, written text);   every unmarked entry of f is a user value after load(f).

Clause 2 (changed tree): pairs (T_old, T_new) where T_new is T_old with ONE change from a finite menu; f saved under T_old;
   policy `kconfig`  : load(f);E == load(f');E on T_new; a mismatch record exists exactly for the visible prompted options
                       whose stored default differs from T_new's default.
   policy `sdkconfig`: load(f);E on T_new == load(f');E on T_new', where T_new' is T_new with the stored value written as the
                       option's own `default` (hence guarded by the option's dependencies) whenever the stored value is a
                       valid, in-range value of a visible option and differs from T_new's default; mismatch records for
                       exactly the options whose stored default differs (visible ones).
   Default-marked entries of promptless options never influence anything (they are part of f but not of f').
   Choice trees: `choice` (conditional default, one conditionally visible member) and `choice_gate` (default = the MIDDLE
   member, every member unconditional, an unused switch G): the menu gates a member / the choice by a dependency or a prompt
   condition and moves the tree's default to a LATER member, so that a stored selection which has become invisible (or is
   visible only after a later edit) must be ignored in favour of a default that is NOT the first visible member.

Load histories (change `none` and the changes that ADD an option -- LOAD_HISTORY_CHANGES): one instance of T_new performs
   load(g); [merge(m, replace=False, is_main_sdkconfig=False -- thorough: also True)]; load(f); E
   g written by the tool under T_new, m a one-entry hand-written fragment, f as above (saved under T_old, so it may not mention
   an option g gave a user value to, while one of its default-marked options has a default that refers to it).  The result is
   the reference of f alone (fresh instance, f', T_new resp. T_new'), and the last load's mismatch records are those of loading
   f alone: nothing an earlier load stored survives a replacing load of the main sdkconfig, whatever was merged in between.

Symbol-valued defaults (trees `symval_*`): a chain B <- D (`default B`) <- C (`default D`) of int options in EVERY definition
   order (6 trees), and bool / string / hex / float pairs (referent, `default <referent>`) with the referring options first /
   last; changes: the referent's default literal, the symbol-valued default replaced by a literal.  The reference orders the
   stored defaults by the references read off the SOURCE tree (ast_refs: dependencies, prompt conditions, default values and
   conditions, range bounds), united with the library's own `dependencies`, so it does not follow the library when that
   forgets a kind of reference.

Forced / proposed values (trees `set_<type>_target_{first,last}`, type in string / int / hex / float): T is the target of
   `set T=v` of a switch F and of `set default T=w` of a switch W.  In these trees (and ints/set_default_source_added) the
   live instance OBSERVES between the operations: before each edit (= after the load and after every edit but the last) it
   does nothing / saves the configuration / reads every value (thorough), every combination for <=2 edits, the uniform ones
   for 3; the reference performs the bare edits on a fresh instance.  Switching a `set` on and off again, with the target
   evaluated in between, must leave the user value (restored from an unmarked entry, or set later) in force and unmarked.
"""

from __future__ import annotations

import copy
import itertools
import re
from typing import Any, Dict, Iterator, List, Optional, Tuple

from .. import common, impl, kgen
from ..kgen import And, Cfg, Choice, If, L, Menu, Not, Program, Rel, S

ID = "C08"
LEVEL = "model_checking"
RULE = (
    "base trees x single-change menu (default literal, default condition, range added, dependency added, option added, option "
    "removed, referenced option added, prompt removed, prompt condition added, choice default changed / moved to a later member, "
    "choice member or choice gated by a dependency / prompt condition, set default source added, referent of a symbol-valued default "
    "changed, symbol-valued default replaced by a literal, default of a `set` / `set default` target changed, no change) x files written "
    "in every configuration reachable by <=2 operations x policies {sdkconfig, kconfig} x every edit sequence of <=2 (quick) / 3 "
    "(thorough) operations after loading; plus, for `no change` and the option-adding changes, load histories on one instance: "
    "first file (new tree, <=1 op; <=2 thorough without a merge) x merge in between {none, one-entry fragment per option of the edit alphabet "
    "(first two, is_main_sdkconfig=False: quick; all, both values of is_main_sdkconfig: thorough), replace=False} x last file "
    "(replacing) x {no edit, every single edit (with a merge: thorough only)}. "
    "Base trees include a chain of symbol-valued defaults in all 6 definition orders + bool/string/hex/float pairs (referring option first / last), and "
    "string/int/hex/float targets of `set` + `set default` (target first / last; quick: 6 of the 8 trees); in the set trees every edit sequence is also run with "
    "an observation before each edit (save; thorough: save or read-all; all combinations for <=2 edits, uniform for 3) against the bare edit sequence on the reference. "
    "states = distinct (tree pair, file, policy, edit history) resp. (tree pair, first file, merge, last file, policy, edit); "
    "distinct_nontrivial = distinct (tree pair, file) in which at least one default-marked entry disagrees with the new tree."
)
ASSUMPTIONS = [
    "T_new' (source-level statement of `keeps the stored value`) is computed by a fixpoint: load f' without markers on T', patch the default of every "
    "visible prompted option whose valid, in-range stored value differs from its value, repeat",
    "mismatch records are compared as the set of option / choice names in DefaultValuesArea.changed_defaults / changed_choices",
    "the merge fragment between two replacing loads is a single unmarked assignment of an option of the new tree; a merge AFTER the last replacing load is not explored "
    "(the property speaks about loading a file the tool wrote, not about what a later merge adds)",
    "saving the configuration or reading values does not change it: the reference of an edit sequence with observations in between is the bare edit sequence",
    "the order in which stored defaults are compared (options an option refers to first) is read off the source tree: depends on, prompt conditions, default values "
    "and conditions, range bounds, enclosing menu / if / choice conditions -- `set` / select / imply sources are NOT counted as references of their target",
    "a stored selection that is invisible when the file is loaded is ignored for good: the reference never re-adopts it when a later edit makes the member visible",
]


def base_trees() -> Iterator[Tuple[str, Program]]:
    yield ("ints", Program(children=[
        Cfg("A", "bool", prompt="a"),
        Cfg("X", "int", prompt="x", defaults=[(L("7"), S("A")), (L("5"), None)]),
        Cfg("Y", "int", prompt="y", defaults=[(S("X"), None)]),
        Cfg("P", "int", defaults=[(L("1"), S("A")), (L("2"), None)]),
        Cfg("H", "string", prompt="h", prompt_cond=S("A"), defaults=[(L('"hd"'), None)]),
    ]))
    yield ("choice", Program(children=[
        Cfg("A", "bool", prompt="a"),
        Choice(prompt="c", defaults=[("M2", S("A"))], children=[Cfg("M1", "bool", prompt="m1"), Cfg("M2", "bool", prompt="m2"), Cfg("M3", "bool", prompt="m3", prompt_cond=S("A"))]),
        Cfg("X", "hex", prompt="x", defaults=[(L("0x10"), S("M2")), (L("0x20"), None)]),
    ]))
    yield gate_tree()
    yield rev_tree()
    yield multidef_tree()
    yield strname_tree()
    yield from symval_trees()
    yield from set_trees()
    yield ("bools", Program(children=[
        Cfg("A", "bool", prompt="a", defaults=[(L("y"), None)]),
        Cfg("X", "bool", prompt="x", defaults=[(L("y"), S("A"))]),
        Menu(title="m", depends=[S("X")], children=[Cfg("Y", "float", prompt="y", defaults=[(L("1.5"), None)]), Cfg("Z", "bool", prompt="z", defaults=[(L("y"), None)])]),
        Cfg("S", "bool", prompt="s", selects=[("X", None)]),
    ]))


def gate_tree() -> Tuple[str, Program]:
    # a choice whose default is its MIDDLE member, every member unconditional, next to a switch (default n) nothing uses yet:
    # the changes gate members / the choice by the switch and move the default to a LATER member, so that `the tree's default`
    # and `the first visible member` are different members when a stored selection has to be ignored
    return ("choice_gate", Program(children=[
        Cfg("G", "bool", prompt="g"),
        Choice(prompt="c", defaults=[("M2", None)], children=[Cfg("M1", "bool", prompt="m1"), Cfg("M2", "bool", prompt="m2"), Cfg("M3", "bool", prompt="m3")]),
        Cfg("X", "int", prompt="x", defaults=[(L("1"), S("M1")), (L("2"), S("M2")), (L("3"), None)]),
    ]))


def multidef_tree() -> Tuple[str, Program]:
    # an option defined twice, each definition under its own dependency (two components describing the same option)
    return ("multidef", Program(children=[
        Cfg("C1", "bool", prompt="c1", defaults=[(L("y"), None)]),
        Cfg("C2", "bool", prompt="c2"),
        Cfg("X", "int", prompt="x one", depends=[S("C1")], defaults=[(L("10"), None)]),
        Cfg("X", "int", prompt="x two", depends=[S("C2")]),
        Cfg("U", "bool", prompt="u", defaults=[(L("y"), Rel("=", S("X"), L("10")))]),
    ]))


def strname_tree() -> Tuple[str, Program]:
    # string options whose stored text spells the NAME of another option / a tristate letter / a number
    return ("strname", Program(children=[
        Cfg("V", "int", prompt="v", defaults=[(L("3"), None)]),
        Cfg("T", "string", prompt="t", defaults=[(L('"V"'), None)]),
        Cfg("U", "string", prompt="u", defaults=[(L('"y"'), None)]),
        Cfg("W", "string", prompt="w", defaults=[(L('"0x10"'), None)]),
        Cfg("F", "bool", prompt="f", defaults=[(L("y"), Rel("=", S("T"), L('"V"')))]),
    ]))


SYMVAL_ORDERS = ["".join(o) for o in itertools.permutations("BDC")]


def symval_trees() -> Iterator[Tuple[str, Program]]:
    # defaults whose VALUE is another option (`default B`), a chain B <- D <- C, in EVERY definition order (= order of the
    # entries in the file): the stored default of an option has to be compared after the options its default value refers to
    defs = {
        "B": lambda: Cfg("B", "int", prompt="b", defaults=[(L("10"), None)]),
        "D": lambda: Cfg("D", "int", prompt="d", defaults=[(S("B"), None)]),
        "C": lambda: Cfg("C", "int", prompt="c", defaults=[(S("D"), None)]),
    }
    for o in SYMVAL_ORDERS:
        yield ("symval_" + o, Program(children=[defs[x]() for x in o]))
    # the same for bool / string / hex / float pairs (referent, option whose default value is the referent), referring options first / last
    pairs = [
        Cfg("BB", "bool", prompt="bb", defaults=[(L("y"), None)]), Cfg("BD", "bool", prompt="bd", defaults=[(S("BB"), None)]),
        Cfg("SB", "string", prompt="sb", defaults=[(L('"sb"'), None)]), Cfg("SD", "string", prompt="sd", defaults=[(S("SB"), None)]),
        Cfg("HB", "hex", prompt="hb", defaults=[(L("0x10"), None)]), Cfg("HD", "hex", prompt="hd", defaults=[(S("HB"), None)]),
        Cfg("FB", "float", prompt="fb", defaults=[(L("1.5"), None)]), Cfg("FD", "float", prompt="fd", defaults=[(S("FB"), None)]),
    ]
    yield ("symval_types_referring_last", Program(children=copy.deepcopy(pairs)))
    yield ("symval_types_referring_first", Program(children=copy.deepcopy(pairs[1::2] + pairs[0::2])))


SET_VALUES = {  # type: (default, value of `set`, value of `set default`, user value, changed default)
    "string": ('"stock"', '"forced"', '"weak"', "mine", '"stock2"'),
    "int": ("1", "2", "3", "4", "5"),
    "hex": ("0x10", "0x20", "0x30", "0x40", "0x50"),
    "float": ("1.5", "2.5", "3.5", "4.5", "5.5"),
}


def set_trees() -> Iterator[Tuple[str, Program]]:
    # an option T of every non-bool type that is the target of `set T=v` of one switch (F) and of `set default T=w` of another
    # (W), target defined before / after the switches
    for typ, (d, v, w, _u, _d2) in SET_VALUES.items():
        t = Cfg("T", typ, prompt="t", defaults=[(L(d), None)])
        f = Cfg("F", "bool", prompt="f", sets=[("T", L(v), None)])
        ws = Cfg("W", "bool", prompt="w", wsets=[("T", L(w), None)])
        yield (f"set_{typ}_target_first", Program(children=copy.deepcopy([t, f, ws])))
        yield (f"set_{typ}_target_last", Program(children=copy.deepcopy([f, ws, t])))


def rev_tree() -> Tuple[str, Program]:
    # options defined BEFORE the options they depend on (their entries precede their dependencies' entries in the file)
    return ("reversed", Program(children=[
        Cfg("W", "int", prompt="w", depends=[S("G")], defaults=[(L("7"), S("T")), (L("5"), None)]),
        Cfg("V", "string", prompt="v", prompt_cond=S("G"), defaults=[(L('"vd"'), None)]),
        Cfg("T", "bool", prompt="t"),
        Cfg("G", "bool", prompt="g", defaults=[(L("y"), None)]),
    ]))


def find(p: Program, name: str) -> Cfg:
    return next(c for c in kgen.configs(p) if c.name == name)


def changes(tree: str, p: Program) -> Iterator[Tuple[str, Program]]:
    yield ("none", copy.deepcopy(p))
    if tree == "ints":
        q = copy.deepcopy(p); find(q, "X").defaults[-1] = (L("6"), None); yield ("default_literal", q)
        q = copy.deepcopy(p); find(q, "X").defaults[0] = (L("7"), Not(S("A"))); yield ("default_condition", q)
        q = copy.deepcopy(p); find(q, "X").ranges.append((L("0"), L("4"), None)); yield ("range_added", q)
        q = copy.deepcopy(p); find(q, "X").ranges.append((L("6"), L("9"), S("A"))); yield ("range_cond_added", q)
        q = copy.deepcopy(p); find(q, "X").depends.append(S("A")); yield ("dependency_added", q)
        q = copy.deepcopy(p); q.children.append(Cfg("NEWOPT", "int", prompt="new", defaults=[(L("3"), None)])); yield ("option_added", q)
        q = copy.deepcopy(p); q.children = [c for c in q.children if c.name != "X"]; find(q, "Y").defaults = [(L("4"), None)]; yield ("option_removed", q)
        q = copy.deepcopy(p); find(q, "X").prompt = None; yield ("prompt_removed", q)
        q = copy.deepcopy(p); find(q, "X").prompt_cond = S("A"); yield ("prompt_condition_added", q)
        q = copy.deepcopy(p); find(q, "P").defaults = [(L("9"), None)]; yield ("promptless_default_changed", q)
        q = copy.deepcopy(p); find(q, "A").wsets.append(("X", L("8"), None)); yield ("set_default_source_added", q)
        q = copy.deepcopy(p); find(q, "H").defaults = [(L('"new hd"'), None)]; yield ("hidden_default_changed", q)
        # an option added that an EXISTING option's default condition refers to (the defaults are what they were while the
        # new option is at its default): files saved under the old tree do not mention it at all
        q = copy.deepcopy(p); q.children.insert(0, Cfg("LV", "int", prompt="lv", defaults=[(L("3"), None)]))
        find(q, "X").defaults = [(L("7"), S("A")), (L("5"), Rel("=", S("LV"), L("3"))), (L("6"), None)]; yield ("referenced_option_added", q)
        # an option removed and re-added under the same name with another type (bool -> int)
        q = copy.deepcopy(p); a = find(q, "A"); a.type = "int"; a.defaults = [(L("0"), None)]; yield ("removed_and_readded_as_int", q)
    elif tree == "reversed":
        q = copy.deepcopy(p); find(q, "G").defaults = [(L("n"), None)]; yield ("upstream_default_changed", q)
        q = copy.deepcopy(p); find(q, "W").defaults = [(L("6"), None)]; yield ("default_literal", q)
        q = copy.deepcopy(p); find(q, "T").defaults = [(L("y"), None)]; yield ("default_condition_source_changed", q)
        q = copy.deepcopy(p); find(q, "G").defaults = [(L("n"), None)]; find(q, "W").defaults = [(L("6"), None)]; yield ("upstream_and_own_default_changed", q)
    elif tree.startswith("symval_types"):
        q = copy.deepcopy(p)
        for n_, v_ in (("BB", "n"), ("SB", '"sb2"'), ("HB", "0x20"), ("FB", "2.5")):
            find(q, n_).defaults = [(L(v_), None)]
        yield ("referent_default_literals", q)
    elif tree.startswith("symval_"):
        q = copy.deepcopy(p); find(q, "B").defaults = [(L("20"), None)]; yield ("referent_default_literal", q)
        q = copy.deepcopy(p); find(q, "D").defaults = [(L("7"), None)]; yield ("symbol_default_replaced_by_literal", q)
    elif tree.startswith("set_"):
        q = copy.deepcopy(p); find(q, "T").defaults = [(L(SET_VALUES[find(p, "T").type][4]), None)]; yield ("target_default_literal", q)
    elif tree == "strname":
        q = copy.deepcopy(p); find(q, "T").defaults = [(L('"other"'), None)]; yield ("default_literal", q)
        q = copy.deepcopy(p); find(q, "U").defaults = [(L('"n"'), None)]; find(q, "W").defaults = [(L('"7"'), None)]; yield ("default_literals_tristate_number", q)
    elif tree == "multidef":
        q = copy.deepcopy(p); find(q, "X").defaults = [(L("20"), None)]; yield ("default_literal", q)
        q = copy.deepcopy(p); find(q, "C1").defaults = [(L("n"), None)]; yield ("upstream_default_changed", q)
    elif tree == "choice":
        q = copy.deepcopy(p); kgen.choices(q)[0].defaults = [("M1", None)]; yield ("choice_default_changed", q)
        q = copy.deepcopy(p); kgen.choices(q)[0].defaults = [("M3", S("A")), ("M2", None)]; yield ("choice_default_to_conditional_member", q)
        q = copy.deepcopy(p); kgen.choices(q)[0].children.pop(1); find(q, "X").defaults = [(L("0x20"), None)]; yield ("member_removed", q)
        q = copy.deepcopy(p); kgen.choices(q)[0].children.append(Cfg("M4", "bool", prompt="m4")); yield ("member_added", q)
        q = copy.deepcopy(p); find(q, "X").defaults[0] = (L("0x11"), S("M2")); yield ("default_literal", q)
        q = copy.deepcopy(p); kgen.choices(q)[0].prompt_cond = S("A"); yield ("choice_prompt_condition_added", q)
        # the stored selection (M2 whenever A = y) is invisible under the new tree exactly where it was stored ...
        q = copy.deepcopy(p); find(q, "M2").depends.append(Not(S("A"))); yield ("member_dependency_added", q)
        # ... while the tree's default is a LATER member than the first visible one
        q = copy.deepcopy(p); find(q, "M2").depends.append(Not(S("A"))); kgen.choices(q)[0].defaults = [("M3", S("A"))]; yield ("member_dependency_added_default_to_later_member", q)
        q = copy.deepcopy(p); find(q, "M2").prompt_cond = Not(S("A")); kgen.choices(q)[0].defaults = [("M3", S("A"))]; yield ("member_prompt_condition_added_default_to_later_member", q)
    elif tree == "choice_gate":
        for how in ("dependency", "prompt_condition"):
            for member in ("M1", "M2"):
                for dflt in ("M2", "M3"):
                    q = copy.deepcopy(p)
                    if how == "dependency":
                        find(q, member).depends.append(S("G"))
                    else:
                        find(q, member).prompt_cond = S("G")
                    kgen.choices(q)[0].defaults = [(dflt, None)]
                    yield (f"member_{member}_{how}_added_default_{dflt}", q)
        q = copy.deepcopy(p); kgen.choices(q)[0].defaults = [("M3", None)]; yield ("choice_default_to_later_member", q)
        q = copy.deepcopy(p); find(q, "M2").depends.append(S("G")); kgen.choices(q)[0].defaults = [("M2", S("G")), ("M3", None)]; yield ("member_dependency_added_conditional_defaults", q)
        q = copy.deepcopy(p); kgen.choices(q)[0].depends.append(S("G")); kgen.choices(q)[0].defaults = [("M3", None)]; yield ("choice_dependency_added_default_to_later_member", q)
    elif tree == "bools":
        q = copy.deepcopy(p); find(q, "X").defaults = [(L("n"), None)]; yield ("default_literal", q)
        q = copy.deepcopy(p); find(q, "A").defaults = [(L("n"), None)]; yield ("upstream_default_changed", q)
        q = copy.deepcopy(p); find(q, "Y").defaults = [(L("2.5"), None)]; yield ("default_literal_in_menu", q)
        q = copy.deepcopy(p); find(q, "Y").ranges.append((L("2.0"), L("9.0"), None)); yield ("range_added", q)
        q = copy.deepcopy(p); find(q, "Z").depends.append(Not(S("A"))); yield ("dependency_added", q)


OPS_REV = [("set", "G", "n"), ("set", "G", "y"), ("set", "T", "y"), ("set", "W", "3"), ("set", "V", "vu"), ("reset", "G"), ("reset", "W")]
OPS = {
    "reversed": OPS_REV,
    "strname": [("set", "V", "8"), ("set", "T", "tu"), ("set", "T", "V"), ("set", "U", "n"), ("reset", "T"), ("reset", "V")],
    "multidef": [("set", "C2", "y"), ("set", "C1", "n"), ("set", "C1", "y"), ("set", "X", "33"), ("set", "U", "n"), ("reset", "X"), ("reset", "C1")],
    "ints": [("set", "A", "y"), ("set", "A", "n"), ("set", "X", "3"), ("set", "Y", "8"), ("set", "H", "hu"), ("reset", "X"), ("reset", "A"), ("unset", "Y")],
    "choice_gate": [("set", "G", "y"), ("set", "G", "n"), ("set", "M1", "y"), ("set", "M3", "y"), ("set", "X", "9"), ("reset", "M1"), ("reset", "G")],
    "choice": [("set", "A", "y"), ("set", "M1", "y"), ("set", "M2", "y"), ("set", "M3", "y"), ("set", "X", "0x33"), ("reset", "M1"), ("reset", "A")],
    "bools": [("set", "A", "n"), ("set", "X", "n"), ("set", "X", "y"), ("set", "Y", "3.5"), ("set", "S", "y"), ("set", "Z", "n"), ("reset", "X"), ("reset", "A")],
}


for _o in SYMVAL_ORDERS:
    OPS["symval_" + _o] = [("set", "B", "30"), ("set", "D", "4"), ("set", "C", "5"), ("reset", "B"), ("reset", "D")]
for _o in ("referring_last", "referring_first"):
    OPS["symval_types_" + _o] = [("set", "BB", "n"), ("set", "SB", "su"), ("set", "HB", "0x30"), ("set", "FB", "3.5"), ("set", "SD", "x"), ("reset", "SB")]
for _t, _v in SET_VALUES.items():
    for _o in ("target_first", "target_last"):
        OPS[f"set_{_t}_{_o}"] = [("set", "F", "y"), ("set", "F", "n"), ("set", "W", "y"), ("set", "W", "n"), ("set", "T", _v[3])]
# set trees of the quick tier (the thorough tier has all of them)
QUICK_SET_TREES = {"set_string_target_first", "set_string_target_last", "set_int_target_first", "set_int_target_last", "set_hex_target_first", "set_float_target_last"}


# operations on options that exist only in the NEW tree of a change (edits after loading, and the configurations the FIRST
# file of a load history is written in)
EXTRA_OPS = {
    ("ints", "referenced_option_added"): [("set", "LV", "4"), ("reset", "LV")],
    ("ints", "option_added"): [("set", "NEWOPT", "8")],
    ("choice", "member_added"): [("set", "M4", "y")],
}
# changes for which load HISTORIES on one instance are explored (besides `none`): the ones that add an option, i.e. the last
# file of the history does not mention an option the earlier files of the history (written under the new tree) do mention
LOAD_HISTORY_CHANGES = {("ints", "referenced_option_added"), ("ints", "option_added"), ("choice", "member_added")}


def items(tier: str, seed: int):
    out = []
    d2 = 2 if tier == "quick" else 3
    for tname, told in base_trees():
        if tier == "quick" and tname.startswith("set_") and tname not in QUICK_SET_TREES:
            continue
        fo = kgen.render(told)
        for cname, tnew in changes(tname, told):
            for policy in ("sdkconfig", "kconfig"):
                out.append({"tree": tname, "change": cname, "old": fo, "new_prog": tnew, "policy": policy, "d1": 2, "d2": d2})
    return out


def observes_between(tree: str, change: str) -> bool:
    """trees in which an option forces / proposes another option's value (`set`, `set default`): the edit sequences are
    explored WITH observations (save / read everything) between the operations"""
    return tree.startswith("set_") or change == "set_default_source_added"


def between_masks(n: int, on: bool, thorough: bool) -> List[tuple]:
    """what the live instance does BEFORE each of the n edits (i.e. after the load and after every edit but the last; the
    final observation follows the last edit anyway): nothing (0), save the configuration (1), read every value (2).
    n <= 2: every combination over {0, 1} (thorough: {0, 1, 2}); n = 3: the uniform ones."""
    if not on or n == 0:
        return [(0,) * n]
    kinds = (0, 1, 2) if thorough else (0, 1)
    if n <= 2:
        return list(itertools.product(kinds, repeat=n))
    return [(k_,) * n for k_ in kinds]


def apply_edits(inst, E, mask) -> None:
    for op, m in zip(E, mask):
        if m == 1:
            inst.config_text()
        elif m == 2:
            inst.values()
        impl.apply_op(inst, op)


def strip_marked(text: str) -> str:
    out = []
    lines = text.splitlines(True)
    i = 0
    while i < len(lines):
        if lines[i].strip() == "# default:":
            i += 2
            continue
        out.append(lines[i])
        i += 1
    return "".join(out)


def marked_entries(text: str) -> List[Tuple[str, str]]:
    res = []
    lines = text.splitlines()
    for i, l in enumerate(lines[:-1]):
        if l.strip() == "# default:":
            m = re.match(r"CONFIG_([A-Za-z0-9_]+)=(.*)", lines[i + 1])
            u = re.match(r"# CONFIG_([A-Za-z0-9_]+) is not set", lines[i + 1])
            if m:
                res.append((m.group(1), m.group(2)))
            elif u:
                res.append((u.group(1), "n"))
    return res


def unmarked_entries(text: str) -> List[Tuple[str, str]]:
    res = []
    prev = ""
    for l in text.splitlines():
        m = re.match(r"CONFIG_([A-Za-z0-9_]+)=(.*)", l)
        u = re.match(r"# CONFIG_([A-Za-z0-9_]+) is not set", l)
        if (m or u) and prev.strip() != "# default:":
            res.append((m.group(1), m.group(2)) if m else (u.group(1), "n"))
        prev = l
    return res


def reachable_files(files_old, ops, depth: int) -> List[Tuple[tuple, str]]:
    seen: Dict[str, tuple] = {}
    for n in range(depth + 1):
        for h in itertools.product(ops, repeat=n):
            inst = impl.replay_ops(files_old, h)
            t = inst.config_text()
            if t not in seen:
                seen[t] = h
    return [(h, t) for t, h in seen.items()]


def unq(v: str) -> str:
    if len(v) >= 2 and v[0] == v[-1] == '"':
        return re.sub(r"\\(.)", r"\1", v[1:-1])
    return v


def patched_tree(tnew: Program, f_unmarked: str, marked: List[Tuple[str, str]]) -> Tuple[Program, set]:
    """T_new' and the set of names with a mismatch (policy sdkconfig).  One option / choice is patched at a time, in
    definition order (the trees define options after the options they depend on), and everything is re-evaluated after
    each patch -- the source-level counterpart of "resolve the options it depends on first"."""
    cur = copy.deepcopy(tnew)
    mism: set = set()
    handled: set = set()
    c = impl.core()
    stored = dict(marked)
    for _ in range(12):
        inst = impl.Inst(kgen.render(cur), policy="kconfig")
        inst.load_text(f_unmarked)
        k = inst.k
        progressed = False
        for s in dependency_order(k, cur):
            name = s.name
            if s.choice is not None:
                ch = s.choice
                key = ("choice", k.unique_choices.index(ch))
                if key in handled:
                    continue
                handled.add(key)
                if ch._user_selection is not None or not ch.visibility:
                    continue
                ys = [m.name for m in ch.syms if stored.get(m.name) == "y" and m.visibility]
                if len(ys) != 1:
                    continue
                sel = ch.selection
                differs = any(m.name in stored and m.str_value != stored[m.name] for m in ch.syms)
                if not differs:
                    continue
                mism.add(ch.name or "<choice>")
                kgen.choices(cur)[key[1]].defaults = [(ys[0], None)]
                progressed = True
                break
            if name not in stored or name in handled:
                continue
            handled.add(name)
            raw = stored[name]
            if all(n.prompt is None for n in s.nodes):
                continue
            if raw == "n" and s.orig_type != c.BOOL:
                continue  # `# CONFIG_X is not set` says nothing about a non-bool option
            if s._user_value is not None or not s.visibility:
                continue
            v = unq(raw) if s.orig_type == c.STRING else raw
            if s.str_value == v:
                continue
            mism.add(name)
            if not s.value_is_valid(c.STR_TO_BOOL[v] if (s.orig_type == c.BOOL and v in ("y", "n")) else v):
                continue
            # every definition gets it, each under its own dependencies: the option keeps the stored value wherever it is available
            for x in kgen.configs(cur):
                if x.name == name:
                    x.defaults = [(L(raw if s.orig_type != c.BOOL else v), None)]
            progressed = True
            break
        if not progressed:
            break
    return cur, mism


def ast_refs(p: Program) -> Dict[str, set]:
    """option name -> names of the options its definitions refer to: dependencies (own and inherited from enclosing menus /
    ifs / choices), prompt conditions, default VALUES and conditions, range bounds and conditions -- read off the source
    tree, independently of the library's own bookkeeping"""
    out: Dict[str, set] = {}

    def syms(*es) -> set:
        res: set = set()
        for e in es:
            res.update(kgen.expr_syms(e))
        return res

    def rec(children, inh: set) -> None:
        for n in children:
            kind = getattr(n, "kind", None)
            if kind == "cfg":
                refs = set(inh) | syms(*n.depends, n.prompt_cond)
                for v, cnd in n.defaults:
                    refs |= syms(v, cnd)
                for lo, hi, cnd in n.ranges:
                    refs |= syms(lo, hi, cnd)
                out.setdefault(n.name, set()).update(refs - {n.name})
            elif kind == "choice":
                rec(n.children, inh | syms(*n.depends, n.prompt_cond, *[cnd for _m, cnd in n.defaults]))
            elif kind == "menu":
                rec(n.children, inh | syms(*n.depends, *n.visible_if))
            elif kind == "if":
                rec(n.children, inh | syms(n.cond))
            elif kind == "source" and n.children is not None:
                rec(n.children, inh)

    rec(p.children, set())
    return out


def dependency_order(k, prog: Optional[Program] = None) -> list:
    """defined symbols, those an option depends on first (ties in definition order) -- from the references in the tree
    (the source tree `prog` when given, united with the library's view of it)"""
    c = impl.core()
    syms = list(k.unique_defined_syms)
    pos = {s: i for i, s in enumerate(syms)}
    refs = ast_refs(prog) if prog is not None else {}
    deps = {}
    for s in syms:
        d = {k.syms[n_] for n_ in refs.get(s.name, ()) if n_ in k.syms and k.syms[n_] in pos}
        for x in s.dependencies:
            if isinstance(x, c.Choice):
                d.update(m for m in x.syms if m is not s)
            elif x in pos:
                d.add(x)
        if s.choice is not None:
            for x in s.choice.dependencies:
                if isinstance(x, c.Symbol) and x in pos and x.choice is not s.choice:
                    d.add(x)
        deps[s] = d
    out, done, visiting = [], set(), set()

    def visit(s):
        if s in done or s in visiting:
            return
        visiting.add(s)
        for x in sorted(deps[s], key=lambda y: pos[y]):
            visit(x)
        visiting.discard(s)
        done.add(s)
        out.append(s)

    for s in syms:
        visit(s)
    return out


def run_item(item) -> common.Result:
    r = common.Result()
    r.programs = 1
    tree, change, policy = item["tree"], item["change"], item["policy"]
    fo = item["old"]
    tnew = item["new_prog"]
    fn = kgen.render(tnew)
    ops = OPS[tree]
    new_names = {c.name for c in kgen.configs(tnew)}
    eops = [o for o in ops if o[1] in new_names] + EXTRA_OPS.get((tree, change), [])
    files = reachable_files(fo, ops, item["d1"])
    refs: Dict[str, tuple] = {}
    label0 = f"[{tree}/{change} policy={policy}]"
    between = observes_between(tree, change)
    for h0, f in files:
        fprime = strip_marked(f)
        marked = marked_entries(f)
        case0 = {"tree": tree, "change": change, "policy": policy, "old": fo, "new": fn, "saved_after": [list(o) for o in h0], "file": f, "d2": item["d2"]}
        # reference side
        if policy == "kconfig" or change == "none":
            ref_files = fn
            ref_policy = "kconfig"
            _, exp_mism = patched_tree(tnew, fprime, marked) if policy == "sdkconfig" else (None, None)
        else:
            tprime, exp_mism = patched_tree(tnew, fprime, marked)
            ref_files = kgen.render(tprime)
            ref_policy = "kconfig"
        if policy == "kconfig":
            exp_mism = kconfig_mismatches(fn, fprime, marked)
        nontrivial = bool(exp_mism)
        refs[f] = (ref_files, ref_policy)
        for n in range(item["d2"] + 1):
            for E, mask in itertools.product(itertools.product(eops, repeat=n), between_masks(n, between, item["d2"] > 2)):
                r.states += 1
                r.transitions += max(1, n)
                r.evals += 1
                case = dict(case0, edits=[list(o) for o in E], observed_before_edit=list(mask))
                obs_note = f" (before each edit: {['-', 'save', 'read all'][max(mask)] if len(set(mask)) == 1 else [['-', 'save', 'read all'][m_] for m_ in mask]})" if any(mask) else ""
                try:
                    a = impl.Inst(fn, policy=policy)
                    a.load_text(f)
                    rec = record_names(a.k)
                    user_after_load = {s.name: s._user_value for s in a.k.unique_defined_syms}
                    apply_edits(a, E, mask)
                    oa = (a.values(), {s.name: s.visibility for s in a.k.unique_defined_syms}, a.config_text())
                except Exception as e:  # noqa: BLE001
                    r.violation({"kind": "exception", "exc": type(e).__name__, "site": site_of(e), "change": change, "policy": policy}, f"{label0} file after {h0}, edits {E}{obs_note}: raised {type(e).__name__}: {e}", case)
                    continue
                b = impl.Inst(ref_files, policy=ref_policy)
                b.load_text(fprime)
                for op in E:
                    impl.apply_op(b, op)
                ob = (b.values(), {s.name: s.visibility for s in b.k.unique_defined_syms}, b.config_text())
                if oa[0] != ob[0] or oa[1] != ob[1]:
                    diff = {k_: (oa[0][k_], ob[0].get(k_)) for k_ in oa[0] if oa[0][k_] != ob[0].get(k_)}
                    r.violation({"kind": "marked_entries_pin_or_lose_values", "change": change, "policy": policy, "after_edits": n > 0, "types": sorted({impl.core().TYPE_TO_STR[a.k.syms[k_].orig_type] for k_ in diff}), **({"observed_between": True} if any(mask) else {})},
                                f"{label0} file saved after {h0}, edits {E}{obs_note}: loading the file gives {diff} (left) vs the reference without marked entries (right)", case)
                elif oa[2] != ob[2]:
                    r.violation({"kind": "written_text_differs", "change": change, "policy": policy, "after_edits": n > 0, **({"observed_between": True} if any(mask) else {})},
                                f"{label0} file saved after {h0}, edits {E}{obs_note}: same values but different sdkconfig text: {line_diff(oa[2], ob[2])}", case)
                if n == 0:
                    # unmarked entries are user values
                    for name, raw in unmarked_entries(f):
                        s = a.k.syms.get(name)
                        if s is None or not s.nodes:
                            continue
                        if all(nd.prompt is None for nd in s.nodes):
                            continue
                        cc = impl.core()
                        vv = unq(raw) if s.orig_type == cc.STRING else raw
                        if s.orig_type == cc.BOOL:
                            if vv not in ("y", "n"):
                                continue
                        elif raw == "n" or not s.value_is_valid(vv) or (s.orig_type == cc.STRING and not (raw.startswith('"') and raw.endswith('"'))):
                            continue  # not a valid value for the option's (new) type: legitimately ignored
                        if user_after_load.get(name) is None:
                            r.violation({"kind": "unmarked_entry_not_a_user_value", "change": change, "policy": policy}, f"{label0} file after {h0}: unmarked entry {name}={raw} is not a user value after load", case)
                    if change == "none":
                        # ... and the converse: an option that is a user value after loading the file had an EFFECTIVE user
                        # value (set and visible) in the configuration that wrote it -- an inferred value stays inferred
                        src = impl.replay_ops(fo, h0)
                        for s_ in src.k.unique_defined_syms:
                            if s_.choice is not None or not s_.nodes:
                                continue
                            effective = s_._user_value is not None and bool(s_.visibility)
                            if user_after_load.get(s_.name) is not None and not effective:
                                r.violation({"kind": "inferred_value_became_user_value", "policy": policy, "hidden": not s_.visibility, "type": impl.core().TYPE_TO_STR[s_.orig_type]},
                                            f"{label0} file after {h0}: {s_.name} = {s_.str_value!r} was inferred when the file was written (user value {s_._user_value!r}, visible {bool(s_.visibility)}) but is a user value after loading it", case)
                    if rec != exp_mism:
                        r.violation({"kind": "mismatch_records", "change": change, "policy": policy, "missing": sorted(exp_mism - rec) != [], "extra": sorted(rec - exp_mism) != []},
                                    f"{label0} file after {h0}: mismatch records {sorted(rec)}, expected {sorted(exp_mism)}", case)
        if nontrivial:
            r.outcome((tree, change, f))
    if change == "none" or (tree, change) in LOAD_HISTORY_CHANGES:
        replacing_loads(item, files, refs, eops, r, label0)
    r.sample = {"tree": tree, "change": change, "policy": policy, "new_tree": fn["Kconfig"], "files": len(files), "example_file": files[-1][1]}
    return r


def merge_files(eops, types: Dict[str, str], thorough: bool) -> List[Tuple[Optional[str], Dict[str, Any]]]:
    """what may be loaded BETWEEN two replacing loads: nothing, or a hand-written one-entry file (an unmarked assignment, as
    in an sdkconfig.defaults fragment) merged with replace=False -- one file per option the edit alphabet sets (its first
    value); quick: the first two options, is_main_sdkconfig=False; thorough: all of them, and is_main_sdkconfig True too"""
    out: List[Tuple[Optional[str], Dict[str, Any]]] = [(None, {})]
    seen = []
    for o in eops:
        if o[0] != "set" or o[1] in seen:
            continue
        seen.append(o[1])
        name, v = o[1], o[2]
        if v == "n":
            text = f"# CONFIG_{name} is not set\n"
        elif types[name] != "string":
            text = f"CONFIG_{name}={v}\n"
        else:
            text = f'CONFIG_{name}="{v}"\n'
        out.append((text, {"is_main_sdkconfig": False}))
        if thorough:
            out.append((text, {"is_main_sdkconfig": True}))
    return out if thorough else out[:3]


def replacing_loads(item, files, refs, eops, r: common.Result, label0: str) -> None:
    """one instance (new tree) loading several files in a row, the LAST load replacing (replace=True, main sdkconfig):
         load(g); [merge(m, replace=False, is_main_sdkconfig=False -- thorough: also True)]; load(f); E
    g: a file written by the tool under the NEW tree (<=1 operation; <=2 in the thorough tier when nothing is merged in
    between), m: see merge_files(), f: every
    file of the item (written under the OLD tree).  The last load must give what the item's reference gives for f alone --
    a FRESH instance (of T_new resp. T_new') that loaded only f without its default-marked entries: nothing of the earlier
    files survives (no value, no baseline a default-marked entry or a default that refers to the option is compared with),
    and the marked entries of the last file pin nothing -- right after the load and after every single further edit (with
    a merge in between: right after the load, quick / every single edit, thorough).  The mismatch records of the last load
    are those of loading f alone into a fresh instance under the same policy."""
    fn = kgen.render(item["new_prog"])
    policy = item["policy"]
    tree, change = item["tree"], item["change"]
    thorough = item["d2"] > 2
    d_first = 2 if thorough else 1
    if change == "none":
        firsts = [(h, t) for h, t in files if len(h) <= d_first]
    else:
        firsts = reachable_files(fn, eops, d_first)
    merges = merge_files(eops, {c.name: c.type for c in kgen.configs(item["new_prog"])}, thorough)
    single_recs: Dict[str, set] = {}
    for (hg, g), (mtext, mkw), (hf, f) in itertools.product(firsts, merges, files):
        if g == f or (mtext is not None and len(hg) > 1):
            continue
        fprime = strip_marked(f)
        ref_files, ref_policy = refs[f]
        if f not in single_recs:
            s0 = impl.Inst(fn, policy=policy)
            s0.load_text(f)
            single_recs[f] = record_names(s0.k)
        edits = [()] + ([(o,) for o in eops] if (mtext is None or thorough) else [])
        for E in edits:
            r.states += 1
            r.transitions += 1 + len(E) + (mtext is not None)
            r.evals += 1
            case = {"tree": tree, "change": change, "policy": policy, "old": item["old"], "new": fn, "saved_after": [list(o) for o in hf], "file": f,
                    "first_file": g, "first_saved_after": [list(o) for o in hg], "merge_file": mtext, "merge_kw": mkw, "edits": [list(o) for o in E], "d2": item["d2"]}
            hist = f"{label0} load(file saved after {hg})" + (f"; merge({mtext.strip()!r}, replace=False, {mkw})" if mtext is not None else "") + f"; load(file saved after {hf}); edits {E}"
            sigx = {"change": change, "policy": policy, "merge_between": mtext is not None, **({"merge_main": mkw["is_main_sdkconfig"]} if mtext is not None else {})}
            try:
                a = impl.Inst(fn, policy=policy)
                a.load_text(g)
                if mtext is not None:
                    a.load_text(mtext, replace=False, **mkw)
                a.load_text(f)
                rec = record_names(a.k)
                for op in E:
                    impl.apply_op(a, op)
                oa = (a.values(), {s.name: s.visibility for s in a.k.unique_defined_syms}, a.config_text())
            except Exception as e:  # noqa: BLE001
                r.violation({"kind": "exception", "exc": type(e).__name__, "site": site_of(e), "second_load": True, **sigx}, f"{hist}: raised {type(e).__name__}: {e}", case)
                continue
            b = impl.Inst(ref_files, policy=ref_policy)
            b.load_text(fprime)
            for op in E:
                impl.apply_op(b, op)
            ob = (b.values(), {s.name: s.visibility for s in b.k.unique_defined_syms}, b.config_text())
            if oa != ob:
                diff = {k_: (oa[0][k_], ob[0].get(k_)) for k_ in oa[0] if oa[0][k_] != ob[0].get(k_)}
                r.violation({"kind": "second_load_differs_from_fresh_load", "after_edits": bool(E), "values_differ": bool(diff), **sigx},
                            f"{hist}: {diff or line_diff(oa[2], ob[2])} (left) vs loading the last file without marked entries into a fresh instance (right)", case)
            if not E and rec != single_recs[f]:
                r.violation({"kind": "second_load_mismatch_records_differ_from_fresh_load", "missing": sorted(single_recs[f] - rec) != [], "extra": sorted(rec - single_recs[f]) != [], **sigx},
                            f"{hist}: mismatch records of the last load {sorted(rec)}, loading the last file alone into a fresh instance gives {sorted(single_recs[f])}", case)


def kconfig_mismatches(fn, fprime: str, marked) -> set:
    inst = impl.Inst(fn, policy="kconfig")
    inst.load_text(fprime)
    k = inst.k
    c = impl.core()
    out = set()
    # choices: stored default selection vs. the tree's
    for ch in k.unique_choices:
        stored_y = [n for n, v in marked if v == "y" and n in k.syms and k.syms[n].choice is ch and k.syms[n].visibility]
        if ch._user_selection is None and ch.visibility and len(stored_y) == 1:
            sel = ch.selection
            if sel is not None and sel.name != stored_y[0]:
                out.add(ch.name or "<choice>")
    for name, raw in marked:
        s = k.syms.get(name)
        if s is None or not s.nodes or s.choice is not None or all(n.prompt is None for n in s.nodes):
            continue
        if s._user_value is not None or not s.visibility:
            continue
        if raw == "n" and s.orig_type != c.BOOL:
            continue
        v = unq(raw) if s.orig_type == c.STRING else raw
        if s.str_value != v:
            out.add(name)
    return out


def record_names(k) -> set:
    dv = impl.dv_area(k)
    out = {t[0] for t in dv.changed_defaults}
    for t in dv.changed_choices:
        out.add(t[0] if not t[0].startswith("nameless") else "<choice>")
    return out


def site_of(e) -> str:
    import os
    import traceback

    tb = traceback.extract_tb(e.__traceback__)
    return next((f"{os.path.basename(fr.filename)}:{fr.name}" for fr in reversed(tb) if "/mck/" not in fr.filename), "?")


def line_diff(a: str, b: str) -> str:
    import difflib

    d = [l for l in difflib.unified_diff(a.splitlines(), b.splitlines(), lineterm="", n=0) if not l.startswith(("---", "+++", "@@"))]
    return " | ".join(d)[:300]


def replay(case) -> List[dict]:
    # re-run the whole (tree, change, policy) item restricted to the recorded file and edits
    for tname, told in base_trees():
        if tname != case["tree"]:
            continue
        for cname, tnew in changes(tname, told):
            if cname != case["change"]:
                continue
            item = {"tree": tname, "change": cname, "old": case["old"], "new_prog": tnew, "policy": case["policy"], "d1": 2, "d2": case["d2"]}
            r = run_item(item)
            keys = ("file", "edits", "observed_before_edit", "first_file", "merge_file", "merge_kw")
            return [v for v in r.viols if all(v["case"].get(k_) == case.get(k_) for k_ in keys)] or r.viols
    raise SystemExit("replay: tree/change not found")

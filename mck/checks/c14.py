"""C14 -- the config server's incremental replies keep a client exactly in sync.

Explicit-state BFS over request histories against the REAL `kconfserver.core.run_server` (mck/server.py: in-process, a
fresh server per explored history, replayed from the start).  A model client folds every reply into
{values, ranges, visible, defaults} exactly as docs/en/kconfserver/index.rst prescribes.  After every request:

  L  = what the live server would announce now (its own get_json_values/get_ranges/get_visible/defaults functions on the
       captured Kconfig of this history)
  M  = initial message of a FRESH server started on the file a `save` appended to a twin of the history writes

  (a) client vs L  -> kind "client_out_of_sync"   (the diff protocol lost something)
  (b) L vs M       -> kind "restart_differs"      (what the client sees is not what save writes)
  (c) L vs L recomputed after Kconfig._invalidate_all() -> kind "stale_server_state" (a request left memoised values behind)
  (d) after a request whose only effective key is a successful `load` (alone or followed by `save`): L vs the initial
      message of a FRESH server started on the content the loaded file had when it was loaded -> kind
      "load_differs_from_fresh" (something an earlier set / reset / load left behind -- a choice's user selection, a user
      value, the replaced file's baselines -- survived the replacing load; (a)-(c) cannot see this because the server,
      the client and the file `save` writes all agree on the leftover).  "The same configuration" after a load IS the
      loaded file.
  together they imply the statement's client-vs-M equality; separating them names the mechanism.
Rule for both: equal on every key of the right-hand side; a key only the left-hand side holds must be invisible in both.
Protocol 1 (no visibility channel) is compared on options visible in the reference, `defaults` only in protocol 3.
Tree dimension "hidden through the prompt": trees phide / phidden hold one option of EVERY value type (bool, int, hex, string,
float, float with a range) whose PROMPT is conditional (`<type> "p" if ADV`, not `depends on`), each with a default, so
the option stays in the configuration (and in the saved file) while hidden; the alphabet sets each to a non-default value,
hides / shows them (alone, in one request with the edits, together with `save`), resets, saves and loads files that carry
values for them while hiding them.  A user value given while shown must not count while hidden (client, live server and
saved file agree on the default) and counts again when shown.  trees() asserts that every value type has such an option.
Tree dimension "titles that read like the saved file's own marker lines": write_config() renders a menu / comment header as
`#`, `# <title>`, `#`.  Trees pragma / pragmasaved hold menus and comments titled exactly `default:` (the pragma "the next
assignment is a default value") in front of options of type int / string / bool and of a choice member that get user
values (one is also the target of an enabled `set default`, so a user value read back as a default changes the value, not
only the protocol-3 flag); tree markers holds the neighbours: titles equal to the begin / end marker of the deprecated
options block and titles of the form `CONFIG_<NAME> is not set`.  Sigs of these single-construct trees carry `construct`.
History dimension "failed loads / saves, then null": tree paths has loads of a missing file / a directory / a path under
a regular file and saves to a path whose directory is missing / is a regular file (alone, with a `set` in the same request),
followed by edits, {"save": null} and {"load": null}.  The current file (what null means, the file oracle (b') starts the fresh
server on, the file oracle (d) takes the loaded content from) is computed by last_file() from the run directory's files --
NOT from the reply's error texts: a failed load / save does not change it.  A successful save whose target does not exist
afterwards is kind "saved_file_missing".
File dimension "written by the tools, then edited by appending" (trees appended:<c>:<option>:<value>, appended_trees()): the start-up
file AND the hand-written file a `load` names are the file the real server saves for a configuration c (all defaults; each
single option of every value type user-set) PLUS one appended assignment line re-assigning one option (every option, every
value of its alphabet, `# CONFIG_B is not set` for bool n) -- `echo CONFIG_X=7 >> sdkconfig`.  The alphabet edits that option,
undoes the appended line (set back to c's value / reset) alone and together with `save`, loads the other appended file and
undoes its line, saves / loads null: the file the save must produce is then a strict PREFIX of the file on disk, and oracle
(b') (a fresh server on the file the request saved == live state) decides.  Sigs carry `construct`.
Only mismatches that the LAST request introduced are reported (those already present after the prefix were reported
when the prefix was visited), so `op` in the signature is the triggering request class.
"""

from __future__ import annotations

import json
import os
from typing import Any, Dict, List, Optional, Tuple

from .. import common, explore, kgen, server
from ..kgen import Cfg, Choice, Comment, If, L, Menu, Not, Program, S

ID = "C14"
LEVEL = "model_checking"
RULE = (
    "explicit-state BFS per (tree, server default protocol, client protocol, first request) over the tree's request "
    "alphabet (set single / child-before-parent pairs / unknown / invisible / wrong-typed; reset symbol / menu id / all / "
    "unknown; load null / snapshot / hand-written file / untouched copy of the start-up file (discarding every edit) / "
    "hand-written file + save null; save null / other file) to depth 3 (quick) / 4 (thorough); trees include choices with "
    "a non-default member selectable by set, by the start-up file and by the hand-written file (default-marked and plain "
    "start-up files), reset by symbol / menu id / all; an option of every value type (bool, int, hex, string, float, ranged "
    "float) hidden through its prompt condition while it holds a user value, in set / hide / save / show / load interleavings, "
    "from an all-default start and from a start-up file that gives the hidden options values; menus / comments whose "
    "title reads like a marker line of the saved file (`default:` pragma, begin / end of the deprecated block, `CONFIG_X is "
    "not set`) in front of options that get user values (trees pragma, pragmasaved, markers); failed loads (missing file, "
    "directory, path under a regular file) and failed saves (missing directory, path under a regular file), alone or with a "
    "`set`, followed by edits and null-path saves / loads (tree paths); these four small trees run to depth 3 (quick) in "
    "every protocol pair; start-up and loaded files that are the tool-written file of a configuration (all defaults / one option "
    "of each value type user-set) plus ONE appended line re-assigning one option (every configuration x option x value), with "
    "requests that edit the option, undo the appended line (alone, with save, after loading the other such file) and save / "
    "load null (trees appended:*, depth 2 in protocol (3,3) quick, depth 3 in every protocol pair thorough); a fresh "
    "real server per history; states merged on (server configuration incl. user values, client model, files on disk, "
    "last-used file); sub-trees whose depth-1 state equals the initial state or that of an earlier first request are "
    "explored there. `states` is the sum of per-sub-tree distinct states. distinct_nontrivial = distinct (tree, protocols, "
    "server configuration, client model) reached by a reply that carried a non-empty difference or an error."
)
ASSUMPTIONS = [
    "a client speaks one protocol version per session; (server default version, request version) pairs explored: (3,3) to "
    "depth 3/4, (3,1) to depth 2/4, (3,2) (2,2) (1,1) to depth 2/3 (quick/thorough); with differing versions the channels both "
    "sides know (min of the two) are compared",
    "the reference state of a restarted server is taken from a fresh protocol-3 server (superset of the channels)",
    "requests that make the server raise (C15's subject, e.g. a JSON float for a hex option) are not in the alphabet; "
    "a server death is nevertheless reported as kind server_died",
    "oracle (d) is applied only to requests without `set` / `reset` whose reply has no error (a failed load changes nothing; "
    "with set / reset in the same request the configuration is no longer the loaded file's); the loaded content is taken "
    "from the files the prefix history left on disk, the file a null load uses follows the server's documented rule (a "
    "named load / save becomes current unless it failed)",
    "whether a load / save failed is derived from the files of the run directory (a load needs an existing regular file "
    "directly in the directory, a save a target directly in the directory), not from the reply; directories are never "
    "save targets (write_config() renames whatever is at the target to <name>.old, so such a save succeeds); a request "
    "combining a failing load with a save is not generated (the documentation does not say which file null then means); "
    "permission-denied targets are not generated (the checks run as root)",
    "prompt-hidden options: one switch hides all types at once (the evaluator's per-type branches are independent; what is "
    "varied is the type, the request interleaving and where the value came from -- request, start-up file, loaded file)",
    "appended-line files: exactly one appended line, a plain assignment of an option that is not a choice member (two `=y` "
    "members of one choice in a file is C02's subject); quick: bool / int / hex / string with two values each, thorough adds "
    "float, an option behind a dependency and a third value; the tool-written prefix is what the server under test saves",
    "menu ids are obtained by running with cwd = tree directory and --kconfig Kconfig, as the repository's tests do",
]

SNAP = "$D/snap"
HAND = "$D/hand"
ORIG = "$D/orig"  # a copy of the file the server was started on (never written by the explored requests)
MISSING = "$D/missing"  # never exists (no explored request names it as a save target)
ADIR = "$D/adir"  # an existing directory: cannot be loaded (never a save target: write_config() moves whatever is there to <name>.old)
NODIR = "$D/nodir/x"  # the parent directory does not exist: cannot be saved to
NOTDIR = "$D/hand/x"  # the parent is a regular file: cannot be saved to, cannot be loaded


def aux_of(hand: str, sdk0: str) -> Dict[str, Any]:
    """auxiliary files of every explored run directory (next to the Kconfig tree and `sdkconfig`)"""
    return {"hand": hand, "orig": sdk0, "adir": None}


REGULAR0 = ("sdkconfig", "hand", "orig")  # regular files every run starts with
DIRS0 = ("adir",)


# --------------------------------------------------------------------------------------------------
# trees and alphabets
# --------------------------------------------------------------------------------------------------


def b(name: str, default: Optional[str] = None, **kw) -> Cfg:
    c = Cfg(name, "bool", prompt=name.lower(), **kw)
    if default:
        c.defaults.append((L(default), None))
    return c


def _set(**kv) -> dict:
    return {"set": dict(kv)}


def _setp(*pairs) -> dict:
    return {"set": dict(pairs)}


COMMON_TAIL = [
    {"set": {"NOPE": 1}},
    {"reset": ["all"]},
    {"reset": ["NOPE", "no-such-menu-1"]},
    {"load": None},
    {"load": SNAP},
    {"load": HAND},
    {"load": ORIG},
    {"save": None},
    {"save": SNAP},
    # several keys in one request: load, then set, then reset, then save
    {"reset": ["all"], "save": None},
]


def trees(tier: str = "thorough") -> Dict[str, dict]:
    T: Dict[str, dict] = {}

    with open(os.path.join(common.REPO_ROOT, "test", "kconfserver", "Kconfig")) as f:
        repo_text = f.read()
    with open(os.path.join(common.REPO_ROOT, "test", "kconfserver", "sdkconfig")) as f:
        repo_sdk = f.read()
    T["repo"] = {
        "files": {"Kconfig": repo_text},
        "sdk0": repo_sdk,
        "hand": 'CONFIG_TEST_BOOL=y\nCONFIG_TEST_CHILD_STR="hand"\n# CONFIG_SUBMENU_TRIGGER is not set\nCONFIG_UNKNOWN_THING=y\n# default:\nCONFIG_SUBMENU_ITEM_A=5\n',
        "alphabet": [
            _set(TEST_BOOL=True),
            _set(TEST_BOOL=False),
            _setp(("TEST_CHILD_STR", "v"), ("TEST_BOOL", True)),
            _set(TEST_CHILD_BOOL=False),
            _set(CHOICE_B=True),
            _set(TEST_CONDITIONAL_RANGES=50),
            _set(TEST_CONDITIONAL_HEX_RANGES="5"),
            _setp(("TEST_FLOAT", 2.0), ("TEST_FLOAT_ENABLE", True)),
            _set(SUBMENU_TRIGGER=False),
            _set(SUBMENU_CONFIG=False),
            _set(TEST_BOOL="false"),
            _set(SUBMENU_ITEM_A="abc"),
            {"reset": ["TEST_BOOL"]},
            {"reset": ["@MENU1"]},
        ]
        + COMMON_TAIL,
    }

    # conditional ranges: one without fallback (retraction needed), one with a fallback range, hex and float
    T["condrange"] = {
        "files": kgen.render(
            Program(
                children=[
                    b("A"),
                    Cfg("X", "int", prompt="x", ranges=[(L("0"), L("10"), S("A"))], defaults=[(L("3"), None)]),
                    Cfg("Y", "int", prompt="y", ranges=[(L("1"), L("5"), S("A")), (L("0"), L("100"), None)], defaults=[(L("50"), None)]),
                    Cfg("H", "hex", prompt="h", ranges=[(L("0x10"), L("0x20"), Not(S("A")))], defaults=[(L("0x18"), None)]),
                    Cfg("F", "float", prompt="f", depends=[S("A")], ranges=[(L("0.5"), L("2.5"), None)], defaults=[(L("1.0"), None)]),
                ]
            )
        ),
        "sdk0": "",
        "hand": "CONFIG_A=y\nCONFIG_X=7\nCONFIG_Y=99\n",
        "alphabet": [
            _set(A=True),
            _set(A=False),
            _set(X=20),
            _set(Y=3),
            _set(H=64),
            _set(H="zz"),
            _setp(("F", 2.0), ("A", True)),
            _set(F=9.5),
            _set(X=True),
            {"reset": ["A"]},
            {"reset": ["X", "Y"]},
        ]
        + COMMON_TAIL,
    }

    # menus that empty out (dependencies / visible if), nested menu, comment, menuconfig
    T["menus"] = {
        "files": kgen.render(
            Program(
                children=[
                    b("A", "y"),
                    b("V", "y"),
                    Menu(
                        title="Outer",
                        children=[
                            Cfg("P", "int", prompt="p", depends=[S("A")], defaults=[(L("7"), None)]),
                            Menu(title="Inner", depends=[S("A")], children=[b("Q"), Comment("note", depends=[S("Q")])]),
                        ],
                    ),
                    Menu(title="Vis", visible_if=[S("V")], children=[Cfg("R", "string", prompt="r", defaults=[(L('"r0"'), None)])]),
                    Cfg("MC", "bool", prompt="mc", menuconfig=True, defaults=[(L("y"), None)]),
                    Cfg("MCI", "int", prompt="mci", depends=[S("MC")], defaults=[(L("1"), None)]),
                ]
            )
        ),
        "sdk0": "CONFIG_Q=y\n",
        "hand": '# CONFIG_A is not set\nCONFIG_R="hand"\nCONFIG_P=9\n',
        "alphabet": [
            _set(A=False),
            _set(A=True),
            _set(V=False),
            _set(V=True),
            _setp(("P", 8), ("A", True)),
            _set(Q=True),
            _set(R="r1"),
            _set(MC=False),
            _setp(("MCI", 5), ("MC", True)),
            _set(P="x"),
            {"reset": ["A"]},
            {"reset": ["@MENU0"]},
            {"reset": ["@MENU2"]},
        ]
        + COMMON_TAIL,
    }

    # choices: member with a dependency, choice with a conditional prompt, value depending on the selection
    T["choice"] = {
        "files": kgen.render(
            Program(
                children=[
                    b("E"),
                    b("G", "y"),
                    Choice(
                        name="CH",
                        prompt="ch",
                        defaults=[("CB", S("E"))],
                        children=[b("CA"), b("CB"), b("CC", depends=[S("E")])],
                    ),
                    Cfg("D", "string", prompt="d", defaults=[(L('"a"'), S("CA")), (L('"b"'), S("CB")), (L('"c"'), None)]),
                    Choice(prompt="gated", prompt_cond=S("G"), children=[b("GA"), b("GB")]),
                    Cfg("N", "int", prompt="n", depends=[S("GB")], defaults=[(L("4"), None)]),
                ]
            )
        ),
        "sdk0": "",
        "hand": "CONFIG_E=y\n# CONFIG_CA is not set\n# CONFIG_CB is not set\nCONFIG_CC=y\n",
        "alphabet": [
            _set(E=True),
            _set(E=False),
            _set(CB=True),
            _set(CA=True),
            _setp(("CC", True), ("E", True)),
            _set(CA=False),
            _set(G=False),
            _set(GB=True),
            _setp(("N", 6), ("GB", True)),
            _set(D="mine"),
            _set(CB=1),
            {"reset": ["CB"]},
            {"reset": ["E", "D"]},
        ]
        + COMMON_TAIL,
    }

    # set / set default / select / imply sources
    s1 = b("S1")
    s1.sets.append(("X", L("7"), None))
    w1 = b("W1")
    w1.wsets.append(("X", L("4"), None))
    sel = b("SEL")
    sel.selects.append(("T", None))
    imp = b("IMP")
    imp.implies.append(("U", None))
    T["sets"] = {
        "files": kgen.render(
            Program(
                children=[
                    s1,
                    w1,
                    sel,
                    imp,
                    Cfg("X", "int", prompt="x", ranges=[(L("0"), L("9"), None)], defaults=[(L("3"), None)]),
                    b("T"),
                    b("U"),
                    Cfg("Z", "string", prompt="z", depends=[S("T")], defaults=[(L('"z"'), None)]),
                ]
            )
        ),
        "sdk0": "",
        "hand": "CONFIG_S1=y\nCONFIG_X=5\nCONFIG_T=y\n",
        "alphabet": [
            _set(S1=True),
            _set(S1=False),
            _set(W1=True),
            _set(X=5),
            _set(SEL=True),
            _set(SEL=False),
            _set(T=False),
            _set(IMP=True),
            _set(U=False),
            _setp(("Z", "zz"), ("SEL", True)),
            _set(X=[1]),
            {"reset": ["X"]},
            {"reset": ["S1", "SEL"]},
        ]
        + COMMON_TAIL,
    }

    # a symbol defined twice (prompt only in one place, under different conditions), prompt conditions with defaults
    T["twice"] = {
        "files": kgen.render(
            Program(
                children=[
                    b("C"),
                    b("D"),
                    Cfg("X", "int", prompt="x", prompt_cond=S("C"), defaults=[(L("1"), S("C"))]),
                    Menu(title="Second", depends=[S("D")], children=[Cfg("X", "int", prompt="x again", defaults=[(L("2"), None)]), b("K")]),
                    Cfg("X", "int", defaults=[(L("9"), None)]),
                    Cfg("PV", "int", prompt="pv", prompt_cond=S("C"), defaults=[(L("5"), None)]),
                    Cfg("HID", "string", defaults=[(L('"on"'), S("C")), (L('"off"'), None)]),
                ]
            )
        ),
        "sdk0": "",
        "hand": "CONFIG_C=y\nCONFIG_X=42\nCONFIG_PV=6\n",
        "alphabet": [
            _set(C=True),
            _set(C=False),
            _set(D=True),
            _set(D=False),
            _set(X=11),
            _setp(("X", 12), ("D", True)),
            _set(PV=8),
            _setp(("PV", 9), ("C", True)),
            _set(HID="x"),
            _set(K=True),
            _set(C="y"),
            {"reset": ["X"]},
            {"reset": ["@MENU0"]},
        ]
        + COMMON_TAIL,
    }

    # every type behind one switch, string/hex/float values, nested if
    T["types"] = {
        "files": kgen.render(
            Program(
                children=[
                    b("EN"),
                    If(
                        cond=S("EN"),
                        children=[
                            Cfg("HX", "hex", prompt="hx", ranges=[(L("0x10"), L("0x20"), None)], defaults=[(L("0x10"), None)]),
                            Cfg("FL", "float", prompt="fl", defaults=[(L("1.5"), None)]),
                            Cfg("ST", "string", prompt="st", defaults=[(L('"s"'), None)]),
                            b("B2", "y"),
                            If(cond=S("B2"), children=[Cfg("IN", "int", prompt="in", defaults=[(L("0"), None)])]),
                        ],
                    ),
                    Cfg("ALW", "string", prompt="alw", defaults=[(S("ST"), None)]),
                ]
            )
        ),
        "sdk0": "CONFIG_EN=y\nCONFIG_HX=0x11\n",
        "hand": 'CONFIG_EN=y\nCONFIG_FL=2.25\nCONFIG_ST="hand"\n# CONFIG_B2 is not set\n',
        "alphabet": [
            _set(EN=True),
            _set(EN=False),
            _set(HX=18),
            _set(HX="1f"),
            _set(FL=0.25),
            _set(FL="x"),
            _set(ST=""),
            _set(ST="t"),
            _set(B2=False),
            _setp(("IN", -3), ("B2", True), ("EN", True)),
            _set(ALW="own"),
            {"reset": ["EN"]},
            {"reset": ["ST", "HX"]},
        ]
        + COMMON_TAIL,
    }
    # ranges whose bounds are other options (both bounds, int and hex)
    T["symrange"] = {
        "files": kgen.render(
            Program(
                children=[
                    Cfg("FLOOR", "int", prompt="floor", defaults=[(L("0"), None)]),
                    Cfg("LIMIT", "int", prompt="limit", defaults=[(L("100"), None)]),
                    Cfg("VALUE", "int", prompt="value", ranges=[(S("FLOOR"), S("LIMIT"), None)], defaults=[(L("5"), None)]),
                    Cfg("HLIM", "hex", prompt="hlim", defaults=[(L("0xff"), None)]),
                    Cfg("HV", "hex", prompt="hv", ranges=[(L("0x0"), S("HLIM"), None)], defaults=[(L("0x10"), None)]),
                ]
            )
        ),
        "sdk0": "",
        "hand": "CONFIG_LIMIT=20\nCONFIG_VALUE=15\n",
        "alphabet": [
            _set(VALUE=50),
            _set(VALUE=3),
            _set(LIMIT=10),
            _set(LIMIT=200),
            _set(FLOOR=20),
            _set(HV=128),
            _set(HLIM=32),
            _setp(("VALUE", 150), ("LIMIT", 200)),
            _set(VALUE=500),
            {"reset": ["LIMIT"]},
            {"reset": ["VALUE", "FLOOR"]},
            {"set": {"VALUE": 7}, "reset": ["LIMIT"], "save": None},
        ]
        + COMMON_TAIL,
    }
    # choices in the edit / load / reset / save interleavings: a choice whose default is not its first member, inside a
    # menu (reset by menu id) and behind a dependency, a second choice that is only visible for one member of the
    # first, and a prompt-less option derived from the selection.  Two starting points on the same tree:
    #   chdflt  the project file as a server saved it with everything at its default (default-marked entries); the
    #           hand-written file user-selects a non-default member
    #   chsel   the project file user-selects a non-default member of both choices; the hand-written file leaves the
    #           choices alone (loading it must bring them back to their defaults)
    ch_files = kgen.render(
        Program(
            children=[
                b("LOGGING", "y"),
                Menu(
                    title="Log",
                    children=[
                        Choice(
                            name="LVL",
                            prompt="lvl",
                            depends=[S("LOGGING")],
                            defaults=[("L_INFO", None)],
                            children=[b("L_ERR"), b("L_INFO"), b("L_DBG")],
                        ),
                        Choice(prompt="fmt", depends=[S("L_DBG")], children=[b("F_A"), b("F_B")]),
                    ],
                ),
                Cfg("NUM", "int", defaults=[(L("1"), S("L_ERR")), (L("3"), S("L_INFO")), (L("4"), S("L_DBG")), (L("0"), None)]),
                Cfg("TAG", "string", prompt="tag", defaults=[(L('"app"'), S("F_B")), (L('"tag"'), None)]),
            ]
        )
    )
    ch_alpha = [
        _set(L_DBG=True),
        _set(L_ERR=True),
        _set(L_INFO=True),
        _set(L_DBG=False),
        _set(LOGGING=False),
        _set(LOGGING=True),
        _setp(("F_B", True), ("L_DBG", True)),
        _set(F_A=True),
        _set(TAG="mine"),
        _set(NUM=7),
        {"reset": ["L_DBG"]},
        {"reset": ["L_INFO", "F_B"]},
        {"reset": ["@MENU0"]},
        {"load": HAND, "save": None},
    ] + COMMON_TAIL
    T["chdflt"] = {
        "files": ch_files,
        "sdk0": "# default:\nCONFIG_LOGGING=y\n# default:\n# CONFIG_L_ERR is not set\n# default:\nCONFIG_L_INFO=y\n# default:\n# CONFIG_L_DBG is not set\n"
        '# default:\nCONFIG_NUM=3\n# default:\nCONFIG_TAG="tag"\n',
        "hand": "CONFIG_LOGGING=y\n# CONFIG_L_ERR is not set\n# CONFIG_L_INFO is not set\nCONFIG_L_DBG=y\n# CONFIG_F_A is not set\nCONFIG_F_B=y\n",
        "alphabet": ch_alpha,
    }
    T["chsel"] = {
        "files": ch_files,
        "sdk0": "# CONFIG_L_INFO is not set\nCONFIG_L_DBG=y\nCONFIG_F_B=y\n",
        "hand": 'CONFIG_TAG="hand"\n',
        "alphabet": ch_alpha,
    }
    # an option of EVERY value type hidden through its PROMPT condition (`<type> "p" if ADV`, not `depends on`): such an
    # option keeps its defaults (and its place in the saved file) while hidden, so a user value given while it was shown
    # must stop counting the moment the prompt goes away and count again when it comes back -- per type, because the
    # evaluator has one branch per type.  A float with a range joins the plain one (the range is applied in the same
    # branch).  Two starting points on the same tree:
    #   phide   everything at its default and shown; the hand-written file hides the options and carries values for them
    #   phidden the project file hides the options and carries a value for each of them (user values that never were
    #           visible); the hand-written file shows them and sets some
    ph_files = kgen.render(Program(children=PHIDE_NODES()))
    ph_alpha = [
        _set(ADV=False),
        _set(ADV=True),
        _set(PB=False),
        _set(PI=9),
        _set(PH="2f"),
        _set(PS="custom"),
        _set(PF=1.5),
        _set(PFR=2.0),
        # each type's edit and the hiding switch in ONE request (option first, switch second; the server applies what is visible)
        _setp(("PB", False), ("PI", 11), ("PH", 48), ("PS", "both"), ("PF", 2.5), ("PFR", 1.0), ("ADV", False)),
        _setp(("ADV", True), ("PF", 3.5), ("PI", 12)),
        _set(PF="x"),
        {"reset": ["PF", "PI"]},
        {"reset": ["ADV"]},
        {"set": {"ADV": False}, "save": None},
    ] + COMMON_TAIL
    T["phide"] = {
        "files": ph_files,
        "sdk0": "",
        "hand": '# CONFIG_ADV is not set\n# CONFIG_PB is not set\nCONFIG_PI=8\nCONFIG_PH=0x2a\nCONFIG_PS="hand"\nCONFIG_PF=2.25\nCONFIG_PFR=1.5\n',
        "alphabet": ph_alpha,
    }
    T["phidden"] = {
        "files": ph_files,
        "sdk0": '# CONFIG_ADV is not set\n# CONFIG_PB is not set\nCONFIG_PI=9\nCONFIG_PH=0x2f\nCONFIG_PS="custom"\nCONFIG_PF=1.5\nCONFIG_PFR=2.0\n',
        "hand": "CONFIG_ADV=y\nCONFIG_PF=2.25\nCONFIG_PI=8\n",
        "alphabet": ph_alpha,
    }
    # titles that read like the saved file's own pragma: write_config() renders the header of a menu / comment as the
    # three lines `#`, `# <title>`, `#`, so a menu or comment titled exactly `default:` puts the line `# default:` (the
    # pragma "the next assignment is a default value") in front of the first option written after that header.  Those
    # options get user values (int, string, bool, a choice member; one of them is also the target of an enabled `set
    # default`, so that being read back as a default changes the VALUE, not only the protocol-3 `defaults` flag); the
    # comment's header comes and goes with SHOWC.  The start-up file of `pragma` is empty, `pragmasaved` starts on the file
    # a server saved with user values behind every such header.
    preset = b("PRESET", "y")
    preset.wsets.append(("FIRST", L("50"), None))
    pr_files = kgen.render(
        Program(
            children=[
                preset,
                b("SHOWC", "y"),
                Menu(
                    title="default:",
                    children=[
                        Cfg("FIRST", "int", prompt="first", defaults=[(L("1"), None)]),
                        Cfg("SECOND", "int", prompt="second", defaults=[(L("2"), None)]),
                    ],
                ),
                Comment("default:", depends=[S("SHOWC")]),
                Cfg("AFTERC", "string", prompt="afterc", defaults=[(L('"c"'), None)]),
                Menu(title="Inner", children=[Comment("default:"), b("AFTERB", "y")]),
                Menu(title="default:", children=[Choice(name="PCH", prompt="pch", children=[b("MA"), b("MB")])]),
            ]
        )
    )
    pr_alpha = [
        _set(FIRST=7),
        _set(SECOND=5),
        _set(PRESET=False),
        _set(AFTERC="x"),
        _set(AFTERB=False),
        _set(MB=True),
        _set(SHOWC=False),
        _setp(("FIRST", 9), ("AFTERC", "y"), ("AFTERB", False), ("MB", True)),
        {"reset": ["FIRST"]},
        {"reset": ["@MENU0"]},
        {"set": {"FIRST": 8}, "save": None},
        {"reset": ["all"]},
        {"load": None},
        {"load": SNAP},
        {"load": HAND},
        {"save": None},
        {"save": SNAP},
    ]
    T["pragma"] = {
        "files": pr_files,
        "sdk0": "",
        "hand": 'CONFIG_FIRST=3\nCONFIG_AFTERC="hand"\n# CONFIG_AFTERB is not set\n# CONFIG_MA is not set\nCONFIG_MB=y\n',
        "alphabet": pr_alpha,
        "small": True,
    }
    T["pragmasaved"] = {
        "files": pr_files,
        "sdk0": "# default:\nCONFIG_PRESET=y\n# default:\nCONFIG_SHOWC=y\n\n#\n# default:\n#\nCONFIG_FIRST=7\n# default:\nCONFIG_SECOND=2\n# end of default:\n\n"
        '#\n# default:\n#\nCONFIG_AFTERC="x"\n\n#\n# Inner\n#\n\n#\n# default:\n#\n# CONFIG_AFTERB is not set\n# end of Inner\n\n'
        "#\n# default:\n#\n# CONFIG_MA is not set\nCONFIG_MB=y\n# end of default:\n",
        "hand": "CONFIG_SECOND=4\n",
        "alphabet": pr_alpha,
        "small": True,
    }
    # failed loads / saves (a file that does not exist, a directory, a path whose directory does not exist) FOLLOWED by
    # edits and by null-path saves / loads: null keeps meaning the file the last SUCCESSFUL named load / save (or the
    # command line) named, so the file a later {"save": null} must have written -- and a fresh server is started on --
    # is that one, and {"load": null} brings back that file's content
    T["paths"] = {
        "files": kgen.render(
            Program(
                children=[
                    b("FEATURE"),
                    Cfg("LEVEL", "int", prompt="level", depends=[S("FEATURE")], ranges=[(L("0"), L("9"), None)], defaults=[(L("2"), None)]),
                    Cfg("LABEL", "string", prompt="label", defaults=[(L('"none"'), None)]),
                ]
            )
        ),
        "sdk0": 'CONFIG_LABEL="start"\n',
        "hand": "CONFIG_FEATURE=y\nCONFIG_LEVEL=5\n",
        "alphabet": [
            _set(FEATURE=True),
            _set(LABEL="x"),
            _setp(("LEVEL", 7), ("FEATURE", True)),
            {"reset": ["all"]},
            {"load": MISSING},
            {"load": ADIR},
            {"save": NODIR},
            {"save": NOTDIR},
            {"load": NOTDIR},
            {"set": {"LABEL": "y"}, "save": NODIR},
            {"load": MISSING, "set": {"LABEL": "z"}},
            {"set": {"LABEL": "w"}, "save": None},
            {"load": None},
            {"save": None},
            {"load": HAND},
            {"load": SNAP},
            {"save": SNAP},
        ],
        "small": True,
    }
    # neighbours of the pragma title: titles that read like the saved file's OTHER marker lines -- the begin / end marker of
    # the deprecated-options block (everything between them is skipped on load) and an `# CONFIG_<name> is not set` line
    # (an assignment).  A menu and a comment of each kind, in front of / naming options that get user values.
    T["markers"] = {
        "files": kgen.render(
            Program(
                children=[
                    b("BEFORE"),
                    Menu(title="Deprecated options for backward compatibility", children=[Cfg("INDEP", "int", prompt="indep", defaults=[(L("4"), None)])]),
                    Cfg("AFTERDEP", "int", prompt="afterdep", defaults=[(L("6"), None)]),
                    Comment("End of deprecated options"),
                    Cfg("AFTEREND", "int", prompt="afterend", defaults=[(L("1"), None)]),
                    Menu(title="CONFIG_VICTIM is not set", children=[Cfg("INM", "int", prompt="inm", defaults=[(L("4"), None)])]),
                    b("VICTIM"),
                    Comment("CONFIG_V2 is not set"),
                    b("V2"),
                ]
            )
        ),
        "sdk0": "",
        "hand": "CONFIG_INDEP=5\nCONFIG_VICTIM=y\n",
        "alphabet": [
            _set(BEFORE=True),
            _set(INDEP=9),
            _set(AFTERDEP=8),
            _set(AFTEREND=3),
            _set(VICTIM=True),
            _set(V2=True),
            {"reset": ["all"]},
            {"load": None},
            {"load": HAND},
            {"save": None},
            {"save": SNAP},
            {"load": SNAP},
        ],
        "small": True,
        "construct": "title_reads_like_file_marker",
    }
    selfcheck_prompt_hidden(T)
    selfcheck_pragma_titles(T)
    T.update(appended_trees(tier))
    return T



# --------------------------------------------------------------------------------------------------
# start-up / loaded files "written by the tools, then edited by appending": tree dimension `appended`
# --------------------------------------------------------------------------------------------------

# (name, type, default literal, [(JSON value a request sets, the assignment line of the sdkconfig format)]); the first
# value is the default.  quick uses the first two values of the first four options, thorough everything.
AP_OPTS = [
    ("B", "bool", "y", [(True, "CONFIG_B=y"), (False, "# CONFIG_B is not set")]),
    ("X", "int", "3", [(3, "CONFIG_X=3"), (5, "CONFIG_X=5"), (7, "CONFIG_X=7")]),
    ("H", "hex", "0x10", [(16, "CONFIG_H=0x10"), (47, "CONFIG_H=0x2f"), (48, "CONFIG_H=0x30")]),
    ("S", "string", '"s"', [("s", 'CONFIG_S="s"'), ("t", 'CONFIG_S="t"'), ("", 'CONFIG_S=""')]),
    ("F", "float", "0.5", [(0.5, "CONFIG_F=0.5"), (1.5, "CONFIG_F=1.5"), (2.5, "CONFIG_F=2.5")]),
    ("D", "int", "1", [(1, "CONFIG_D=1"), (4, "CONFIG_D=4"), (6, "CONFIG_D=6")]),  # depends on B
]
_AP_CACHE: Dict[str, Dict[str, dict]] = {}


def appended_trees(tier: str) -> Dict[str, dict]:
    """One tree entry per (configuration c, option o, value v): the start-up file is the file THE TOOLS WRITE for c (obtained
    from the real server: the edit that makes c, then `save`) plus ONE appended assignment line re-assigning o to v, the way a
    user edits an sdkconfig with `echo CONFIG_X=7 >> sdkconfig`.  c ranges over: everything at its default, and each single
    option user-set to its first non-default value; (o, v) over every option and every value of its alphabet (a line that
    repeats the value c already has included).  The hand-written file (`load`) is the file of ANOTHER (c2, o2, v2).
    The request alphabet edits o (every value, reset), undoes the appended line (set o back to c's value, or reset it when c
    leaves it at its default) alone and in one request with `save`, loads the other appended file and undoes ITS line,
    saves / loads null.  Oracles unchanged: (b') a fresh server on the file the request saved equals the live state."""
    if tier in _AP_CACHE:
        return _AP_CACHE[tier]
    quick = tier == "quick"
    opts = [(n, t, d, vals[:2] if quick else vals) for n, t, d, vals in (AP_OPTS[:4] if quick else AP_OPTS)]
    nodes = []
    for n, t, d, _ in opts:
        nodes.append(Cfg(n, t, prompt=n.lower(), defaults=[(L(d), None)], depends=[S("B")] if n == "D" else []))
    files = kgen.render(Program(children=nodes))
    # configurations: {} (all default) and {o: first non-default value}
    confs: List[Dict[str, Any]] = [{}] + [{n: vals[1][0]} for n, _, _, vals in opts]
    saved = None
    if not os.environ.get("MCK_DEBUG"):
        saved = os.dup(2)
        common.silence_stderr()
    try:
        written = []
        for c in confs:
            run = server.run(files, [req_line(3, {"set": c, "save": None})], sdkconfig="", default_version=3)
            text = run.files.get("sdkconfig")
            if run.exc is not None or not text or not text.endswith("\n"):
                raise AssertionError(f"C14: cannot obtain the tool-written file of configuration {c}: {run.exc} {text!r}")
            written.append(text)
    finally:
        if saved is not None:
            os.dup2(saved, 2)
            os.close(saved)
    variants = []  # (ci, option, value index)
    for ci in range(len(confs)):
        for n, _, _, vals in opts:
            for vi in range(len(vals)):
                variants.append((ci, n, vi))
    vals_of = {n: vals for n, _, _, vals in opts}

    def text_of(var) -> str:
        ci, n, vi = var
        return written[ci] + vals_of[n][vi][1] + "\n"

    def undo(var) -> dict:
        ci, n, _ = var
        return {"set": {n: confs[ci][n]}} if n in confs[ci] else {"reset": [n]}

    step = len(vals_of[opts[1][0]]) * 2 + 1  # another configuration AND (mostly) another option
    T: Dict[str, dict] = {}
    for i, var in enumerate(variants):
        ci, n, vi = var
        other = variants[(i + step + len(variants) // 2) % len(variants)]
        alpha: List[dict] = [{"set": {n: v}} for v, _ in vals_of[n]]
        alpha += [
            {"reset": [n]},
            {"reset": ["all"]},
            {"save": None},
            {"save": SNAP},
            {"load": None},
            {"load": HAND},
            {"load": ORIG},
            dict(undo(var), save=None),
            dict(undo(other), load=HAND, save=None),
            {"reset": ["all"], "save": None},
        ]
        if other[1] != n:
            alpha.append(undo(other))
        seen, uniq = set(), []
        for a in alpha:
            key = json.dumps(a, sort_keys=True)
            if key not in seen:
                seen.add(key)
                uniq.append(a)
        T[f"appended:{ci}:{n}:{vi}"] = {
            "files": files,
            "sdk0": text_of(var),
            "hand": text_of(other),
            "alphabet": uniq,
            "pairs": [(3, 3)] if quick else PAIRS,
            "depth": 2 if quick else 3,
            "construct": "tool_written_file_plus_appended_reassignment",
        }
    _AP_CACHE[tier] = T
    return T


VALUE_TYPES = ("bool", "int", "hex", "string", "float")


def PHIDE_NODES() -> list:
    def p(name: str, typ: str, default: str, **kw) -> Cfg:
        return Cfg(name, typ, prompt=name.lower(), prompt_cond=S("ADV"), defaults=[(L(default), None)], **kw)

    return [
        b("ADV", "y"),
        p("PB", "bool", "y"),
        p("PI", "int", "7"),
        p("PH", "hex", "0x10"),
        p("PS", "string", '"std"'),
        p("PF", "float", "0.5"),
        p("PFR", "float", "0.25", ranges=[(L("0.0"), L("4.0"), None)]),
    ]


def selfcheck_prompt_hidden(T: Dict[str, dict]) -> None:
    """The explored trees must hold, for every value type, an option with a conditional prompt and a default that some
    request of the tree's alphabet sets (a harness invariant: raises, never a violation)."""
    nodes = {c.name: c for c in PHIDE_NODES() if isinstance(c, Cfg)}
    have = set()
    for t in (T["phide"], T["phidden"]):
        for a in t["alphabet"]:
            for name in a.get("set", {}):
                c = nodes.get(name)
                if c is not None and c.prompt_cond is not None and c.defaults and not c.depends:
                    have.add(c.type)
    missing = [t for t in VALUE_TYPES if t not in have]
    if missing:
        raise AssertionError(f"C14: no prompt-hidden option with a user value for type(s) {missing}")


def selfcheck_pragma_titles(T: Dict[str, dict]) -> None:
    """harness invariant: the pragma trees do hold a menu and a comment titled like the saved file's default pragma, each in
    front of an option that some request of the alphabet gives a user value"""
    text = T["pragma"]["files"]["Kconfig"]
    for need in ('menu "default:"', 'comment "default:"'):
        if need not in text:
            raise AssertionError(f"C14: the pragma tree lacks {need}")
    named = {n for a in T["pragma"]["alphabet"] for n in a.get("set", {})}
    if not {"FIRST", "AFTERC", "AFTERB", "MB"} <= named:
        raise AssertionError("C14: an option behind a pragma-like title never gets a user value")


# (server default version, request version): the three client versions against the default server (the CLI always
# starts protocol 3) and the two older protocols end to end
PAIRS = [(3, 3), (3, 2), (3, 1), (2, 2), (1, 1)]


def req_line(cv: int, body: dict) -> str:
    d = {"version": cv}
    d.update(body)
    return json.dumps(d)


def depth_of(tier: str, dv: int, cv: int, small: bool = False) -> int:
    """quick: depth 3 for the current protocol (3,3), depth 2 for the other pairs; thorough: depth 4 for (3,3) and (3,1)
    (what a protocol-3 / protocol-1 client meets with the server the CLI starts), depth 3 for (3,2), (2,2), (1,1).
    The small trees (pragma-like titles, failed loads / saves) need three requests (edit, failed load / save or save, null
    save / load) in every protocol: depth 3 for every pair in the quick tier."""
    if small and tier == "quick":
        return 3
    if tier == "quick":
        return 3 if (dv, cv) == (3, 3) else 2
    return 4 if (dv, cv) in ((3, 3), (3, 1)) else 3


def items(tier: str, seed: int):
    out = []
    # Tree `markers` (menu / comment titles that are CHARACTER FOR CHARACTER a marker line of the file format: the begin marker
    # of the deprecated block, `CONFIG_X is not set`) is NOT explored by default: the sdkconfig format writes a title as
    # `# <title>` and has no escaping, so such a title is indistinguishable from the marker -- an ambiguity of the format
    # itself (C02 states the same and does not generate them either). MCK_C14_WITH_MARKERS=1 adds it (informational).
    skip = [x for x in os.environ.get("MCK_C14_SKIP_TREES", "").split(",") if x] + ([] if os.environ.get("MCK_C14_WITH_MARKERS") == "1" else ["markers"])  # development only (e.g. judging a seeded
    # change while a tree alarms on the unchanged repository); unset in every recorded run
    for name, t in trees(tier).items():
        if name in skip or name.split(":")[0] in skip:
            continue
        for dv, cv in t.get("pairs", PAIRS):
            depth = t["depth"] if "depth" in t else depth_of(tier, dv, cv, bool(t.get("small")))
            alpha = [a for a in t["alphabet"] if cv >= 3 or "reset" not in a or a["reset"] in (["all"], ["NOPE", "no-such-menu-1"])]
            for first in range(len(alpha)):
                out.append(
                    {
                        "tree": name,
                        "files": t["files"],
                        "sdk0": t["sdk0"],
                        "hand": t["hand"],
                        "alphabet": alpha,
                        "dv": dv,
                        "cv": cv,
                        "depth": depth,
                        "first": first,
                        "construct": t.get("construct"),
                    }
                )
    return out


# --------------------------------------------------------------------------------------------------
# model client and comparison
# --------------------------------------------------------------------------------------------------

CHANNELS = ("values", "ranges", "visible", "defaults")


def fold(lines: List[str]) -> Tuple[Dict[str, dict], List[Tuple[int, str]]]:
    """The documented client: start from the initial message, merge each reply's differences.  Returns the model and
    the list of (line index, reason) of lines that are not single strict JSON objects carrying `version`."""
    model: Dict[str, dict] = {c: {} for c in CHANNELS}
    bad: List[Tuple[int, str]] = []
    for i, ln in enumerate(lines):
        obj, why = server.parse_reply(ln)
        if obj is None:
            bad.append((i, why))
            continue
        if "version" not in obj:
            bad.append((i, "no `version`"))
        for c in CHANNELS:
            d = obj.get(c)
            if d is None:
                continue
            if not isinstance(d, dict):
                bad.append((i, f"`{c}` is not an object"))
                continue
            model[c].update(d)
    return model, bad


def jeq(a: Any, b: Any) -> bool:
    """typed JSON equality (true != 1, 1 != 1.0)"""
    return json.dumps(a, sort_keys=True) == json.dumps(b, sort_keys=True)


_MISSING = object()


def compare(kind: str, left: Dict[str, dict], right: Dict[str, dict], ev: int) -> Dict[tuple, str]:
    """Returns {(kind, channel, key, how): text}.  right is a complete state (L or M)."""
    out: Dict[tuple, str] = {}
    rvis = right["visible"]
    chans = ("values", "ranges") if ev == 1 else ("values", "ranges", "visible") if ev == 2 else CHANNELS
    for c in chans:
        lc, rc = left[c], right.get(c, {})
        for k, v in rc.items():
            if ev == 1 and not rvis.get(k, False):
                continue  # protocol 1: compared on visible options only
            lv = lc.get(k, _MISSING)
            if lv is _MISSING:
                out[(kind, c, k, "missing_key")] = f"{c}[{k}] missing, reference {json.dumps(v)}"
            elif not jeq(lv, v):
                out[(kind, c, k, "wrong_value")] = f"{c}[{k}] = {json.dumps(lv)}, reference {json.dumps(v)}"
        for k, lv in lc.items():
            if k in rc:
                continue
            if ev == 1:
                if c == "values" and lv is None:
                    continue  # protocol 1 marks invisible options with null
                stale = rvis.get(k, False)
            else:
                stale = rvis.get(k, False) or left["visible"].get(k, False) is not False
            if stale:
                out[(kind, c, k, "stale_key")] = f"{c}[{k}] = {json.dumps(lv)} still held, reference has no such key but the option is visible"
    return out


# --------------------------------------------------------------------------------------------------
# exploration
# --------------------------------------------------------------------------------------------------


# per worker process: results that depend only on (tree, saved file) / (tree, server-side configuration) are shared by all
# items the worker executes (the values are exactly what a recomputation would give; only time is saved)
_DEPTH1: Dict[tuple, Dict[Any, Any]] = {}
_FRESH: Dict[tuple, Any] = {}
_RESTART: Dict[tuple, Dict[tuple, str]] = {}


class ServerDied(Exception):
    def __init__(self, run: server.Run):
        super().__init__(str(run.exc))
        self.run = run


class State:
    __slots__ = ("run", "client", "bad", "lastfile", "lastok")


def req_class(line: str) -> str:
    """request class for signatures: key(s) + shape of the argument, no option names"""
    try:
        q = json.loads(line)
    except ValueError:
        return "non-json"
    parts = []
    for key in ("load", "set", "reset", "save"):
        if key not in q:
            continue
        v = q[key]
        if key == "set":
            n = len(v) if isinstance(v, dict) else -1
            parts.append("set:single" if n == 1 else "set:multi")
        elif key == "reset":
            if v == ["all"]:
                parts.append("reset:all")
            elif any("-" in x for x in v):
                parts.append("reset:menu")
            else:
                parts.append("reset:symbol")
        else:
            parts.append(f"{key}:null" if v is None else f"{key}:file")
    return "+".join(parts) or "empty"


def last_file(h: tuple) -> Tuple[str, bool]:
    """(the file a `load` / `save` null would use after history h, did the load / save of the LAST request succeed).

    The documented rule: null means the last used file; a named load / save becomes the current file unless that request's
    load or save failed.  Whether it failed is NOT read off the reply (the server decides by matching its own message
    texts, which is part of what is checked) but follows from the files of the run directory, which the explored
    requests determine completely: a load succeeds iff its target is a regular file directly in $D that the run started
    with or that an earlier successful save created (every such file is text the loader accepts); a save succeeds iff
    its target lies directly in $D and is not a directory (directories are never save targets in the alphabets)."""
    regular = set(REGULAR0)
    last = "$D/sdkconfig"
    ok_last = True
    for ln in h:
        q = json.loads(ln)
        new = last
        ok_last = True
        for key in ("load", "save"):
            if key not in q:
                continue
            t = q[key]
            if t is None:
                t = new  # (a load named in the same request is already the current file when the save is handled)
            else:
                new = t
            dn, bn = os.path.split(t)
            if key == "load":
                ok = dn == server.PH and bn in regular
            else:
                ok = dn == server.PH and bn not in DIRS0
                if ok:
                    regular.add(bn)
            ok_last = ok_last and ok
        if ok_last:
            last = new
    return last, ok_last


class Explorer:
    def __init__(self, item: dict, r: common.Result):
        self.item = item
        self.r = r
        self.files = item["files"]
        self.dv, self.cv = item["dv"], item["cv"]
        self.ev = min(self.dv, self.cv)
        self.aux = aux_of(item["hand"], item["sdk0"])
        self.menu_ids: Optional[List[str]] = None
        self.types: Dict[str, str] = {}
        self.kinds: Dict[str, str] = {}
        self.tkey = common.h64(sorted(self.files.items()))
        self._mm: Dict[tuple, Dict[tuple, str]] = {}
        self._fl: Dict[tuple, Tuple[Dict[str, Optional[str]], str]] = {}

    # -- requests
    def resolve(self, body: dict) -> str:
        if "reset" in body and any(isinstance(x, str) and x.startswith("@MENU") for x in body["reset"]):
            body = dict(body)
            body["reset"] = [self.menu_ids[int(x[5:])] if x.startswith("@MENU") else x for x in body["reset"]]
        return req_line(self.cv, body)

    def prepare(self) -> None:
        """ids and types from an idle server life"""
        run = server.run(self.files, [], sdkconfig=self.item["sdk0"], default_version=3, aux=self.aux, want_files=False)
        if run.exc:
            raise ServerDied(run)
        k = run.kconfig
        self.menu_ids = list(k.menu_ids)
        import esp_kconfiglib.core as kc

        names = {kc.BOOL: "bool", kc.INT: "int", kc.HEX: "hex", kc.STRING: "string", kc.FLOAT: "float"}
        for s in k.unique_defined_syms:
            self.types[s.name] = names.get(s.orig_type, "?")
        for n in k.node_iter():
            if isinstance(n.item, kc.Symbol):
                self.kinds[n.id] = "symbol:" + self.types.get(n.item.name, "?")
            elif isinstance(n.item, kc.Choice):
                self.kinds[n.id] = "choice"
            elif n.item == kc.MENU:
                self.kinds[n.id] = "menu"
            else:
                self.kinds[n.id] = "comment"
        self.lines = [self.resolve(a) for a in self.item["alphabet"]]

    # -- transition function
    def build(self, h: tuple) -> State:
        run = server.run(self.files, list(h), sdkconfig=self.item["sdk0"], default_version=self.dv, aux=self.aux)
        if run.exc is not None:
            raise ServerDied(run)
        st = State()
        st.run = run
        st.client, st.bad = fold(run.lines)
        st.lastfile, st.lastok = last_file(h)
        return st

    def server_key(self, st: State) -> tuple:
        """every persistent primitive field of the server-side configuration (memoised fields excluded)"""
        k = st.run.kconfig
        d = st.run.files.get("__dir__", "")
        syms = tuple(
            (
                s._user_value,
                s._sdkconfig_value,
                s._loaded_as_default,
                bool(s._has_active_indirect_set),
                repr(s.defaults) if getattr(s, "_default_value_injected", False) else 0,  # load may replace the defaults
                bool(s._was_set),
                repr(getattr(s, "_old_val", None)),
                os.path.basename(s._user_source) if isinstance(getattr(s, "_user_source", None), str) else None,
            )
            for s in k.unique_defined_syms
        )
        chs = tuple((c._user_selection.name if c._user_selection is not None else None, c._user_value, bool(c._was_set)) for c in k.unique_choices)
        return (server.config_state(k), syms, chs)

    def canon(self, st: State):
        return common.h64((self.server_key(st), json.dumps(st.client, sort_keys=True), sorted(st.run.files.items(), key=lambda kv: kv[0]), st.lastfile))

    # -- oracle
    def fresh_state(self, text: str) -> Any:
        """initial message of a fresh protocol-3 server started on a file with this content (cached by content)"""
        got = _FRESH.get((self.tkey, text))
        if got is None:
            run = server.run(self.files, [], sdkconfig=text, default_version=3, want_files=False)
            if run.exc is not None or len(run.lines) != 1:
                got = ("died", run.exc, run.lines)
            else:
                obj, why = server.parse_reply(run.lines[0])
                got = ("ok", obj) if obj is not None else ("bad", why, run.lines)
            if len(_FRESH) > 20000:
                _FRESH.clear()
            _FRESH[(self.tkey, text)] = got
        return got

    def restart_mismatches(self, h: tuple, st: State, live: dict) -> Dict[tuple, str]:
        """(b): append a save to a twin of the history, start a fresh server on the written file, compare with the live state.
        Depends only on the server-side configuration (server_key: every persistent field), so it is executed once per
        distinct server-side configuration a worker meets."""
        out: Dict[tuple, str] = {}
        twin = server.run(self.files, list(h) + [req_line(3, {"save": "$D/twin"})], sdkconfig=self.item["sdk0"], default_version=self.dv, aux=self.aux)
        if twin.exc is not None or len(twin.lines) != len(h) + 2:
            out[("twin_save", "-", "-", "server_died_on_save")] = f"appending a save to the history: {twin.exc}, {len(twin.lines)} lines"
        elif twin.lines[: len(h) + 1] != st.run.lines:
            out[("nondeterministic_reply", "-", "-", "twin_differs")] = "replaying the same history produced different reply lines"
        else:
            rep, _ = server.parse_reply(twin.lines[-1])
            text = twin.files.get("twin")
            if rep is None or "error" in rep or text is None:
                out[("twin_save", "-", "-", "save_failed")] = f"save to a new file failed: {twin.lines[-1][:200]}"
            else:
                got = self.fresh_state(text)
                if got[0] != "ok":
                    out[("restart", "-", "-", "fresh_server_failed")] = f"fresh server on the saved file: {got[1:]!r}"[:300]
                else:
                    out.update(compare("restart_differs", live, got[1], 3))
        return out

    def mismatches(self, h: tuple, st: Optional[State] = None) -> Dict[tuple, str]:
        """all current disagreements after history h, keyed (kind, channel, key, how)"""
        if h in self._mm:
            return self._mm[h]
        if st is None:
            st = self.build(h)
        out: Dict[tuple, str] = {}
        live = server.full_state(st.run.kconfig)
        out.update(compare("client_out_of_sync", st.client, live, self.ev))
        skey = (self.tkey, common.h64(self.server_key(st)))
        restart = _RESTART.get(skey)
        if restart is None:
            restart = self.restart_mismatches(h, st, live)
            if len(_RESTART) > 100000:
                _RESTART.clear()
            _RESTART[skey] = restart
        self.r.count("restart_comparisons")
        out.update(restart)
        # (b') "what the client sees is what `save` writes": when the request just handled carried a successful save,
        # a fresh server started on the file THAT request wrote must report the state the reply left the client with
        if h:
            lastq = json.loads(h[-1])
            rep_last, _ = server.parse_reply(st.run.lines[-1]) if st.run.lines else (None, None)
            if "save" in lastq and rep_last is not None and "error" not in rep_last and st.lastok:
                # the file THIS request saved is the one the protocol says is current now (named by the request, else
                # the last used file; a failed earlier load / save did not change it -- last_file())
                written = st.run.files.get(os.path.basename(st.lastfile))
                if written is None:
                    out[("saved_file_missing", "-", "-", "no_such_file_after_save")] = (
                        f"the request saved without an error but {st.lastfile} (the file the protocol says it saves to) does not exist afterwards"
                    )
                else:
                    got = self.fresh_state(written)
                    self.r.count("saved_file_comparisons")
                    if got[0] != "ok":
                        out[("restart", "-", "-", "fresh_server_failed_on_saved_file")] = f"fresh server on the file the request saved: {got[1:]!r}"[:300]
                    else:
                        for key, msg in compare("saved_file_differs", live, got[1], 3).items():
                            out[key] = msg
        # (d) "the state a newly started server reports for the same configuration": a request whose only effective key
        # is a successful `load` (optionally followed by `save`) leaves the configuration of the loaded file, so the live
        # state must be the initial state of a fresh server started on that file's content (as it was when it was loaded).
        # Whatever an earlier `set` / `reset` / `load` left behind (user selections of choices, user values, baselines
        # of the replaced file) must not survive the replacing load.
        if h:
            if "load" in lastq and "set" not in lastq and "reset" not in lastq and rep_last is not None and "error" not in rep_last:
                pfiles, plast = self.prefix_files(h)
                target = lastq["load"] if lastq["load"] is not None else plast
                loaded = pfiles.get(os.path.basename(target)) if os.path.dirname(target) == "$D" else None
                if loaded is not None:
                    got = self.fresh_state(loaded)
                    self.r.count("loaded_file_comparisons")
                    if got[0] != "ok":
                        out[("restart", "-", "-", "fresh_server_failed_on_loaded_file")] = f"fresh server on the file the request loaded: {got[1:]!r}"[:300]
                    else:
                        for key, msg in compare("load_differs_from_fresh", live, got[1], 3).items():
                            out[key] = msg + f" (fresh server on the loaded file {target})"
        # (c) what the server announces must not depend on memoised values: recompute after discarding every cache
        # (last use of this history's live object; children are replayed from scratch)
        st.run.kconfig._invalidate_all()
        recomputed = server.full_state(st.run.kconfig)
        for c in CHANNELS:
            for k2 in sorted(set(live[c]) | set(recomputed[c])):
                a, b2 = live[c].get(k2, _MISSING), recomputed[c].get(k2, _MISSING)
                if a is _MISSING or b2 is _MISSING or not jeq(a, b2):
                    out[("stale_server_state", c, k2, "memoised_differs_from_recomputed")] = (
                        f"{c}[{k2}]: server computes {json.dumps(a) if a is not _MISSING else '<absent>'} from memoised values, "
                        f"{json.dumps(b2) if b2 is not _MISSING else '<absent>'} after discarding them"
                    )
        if len(self._mm) > 64:
            self._mm.clear()
            self._fl.clear()
        self._mm[h] = out
        self._fl[h] = (st.run.files, st.lastfile)
        return out

    def prefix_files(self, h: tuple) -> Tuple[Dict[str, Optional[str]], str]:
        """(files on disk, current file) after h[:-1], i.e. what the last request of h found"""
        got = self._fl.get(h[:-1])
        if got is None:
            st = self.build(h[:-1])
            got = (st.run.files, st.lastfile)
        return got

    def case(self, h: tuple) -> dict:
        it = self.item
        c = {"tree": it["tree"], "files": it["files"], "sdk0": it["sdk0"], "hand": it["hand"], "dv": it["dv"], "cv": it["cv"], "history": list(h)}
        if it.get("construct"):
            c["construct"] = it["construct"]
        return c

    def check(self, h: tuple, st: State) -> None:
        r = self.r
        r.evals += 1
        opc = req_class(h[-1]) if h else "initial"
        ctx = f"[{self.item['tree']} dv={self.dv} cv={self.cv}] after {' ; '.join(h) if h else '(start)'}"
        if len(st.run.lines) != len(h) + 1:
            r.violation(
                {"kind": "reply_count", "op": opc, "stdout_lines": "too_many" if len(st.run.lines) > len(h) + 1 else "too_few"},
                f"{ctx}: {len(st.run.lines)} stdout lines for {len(h)} requests",
                self.case(h),
            )
        for i, why in st.bad:
            if i == len(h) or len(st.run.lines) != len(h) + 1:
                r.violation({"kind": "reply_shape", "op": opc, "why": why.split(" (")[0]}, f"{ctx}: stdout line {i}: {why}: {st.run.lines[i][:120]!r}", self.case(h))
        if h and len(st.run.lines) == len(h) + 1:
            rep, _ = server.parse_reply(st.run.lines[-1])
            if rep is not None and "error" not in rep:
                # "The key is always present in the response, but may be empty": a reply to an accepted request carries
                # every channel of its protocol version
                want = ("values", "ranges") if self.cv == 1 else ("values", "ranges", "visible") if self.cv == 2 else CHANNELS
                miss = [c for c in want if c not in rep]
                if miss or rep.get("version") != self.cv:
                    r.violation(
                        {"kind": "reply_channels", "op": opc, "protocol": self.cv, "missing": "+".join(miss) or "version"},
                        f"{ctx}: reply lacks {miss or 'the request version'}: {st.run.lines[-1][:160]}",
                        self.case(h),
                    )
        before = self.mismatches(h[:-1]) if h else {}  # first: leaves the prefix's files at hand for oracle (d)
        now = self.mismatches(h, st)
        live_vis = server.full_state(st.run.kconfig, 2)["visible"]
        for key, text in now.items():
            if key in before:
                continue
            kind, chan, k, how = key
            sig = {"kind": kind, "channel": chan, "how": how, "key_kind": self.kinds.get(k, "-")}
            if self.item.get("construct"):
                sig["construct"] = self.item["construct"]  # trees built around ONE construct name it (see trees())
            if k in self.kinds:
                sig["key_visible"] = bool(live_vis.get(k, False))
            if kind == "client_out_of_sync":
                sig["protocol"] = self.ev
                if how != "stale_key":
                    # a key that cannot be retracted is stale whatever request removed it; for lost or wrong
                    # differences the request class whose reply lost them is part of the class
                    sig["op"] = opc
            elif kind != "restart_differs":
                sig["op"] = opc
            r.violation(sig, f"{ctx}: {text}", self.case(h))
        if h:
            rep, _ = server.parse_reply(st.run.lines[-1]) if len(st.run.lines) == len(h) + 1 else (None, None)
            if rep and (rep.get("error") or any(rep.get(c) for c in CHANNELS)):
                r.outcome((self.item["tree"], self.dv, self.cv, server.config_state(st.run.kconfig), json.dumps(st.client, sort_keys=True)))

    def on_raise(self, h: tuple, e: BaseException) -> None:
        if not isinstance(e, ServerDied):
            raise e
        exc = e.run.exc
        self.r.evals += 1
        self.r.violation(
            {"kind": "server_died", "exc": exc[0], "site": exc[1], "request_class": req_class(h[-1]) if h else "initial"},
            f"[{self.item['tree']} dv={self.dv} cv={self.cv}] {' ; '.join(h)}: server raised {exc[0]}: {exc[2]} at {exc[1]}",
            self.case(h),
        )


def run_item(item) -> common.Result:
    r = common.Result()
    r.programs = 1
    ex = Explorer(item, r)
    ex.prepare()
    first = item["first"]
    lines = ex.lines
    # depth-1 states of all first requests: this sub-tree is expanded only if no earlier sub-tree starts in the same state
    # (keys are pure functions of (tree, protocols, request); a worker remembers them across the items of one group)
    gk = (ex.tkey, common.h64((item["sdk0"], item["hand"])), item["dv"], item["cv"], tuple(lines))  # trees may share the Kconfig text
    memo = _DEPTH1.setdefault(gk, {})
    if len(_DEPTH1) > 64:
        _DEPTH1.clear()
        memo = _DEPTH1.setdefault(gk, {})
    if "k0" not in memo:
        memo["k0"] = ex.canon(ex.build(()))
    k0 = memo["k0"]
    keys: List[Any] = []
    for i in range(first + 1):
        if i not in memo:
            try:
                memo[i] = ex.canon(ex.build((lines[i],)))
            except ServerDied:
                memo[i] = ("died", i)
        keys.append(memo[i])
    mine = keys[first]
    expand = mine != k0 and mine not in keys[:first] and not (isinstance(mine, tuple))
    prefix = (lines[first],)

    if first == 0:
        # the initial state itself is checked once per (tree, dv, cv)
        ex.check((), ex.build(()))
        r.states += 1

    def enabled(h, st):
        return [(ln,) for ln in lines] if expand else []

    def build_ops(h):
        return ex.build(prefix + tuple(o[0] for o in h))

    def check(h, st):
        ex.check(prefix + tuple(o[0] for o in h), st)

    def on_raise(h, e):
        ex.on_raise(prefix + tuple(o[0] for o in h), e)

    if not expand:
        r.count("subtrees_merged_at_depth_1")
    try:
        stats = explore.bfs(build_ops, enabled, ex.canon, check, item["depth"] - 1, on_raise=on_raise)
    except ServerDied as e:  # the first request itself kills the server
        ex.on_raise(prefix, e)
        r.transitions += 1
        return r
    r.states += stats.states if expand else 0
    r.transitions += stats.transitions + 1
    r.sample = {
        "tree": item["tree"],
        "kconfig": item["files"]["Kconfig"],
        "server_default_version": item["dv"],
        "client_version": item["cv"],
        "alphabet": lines,
        "first_request": lines[first],
        "states_in_subtree": stats.states,
        "transitions_in_subtree": stats.transitions,
    }
    return r


def replay(case) -> List[dict]:
    r = common.Result()
    if case.get("conformance"):
        for v in conformance_one(case):
            r.violation(v["sig"], v["msg"], v["case"])
        return r.viols
    item = {k: case[k] for k in ("tree", "files", "sdk0", "hand", "dv", "cv")}
    item["alphabet"] = []
    item["construct"] = case.get("construct")
    ex = Explorer(item, r)
    ex.prepare()
    h = tuple(case["history"])
    try:
        st = ex.build(h)
    except ServerDied as e:
        ex.on_raise(h, e)
        return r.viols
    ex.check(h, st)
    return r.viols


# --------------------------------------------------------------------------------------------------
# conformance: explored histories against the real `python -m kconfserver`
# --------------------------------------------------------------------------------------------------


def conformance_traces(tier: str, n: int) -> List[dict]:
    """n histories over the explored alphabets (length = depth bound), spread deterministically over trees, protocol
    pairs and alphabet positions"""
    its = items(tier, 0)
    by_group: Dict[tuple, dict] = {}
    for it in its:
        by_group.setdefault((it["tree"], it["dv"], it["cv"]), it)
    groups = sorted(by_group)
    out = []
    for j in range(n):
        gi = (j * 3) % len(groups) if len(groups) % 3 else j % len(groups)
        it = by_group[groups[gi]]
        ex = Explorer(it, common.Result())
        ex.prepare()
        m = len(ex.lines)
        c = j // len(groups)
        idx = [(j + c * (t + 1) * 5 + t * 7) % m for t in range(it["depth"])]
        out.append({"tree": it["tree"], "files": it["files"], "sdk0": it["sdk0"], "hand": it["hand"], "dv": it["dv"], "cv": it["cv"],
                    "history": [ex.lines[i] for i in idx], "conformance": True})
    return out


def conformance_one(case: dict, sub: Optional[dict] = None) -> List[dict]:
    h = list(case["history"])
    aux = aux_of(case["hand"], case["sdk0"])
    viols: List[dict] = []
    inproc = server.run(case["files"], h, sdkconfig=case["sdk0"], default_version=case["dv"], aux=aux)
    if sub is None:
        sub = server.run_subprocess(case["files"], h, sdkconfig=case["sdk0"], default_version=case["dv"], aux=aux)
    a, b_ = sub["lines"], inproc.lines
    if a != b_:
        fd = next((i for i, (x, y) in enumerate(zip(a, b_)) if x != y), min(len(a), len(b_)))
        only_initial = fd == 0 and a[1:] == b_[1:]
        viols.append(
            {
                "sig": {"kind": "subprocess_differs", "where": "initial_message_only" if only_initial else "reply", "default_version": case["dv"]},
                "msg": f"[{case['tree']} --version {case['dv']}] `python -m kconfserver` stdout line {fd} differs from run_server(default_version={case['dv']}): "
                f"{(a[fd] if fd < len(a) else '<missing>')[:90]!r} vs {(b_[fd] if fd < len(b_) else '<missing>')[:90]!r}",
                "case": case,
            }
        )
    return viols


def run_subprocesses(jobs: List[tuple]) -> List[dict]:
    """the real servers are independent OS processes: run up to 8 at a time (the in-process twins stay sequential, they
    replace sys.stdin/sys.stdout)"""
    from concurrent.futures import ThreadPoolExecutor

    with ThreadPoolExecutor(max_workers=8) as ex:
        return list(ex.map(lambda j: server.run_subprocess(*j[0], **j[1]), jobs))


def conformance(tier: str, seed: int):
    n = 10 if tier == "quick" else 200
    viols: List[dict] = []
    saved = None
    if not os.environ.get("MCK_DEBUG"):
        saved = os.dup(2)
        common.silence_stderr()
    try:
        cases = conformance_traces(tier, n)
        subs = run_subprocesses([((c["files"], list(c["history"])), {"sdkconfig": c["sdk0"], "default_version": c["dv"], "aux": aux_of(c["hand"], c["sdk0"])}) for c in cases])
        for case, sub in zip(cases, subs):
            viols.extend(conformance_one(case, sub))
    finally:
        if saved is not None:
            os.dup2(saved, 2)
            os.close(saved)
    return len(cases), viols

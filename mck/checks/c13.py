"""C13 -- outputs are rewritten only when they change, and a save never loses both copies.

Part A (exploration of generation pairs).  For every generator G and every ordered pair of configurations (a, b):
generate with a (fresh Kconfig / fresh kconfgen run), force every mtime under the output directory to a fixed epoch,
record (st_ino, st_mtime_ns, st_size, bytes) of every file, generate again with b.  Reference for "what b's output is":
G run for b into an empty directory.  If that equals the existing destination (a == b, or a change that is invisible in
this format) the destination must be untouched: same inode, mtime still the epoch, same size, same bytes, and no
mutating file-system operation on it (fault file system in logging mode); for a == b nothing else in the directory
may change either (no stray `.old`).  Otherwise the destination must hold exactly the reference bytes.
Generators: write_config (plain / save_old / write_deprecated / header / through a symlink), write_autoconf (+deprecated),
write_min_config x4, sync_deps' auto.conf, and the real kconfgen click command (in-process, one invocation = one
"process": report singleton reset, environment restored) for every --output format incl. cdep_tree and the in-place
`--config sdkconfig --output config sdkconfig` flow; a subset of formats additionally through `python -m kconfgen`.

Text alphabet of part A.  Besides ASCII and multi-byte UTF-8 the configurations contain string values with every character
that is a line boundary for str.splitlines() but NOT for text-file reading (VT 0x0b, FF 0x0c, FS/GS/RS 0x1c-0x1e, NEL
0x85, U+2028, U+2029): one configuration per character plus one holding all of them (also first / last character of the
value), each regenerated unchanged, changed to / from an ordinary configuration and changed to the next separator.  A
second tree (`sep`) carries the same characters in the Kconfig source itself (string default, symbol prompt, menu title,
comment, help text) so that they reach the outputs that render those (docs, json_menus, the sdkconfig comments) without
any user value.  Any "did it change" decision that is taken on lines instead of on the text is exposed by these.  The
format's own line terminators (LF, CR) are not generated inside values, see ASSUMPTIONS.

Part H (the unchanged clause across PROCESSES).  A build runs one kconfgen process per generation and every interpreter has its
own string-hash seed, so anything that is ordered by a set()/hash can differ between two generations of an unchanged
configuration although it never differs inside one process (and never when all runs share one PYTHONHASHSEED -- the harness
itself runs under PYTHONHASHSEED=0).  For every rename table in which one option has two / three deprecated aliases (plain and
inverted; in one rename file, or split over --sdkconfig-rename and COMPONENT_SDKCONFIG_RENAMES) x configuration: a sequence of
real `python -m kconfgen` subprocesses, each started with another PYTHONHASHSEED of a fixed list (quick 4, thorough 7 seeds),
each writing EVERY output format of the CLI in one invocation (and, as a separate flow, `--config sdkconfig --output config
sdkconfig` in place).  After the first process all mtimes are forced to the epoch; after every later process every destination
must have the same inode, mtime, size and bytes as before it, and nothing else in the directory may change.  Sensitivity
control (independent of the library): bare interpreters started with the same seeds must iterate set(<alias names>) in at least
two different orders (counter H_items_whose_seeds_order_an_alias_set_differently == number of part H items whose table
gives some option two or more aliases).

Part B (fault enumeration over save histories).  One long-lived Kconfig instance (a session) performs 1, 2 or 3 successive
CHANGED saves to the same destination with backup enabled: hist = [c0, c1, .. cn]; the file initially holds the complete
text of c0 (written by an independent instance); the session instance is fresh or has load_config()ed the destination;
before save j it is moved from c(j-1) to c(j) by unset_value()/set_value().  The save is done through the direct API
(`write_config(dest, save_old=True)`), through the config server's `save` request handler or through menuconfig's
`_do_save` (the real functions).  dest is a regular file or a symlink; `.old` initially absent or holding an older complete
configuration.  The whole session runs once crash-free under the logging fault file system, then once per crash point of
EVERY save of the history (before every mutating operation, inside every write at every cut point -- this includes the
chunked-write model of shutil.copyfile used for symlinks), each on a fresh copy of the pre-state with a fresh instance
that really performs the earlier saves.  With new = complete text of c(j) and previous = the content the destination had
just before save j started (= complete text of c(j-1), checked by the crash-free oracle of save j-1), the oracle at every
crash point of save j is:  dest == new  OR  dest.old == previous  OR  (the crash is before the backup step of THIS save has
finished AND dest == previous).  Crash-free, after every save j: dest == new and .old == previous (write_config docstring).
The reference texts come from twins: a fresh instance that replays the same load / set / unset history and saves through the
same function into an empty location.

Destination NAME shapes (part B).  `.old` of <file> is <file> + ".old", whatever the name looks like.  Besides `sdkconfig` the
crash exploration runs over destinations with an extension (sdkconfig.ci), two dots (sdkconfig.esp32.ci), inside a dotted
directory (cfg.d/sdkconfig.esp32s3, cfg.d/sdkconfig), a dot-file (.config; thorough: .config.ci, cfg.d/.config), a plain
sub-directory (build/sdkconfig), each as a regular file and as a symlink (the link carries the name; its target lives
elsewhere under another name).  Sibling configurations: two destinations of ONE directory (sdkconfig.a / sdkconfig.b; sdkconfig /
sdkconfig.ci; thorough also cfg.d/sdkconfig.esp32 / cfg.d/sdkconfig.esp32s3 and .config / .config.b), each with its own instance
and history, saved alternately (A, B; A, B, A; thorough A, B, A, B) with every crash point of the last save; the oracle above is
applied to the destination being saved with ITS `.old`, and in addition the other destination and its `.old` must hold, after the
save and at every crash point of it, exactly the bytes they held when the save started (a save of one configuration never touches
its sibling's copies: the sibling's completed save left dest == its new and .old == its previous, and that must stay so).
"""

from __future__ import annotations

import itertools
import os
import shutil
import subprocess
import sys
from typing import Any, Callable, Dict, List, Optional, Tuple

from .. import common, faultfs, impl

ID = "C13"
LEVEL = "fault_enumeration"
RULE = (
    "part A: every generator (13 library variants, 2 front-end saves, 10 in-process kconfgen flows, 3/9 kconfgen subprocess "
    "flows) x ordered pairs of configurations (a, b): all pairs incl. a == b of the ordinary alphabet; for each of the 9 "
    "configurations whose string value holds a str.splitlines()-only line boundary: unchanged, to and from an ordinary "
    "configuration, to the next separator configuration (thorough: every ordered pair of ordinary + separator configurations); "
    "all 9 pairs of 3 configurations of the `sep` tree whose Kconfig texts (default, prompt, menu, comment, help) hold the "
    "separators. Three real generations per pair (a, then b over it, b into an empty directory). "
    "part B: a session of n successive changed saves c0 -> c1 -> .. -> cn by ONE instance over a destination holding c0: "
    "n = 1 for every ordered pair with different texts (direct API, fresh instance, write_deprecated {False, True}, .old absent / "
    "older .old present); n = 1, 2, 3 over a 3-configuration alphabet (thorough: 4) with consecutive members different x save "
    "function {write_config(save_old=True), kconfserver save request, menuconfig _do_save} x instance {fresh, has loaded the "
    "destination} (thorough: x older .old present, x write_deprecated for the direct API); all x {regular file, relative symlink, "
    "absolute symlink (thorough)}; crash-free session, then every crash point of every save of the session (before each mutating "
    "FS operation; inside each write at 0 / every line boundary / middle of last line / all-but-one), each on a fresh copy of the "
    "pre-state with a fresh instance that performs the earlier saves for real; a crash inside save j depends on c0..cj only and "
    "every session prefix is a work item of its own, so each (prefix, crash point) is executed once: by the item whose last save "
    "it is. evaluations = generation pairs + executed crash "
    "points + crash-free saves + part H regenerations. "
    "part H: rename tables {one option with 2 aliases, with 3 aliases (plain + inverted), aliases of one option split over two rename files} "
    "(thorough: + one alias per option) x configurations (quick 2, thorough 4; thorough also the `sep` tree) x one sequence of kconfgen "
    "SUBPROCESSES with PYTHONHASHSEED 0,1,2,3 (thorough 0..6), all 9 output formats per invocation, plus the in-place config flow per table: "
    "every process after the first must leave every output untouched (inode, mtime, size, bytes). "
    "part B name shapes: destination names {extension, two dots, dotted directory + extension, dotted directory, dot-file, sub-directory} "
    "(thorough + dot-file with extension, dot-file in dotted directory) x {regular, symlink (thorough + absolute)} x sessions of 1 save "
    "(every save function, .old absent / older present) and 2 saves (quick: direct API; thorough: every function); sibling pairs of one "
    "directory saved alternately (orders AB, ABA; thorough ABAB) x 2 assignments of histories x save function x {fresh, loaded} x dest kind x "
    "older .old, crash points of the last save, with the additional clause that the sibling's dest and .old keep their bytes. "
    "distinct_nontrivial = distinct (generator, unchanged|changed, previous bytes, new bytes) of "
    "part A and distinct (save function, destination kind, older .old, loaded, first|later save, crash operation, surviving "
    "pattern of dest, surviving pattern of .old) of part B."
)
ASSUMPTIONS = [
    "'unchanged' is decided on the output: the same generator run for b into an empty directory produces the bytes already in the "
    "destination (this is what the docstrings of write_config/write_autoconf/sync_deps promise); mtimes are compared with a forced "
    "epoch, never with the clock",
    "an in-process kconfgen invocation stands for a process: KconfigReport singleton reset() before, os.environ restored after; "
    "kconfgen's temp files live in TMPDIR (the run directory on tmpfs)",
    "crash model: process death, completed operations persist, no reordering; shutil.copyfile is modelled as create/truncate + one "
    "write with cut points; 'complete configuration' = byte-identical to the full text",
    "part B third disjunct as decided in DESIGN.md C13: dest == complete previous counts while the backup has not finished = the "
    "crash precedes the open(dest, 'w') of the new text within the save that is interrupted, or no operation of that save on the "
    "destination itself has completed yet",
    "in a session 'previous' of save j is the content the destination had just before save j started, i.e. the complete text the "
    "(crash-free) save j-1 left there; 'new' is what a twin instance with the same load/set/unset history writes into an empty "
    "location through the same save function; a history with two consecutive equal texts is skipped (that save is not a changed "
    "save, part A covers it)",
    "part H: 'a process' is a real `python -m kconfgen` subprocess; the ONLY thing varied between the successive processes is "
    "PYTHONHASHSEED (fixed list, so the run is deterministic); no operation log is available for a subprocess, the destination's inode / "
    "mtime (forced epoch) / size / bytes are compared; seeds are only useful if they order a set of the alias names differently, which is "
    "measured by the control counter, not assumed",
    "part B names: the backup of <file> is the file named <file>.old in the same directory for every file name (write_config docstring: "
    "'<filename>.old'); for a symlink destination it is <link>.old next to the link; a save of one destination does not modify another "
    "configuration file of the directory nor that file's .old (sibling clause)",
    "string values never contain the line terminators of the line-oriented output formats themselves (\\n, \\r): such a value is "
    "not representable in sdkconfig (load_config would split the line) -- observed while widening: a bare \\r in a value makes every "
    "_contents_eq/_write_if_changed comparison fail because reading translates it to \\n; not generated, reported separately",
]

EPOCH_NS = 1_000_000_000 * 10**9

TREE = '''mainmenu "T"

config FOO_BAR
    bool "foo bar"
    help
        Foo bar help.

menu "M1"

config B
    bool "b"
    default y
    help
        B help.

config N
    int "n"
    default 5
    range 0 100
    help
        N help.

config H
    hex "h"
    default 0x1f
    help
        H help.

endmenu

comment "a comment"

config S
    string "s"
    default "a\\"b\\\\c d"
    help
        S help.

config U
    int "u"
    depends on B
    default 1
    help
        U help.

config NEWP
    bool "newp"
    help
        NEWP help.

config NEWI
    bool "newi"
    default y
    help
        NEWI help.
'''
RENAMES = "CONFIG_OLDP CONFIG_NEWP\nCONFIG_OLD_I !CONFIG_NEWI\nCONFIG_OLDN CONFIG_N\n"
FILES = {"Kconfig": TREE, "sdkconfig.rename": RENAMES}

CONFIGS_QUICK: List[Dict[str, str]] = [
    {},
    {"FOO_BAR": "y", "N": "7"},
    {"B": "n"},
    {"S": 'x\\y"z', "H": "0x2a"},
    {"NEWP": "y", "NEWI": "n"},
    {"N": "5"},  # user value equal to the default: only the `# default:` marker of sdkconfig changes
    {"S": "caf\u00e9 \u4e2d"},  # multi-byte UTF-8 in every output (bytes on disk != characters)
]
CONFIGS_THOROUGH = CONFIGS_QUICK + [
    {"U": "6", "B": "n"},  # hidden user value
    {"S": ""},
    {"NEWI": "n"},
    {"FOO_BAR": "y", "N": "7", "S": "line", "NEWP": "y"},
]

# Line boundaries of str.splitlines() that are NOT line boundaries when a text file is read (universal newlines know \n, \r, \r\n).
SEP_CHARS = ["\x0b", "\x0c", "\x1c", "\x1d", "\x1e", "\x85", "\u2028", "\u2029"]
SEP_CONFIGS: List[Dict[str, str]] = [{"S": f"p{c}q"} for c in SEP_CHARS] + [{"S": "\u2028a\x0b\x0c b\x1c\x1d\x1e\x85c\u2029", "N": "7"}]
SEP_BYTES = [c.encode("utf-8") for c in SEP_CHARS]

# The same characters in the Kconfig source: default value, symbol prompt, menu title, comment, help text.
TREE_SEP = (
    TREE.replace('default "a\\"b\\\\c d"', 'default "d' + "".join(f"{i}{c}" for i, c in enumerate(SEP_CHARS)) + 'e"')
    .replace('comment "a comment"', 'comment "a\x0ccom\x1ement\u2029"')
    .replace('menu "M1"', 'menu "M\x1d1\u2028"')
    .replace("N help.", "N\x0bhe\x85lp\x1c.")
    .replace('int "n"', 'int "n \x0c n"')
)
assert TREE_SEP.count("\x0c") == 3 and all(TREE_SEP.count(c) >= 2 for c in SEP_CHARS), "TREE_SEP was not built"
TREES = {"base": FILES, "sep": {"Kconfig": TREE_SEP, "sdkconfig.rename": RENAMES}}
SEP_TREE_CONFIGS: List[Dict[str, str]] = [{}, {"N": "7"}, {"S": "p\x0cq"}]

# part B sessions: indices into CONFIGS_QUICK (pairwise different texts in every save function's format)
HIST_QUICK = (0, 1, 3)
HIST_THOROUGH = (0, 1, 3, 4)
HIST_OLDER = 2  # the configuration of a pre-existing older `.old`
SAVERS = ("write_config", "kconfserver:save", "menuconfig:_do_save")

# part B destination NAME shapes: (destination relative to the project directory, file a symlink destination points to).
# "plain" is the name of all other part B families.  The backup of <file> is <file>.old whatever dots <file> has.
DEST_SHAPES = {
    "extension": ("sdkconfig.ci", "real/ci.cfg"),
    "two_dots": ("sdkconfig.esp32.ci", "real/esp32.ci.cfg"),
    "dotted_dir/extension": ("cfg.d/sdkconfig.esp32s3", "real.d/esp32s3.cfg"),
    "dotted_dir/plain": ("cfg.d/sdkconfig", "real.d/sdkconfig"),
    "dotfile": (".config", "real/.config"),
    "subdir/plain": ("build/sdkconfig", "real/sdkconfig"),
    "dotfile_extension": (".config.ci", "real/.ci.cfg"),
    "dotted_dir/dotfile": ("cfg.d/.config", "real.d/.config"),
}
SHAPES_QUICK = ("extension", "two_dots", "dotted_dir/extension", "dotted_dir/plain", "dotfile", "subdir/plain")
# sibling configurations in ONE directory, saved alternately (each keeps its own .old)
SIBLINGS_QUICK = [("sdkconfig.a", "sdkconfig.b"), ("sdkconfig", "sdkconfig.ci")]
SIBLINGS_THOROUGH = SIBLINGS_QUICK + [("cfg.d/sdkconfig.esp32", "cfg.d/sdkconfig.esp32s3"), (".config", ".config.b")]
SIBLING_HISTS = ((0, 1, 3), (4, 5, 6))  # indices into CONFIGS_QUICK: all six texts differ from each other and from HIST_OLDER


# --------------------------------------------------------------------------------------------------
# environment: tree + configurations -> instances / sdkconfig texts
# --------------------------------------------------------------------------------------------------


class Env:
    def __init__(self, files: Dict[str, str]):
        self.files = files
        self.root = os.path.join(impl.wdir(), "c13")
        self.kpath = impl.put_program(files)
        self.rpath = os.path.join(os.path.dirname(self.kpath), "sdkconfig.rename")
        self._sdk: Dict[str, str] = {}

    def inst(self, cfg: Dict[str, str]):
        i = impl.Inst(self.files)
        i.k.load_rename_files([self.rpath])
        for name in sorted(cfg):
            i.k.syms[name].set_value(cfg[name])
        return i

    def sdkconfig_text(self, cfg: Dict[str, str]) -> str:
        key = repr(sorted(cfg.items()))
        if key not in self._sdk:
            self._sdk[key] = self.inst(cfg).config_text()
        return self._sdk[key]

    def fresh(self, tag: str) -> str:
        d = os.path.join(self.root, tag)
        if os.path.lexists(d):
            shutil.rmtree(d)
        os.makedirs(d)
        return d


_envs: Dict[str, Env] = {}


def env(tree: str = "base") -> Env:
    if tree not in _envs:
        _envs[tree] = Env(TREES[tree])
    return _envs[tree]


# --------------------------------------------------------------------------------------------------
# generators
# --------------------------------------------------------------------------------------------------


class Gen:
    def __init__(self, name: str, site: str, dest: str, run: Callable[[Env, Dict[str, str], str], None], prepare: Optional[Callable[[str], None]] = None, same_only: bool = False):
        self.name, self.site, self.dest, self.run, self.prepare, self.same_only = name, site, dest, run, prepare, same_only


def _api(fn: Callable[[Any, str], Any], dest: str):
    def run(e: Env, cfg: Dict[str, str], d: str) -> None:
        fn(e.inst(cfg).k, os.path.join(d, dest))

    return run


def _prep_symlink(d: str) -> None:
    os.mkdir(os.path.join(d, "real"))
    os.symlink(os.path.join("real", "sdkconfig.real"), os.path.join(d, "sdkconfig"))


def link_paths(dest: str, link: int) -> List[str]:
    """relative paths (under the generation directory) of a destination reached through `link` symlinks: [dest, (hop,) real file]"""
    base = os.path.basename(dest)
    return [dest] + ([os.path.join("hop", base + ".lnk")] if link == 2 else []) + [os.path.join("real", base + ".real")]


def prep_links(d: str, dest: str, link: int) -> None:
    """dest becomes a RELATIVE symlink; with link == 2 it points to a second, ABSOLUTE symlink in another directory.  The chain ends at a
    not yet existing file of the existing directory real/ (the first generation creates it through the link(s))."""
    chain = link_paths(dest, link)
    for rel in chain:
        os.makedirs(os.path.dirname(os.path.join(d, rel)) or d, exist_ok=True)
    for n, (src, dst) in enumerate(zip(chain, chain[1:])):
        target = os.path.relpath(os.path.join(d, dst), os.path.dirname(os.path.join(d, src))) if n == 0 else os.path.join(d, dst)
        os.symlink(target, os.path.join(d, src))


KCONFGEN_FORMATS = ("config", "header", "cmake", "docs", "json", "json_menus", "savedefconfig", "report", "cdep_tree")


def kconfgen_args(e: Env, fmt: str, d: str, inplace: bool) -> Tuple[List[str], str]:
    sdk = os.path.join(d, "sdkconfig" if inplace else "in.sdkconfig")
    out = sdk if inplace else os.path.join(d, "deps" if fmt == "cdep_tree" else "out." + fmt)
    args = ["--kconfig", e.kpath, "--config", sdk, "--sdkconfig-rename", e.rpath, "--env", "IDF_TARGET=esp32", "--output", fmt, out]
    return args, sdk


def kconfgen_inprocess(args: List[str]) -> None:
    """One kconfgen invocation = one process: no report state carried over, environment restored afterwards."""
    import threading

    import esp_kconfiglib.report as rep
    import kconfgen.core as kg

    if rep.KconfigReport._instance is not None:
        rep.KconfigReport._instance.reset()
    saved_env = dict(os.environ)
    hooks = (sys.excepthook, getattr(threading, "excepthook", None))
    try:
        kg.main.main(args=list(args), standalone_mode=False)
    finally:
        for k in list(os.environ):
            if k not in saved_env:
                del os.environ[k]
        for k, v in saved_env.items():
            if os.environ.get(k) != v:
                os.environ[k] = v
        sys.excepthook = hooks[0]
        if hooks[1] is not None:
            threading.excepthook = hooks[1]


def _kconfgen(fmt: str, how: str, inplace: bool = False):
    def run(e: Env, cfg: Dict[str, str], d: str) -> None:
        args, sdk = kconfgen_args(e, fmt, d, inplace)
        if not (inplace and os.path.exists(sdk)):
            with open(sdk, "w") as f:  # the project configuration kconfgen reads (in place: only the first time)
                f.write(e.sdkconfig_text(cfg))
            os.utime(sdk, ns=(EPOCH_NS, EPOCH_NS))
        if how == "inprocess":
            kconfgen_inprocess(args)
        else:
            ev = dict(os.environ)
            ev["TMPDIR"] = common.RUN_DIR
            p = subprocess.run([sys.executable, "-m", "kconfgen"] + args, env=ev, cwd=d, stdout=subprocess.PIPE, stderr=subprocess.PIPE, text=True, timeout=300)
            if p.returncode != 0:
                raise RuntimeError(f"kconfgen exited with {p.returncode}: {p.stderr[-300:]}")

    return run


def _server_save(k, p) -> None:
    import kconfserver.core as ks

    err = ks.handle_request(k, {"version": 3, "save": p})
    if err:
        raise RuntimeError(f"kconfserver save reported {err}")


def _menuconfig_save(k, p) -> None:
    import types

    from esp_menuconfig.app import MenuConfigApp

    stub = types.SimpleNamespace(state=types.SimpleNamespace(kconf=k, saved=False), notify=lambda *a, **kw: None)
    if MenuConfigApp._do_save(stub, p) is None:
        raise RuntimeError("menuconfig _do_save failed")


def saver(gen: str, wdep: bool) -> Tuple[str, Callable[[Any, str], None]]:
    """(call site, save function with backup enabled) of a part B save function"""
    if gen == "write_config":
        return "core.py:write_config", lambda k, p: k.write_config(p, save_old=True, write_deprecated=wdep)
    if gen == "kconfserver:save":
        return "kconfserver/core.py:handle_request", _server_save
    if gen == "menuconfig:_do_save":
        return "esp_menuconfig/app.py:_do_save", _menuconfig_save
    raise ValueError(gen)


def generators() -> Dict[str, Gen]:
    g: List[Gen] = [
        Gen("write_config", "core.py:write_config", "sdkconfig", _api(lambda k, p: k.write_config(p, save_old=False), "sdkconfig")),
        Gen("write_config:save_old", "core.py:write_config", "sdkconfig", _api(lambda k, p: k.write_config(p), "sdkconfig")),
        Gen("write_config:deprecated", "core.py:write_config", "sdkconfig", _api(lambda k, p: k.write_config(p, write_deprecated=True), "sdkconfig")),
        Gen("write_config:header", "core.py:write_config", "sdkconfig", _api(lambda k, p: k.write_config(p, header="# hdr\n"), "sdkconfig")),
        Gen("write_config:symlink", "core.py:write_config", "sdkconfig", _api(lambda k, p: k.write_config(p), "sdkconfig"), prepare=_prep_symlink),
        Gen("write_autoconf", "core.py:write_autoconf", "sdkconfig.h", _api(lambda k, p: k.write_autoconf(p), "sdkconfig.h")),
        Gen("write_autoconf:deprecated", "core.py:write_autoconf", "sdkconfig.h", _api(lambda k, p: k.write_autoconf(p, header="/* h */\n", write_deprecated=True), "sdkconfig.h")),
        Gen("sync_deps", "core.py:_write_old_vals", "deps/auto.conf", _api(lambda k, p: k.sync_deps(os.path.dirname(p)), "deps/auto.conf")),
    ]
    for labels, norm in itertools.product((False, True), repeat=2):
        g.append(Gen(f"write_min_config:labels={int(labels)},normalize_unset={int(norm)}", "core.py:write_min_config", "sdkconfig.defaults",
                     _api(lambda k, p, la=labels, no=norm: k.write_min_config(p, labels=la, normalize_unset=no), "sdkconfig.defaults")))
    g.append(Gen("write_min_config:header", "core.py:write_min_config", "sdkconfig.defaults", _api(lambda k, p: k.write_min_config(p, header="# min\n"), "sdkconfig.defaults")))
    for fmt in KCONFGEN_FORMATS:
        dest = "deps/auto.conf" if fmt == "cdep_tree" else "out." + fmt
        site = "kconfgen/core.py:write_cdep_tree" if fmt == "cdep_tree" else f"kconfgen/core.py:update_if_changed({fmt})"
        g.append(Gen(f"kconfgen:{fmt}", site, dest, _kconfgen(fmt, "inprocess")))
        g.append(Gen(f"kconfgen-subprocess:{fmt}", site, dest, _kconfgen(fmt, "subprocess")))
    # the two interactive front ends: the config server's `save` request handler and menuconfig's _do_save (real functions)
    g.append(Gen("kconfserver:save", "kconfserver/core.py:handle_request", "sdkconfig", _api(_server_save, "sdkconfig")))
    g.append(Gen("menuconfig:_do_save", "esp_menuconfig/app.py:_do_save", "sdkconfig", _api(_menuconfig_save, "sdkconfig")))
    g.append(Gen("kconfgen:config:inplace", "kconfgen/core.py:update_if_changed(config)", "sdkconfig", _kconfgen("config", "inprocess", inplace=True), same_only=True))
    return {x.name: x for x in g}


GENS: Optional[Dict[str, Gen]] = None


def gens() -> Dict[str, Gen]:
    global GENS
    if GENS is None:
        GENS = generators()
    return GENS


# --------------------------------------------------------------------------------------------------
# work list
# --------------------------------------------------------------------------------------------------


def histories(alphabet, saves: int) -> List[tuple]:
    """every sequence c0 .. c<saves> over the alphabet whose consecutive members differ"""
    out = [(x,) for x in alphabet]
    for _ in range(saves):
        out = [h + (x,) for h in out for x in alphabet if x != h[-1]]
    return out


def items(tier: str, seed: int):
    quick = tier == "quick"
    cfgs = CONFIGS_QUICK if quick else CONFIGS_THOROUGH
    out: List[dict] = []
    names = [n for n in gens() if not n.startswith("kconfgen-subprocess:")]
    # ---- part A: ordinary alphabet, separator alphabet, separator tree
    if quick:
        pairs = [(cfgs[a], cfgs[b]) for a, b in itertools.product(range(len(cfgs)), repeat=2)]
        for n, sc in enumerate(SEP_CONFIGS):
            pairs += [(sc, sc), (sc, cfgs[1]), (cfgs[1], sc), (sc, SEP_CONFIGS[(n + 1) % len(SEP_CONFIGS)])]
    else:
        allc = cfgs + SEP_CONFIGS
        pairs = [(a, b) for a, b in itertools.product(allc, repeat=2)]
    work = [("base", a, b) for a, b in pairs] + [("sep", a, b) for a, b in itertools.product(SEP_TREE_CONFIGS, repeat=2)]
    for n in names:
        for tree, a, b in work:
            if gens()[n].same_only and a != b:
                continue
            out.append({"part": "A", "gen": n, "a": a, "b": b, "tree": tree})
    # ---- part A with the destination being a symlink / a chain of two symlinks to a regular file (every generator but the one that
    # brings its own link): unchanged regeneration of every configuration, changed both ways, a change that is invisible in most formats
    if quick:
        lpairs = [("base", c, c) for c in cfgs] + [("base", cfgs[x], cfgs[y]) for x, y in ((1, 3), (3, 1), (0, 5), (5, 0))]
        lpairs += [("base", SEP_CONFIGS[-1], SEP_CONFIGS[-1]), ("sep", {}, {})]
    else:
        lpairs = [("base", x, y) for x, y in itertools.product(cfgs, repeat=2)] + [("base", c, c) for c in SEP_CONFIGS]
        lpairs += [("sep", x, y) for x, y in itertools.product(SEP_TREE_CONFIGS, repeat=2)]
    for n in names:
        if gens()[n].prepare is not None:
            continue
        for link in (1, 2):
            for tree, a, b in lpairs:
                if gens()[n].same_only and a != b:
                    continue
                out.append({"part": "A", "gen": n, "a": a, "b": b, "tree": tree, "link": link})
    sub: List[dict] = []
    for fmt in ("config", "header", "json") if quick else KCONFGEN_FORMATS:
        for a, b in ((1, 1), (1, 3)) if quick else ((1, 1), (1, 3), (0, 5), (4, 0)):
            sub.append({"part": "A", "gen": f"kconfgen-subprocess:{fmt}", "a": cfgs[a], "b": cfgs[b], "tree": "base"})
        sub.append({"part": "A", "gen": f"kconfgen-subprocess:{fmt}", "a": SEP_CONFIGS[-1], "b": SEP_CONFIGS[-1], "tree": "base"})
        if not quick:
            sub.append({"part": "A", "gen": f"kconfgen-subprocess:{fmt}", "a": {}, "b": {}, "tree": "sep"})
            sub.append({"part": "A", "gen": f"kconfgen-subprocess:{fmt}", "a": cfgs[1], "b": cfgs[1], "tree": "base", "link": 2})
    # ---- part H: the unchanged clause across kconfgen PROCESSES with different string-hash seeds, all formats in one invocation
    seeds = H_SEEDS["quick" if quick else "thorough"]
    for tname in ("two_aliases", "three_aliases", "two_files") if quick else tuple(H_TABLES):
        for ci in (1, 4) if quick else (0, 1, 3, 4):
            sub.append({"part": "H", "table": tname, "renames": H_TABLES[tname], "cfg": cfgs[ci], "seeds": seeds, "tree": "base"})
        sub.append({"part": "H", "table": tname, "renames": H_TABLES[tname], "cfg": cfgs[1], "seeds": seeds, "tree": "base", "inplace": True})
    if not quick:
        sub.append({"part": "H", "table": "three_aliases", "renames": H_TABLES["three_aliases"], "cfg": {}, "seeds": seeds, "tree": "sep"})
    # ---- part B: single saves over every ordered pair (direct API, fresh instance)
    kinds = ("regular", "symlink") if quick else ("regular", "symlink", "symlink_abs")
    for a, b in itertools.permutations(range(len(cfgs)), 2):
        for kind in kinds:
            for old in (False, True):
                for wdep in (False, True):
                    older = cfgs[[i for i in range(len(cfgs)) if i not in (a, b)][0]]
                    out.append({"part": "B", "a": cfgs[a], "b": cfgs[b], "older": older if old else None, "kind": kind, "write_deprecated": wdep})
    # ---- part B: sessions of 1..3 successive changed saves by one instance
    alphabet = HIST_QUICK if quick else HIST_THOROUGH
    for saves in (1, 2, 3):
        for h in histories(alphabet, saves):
            for gen in SAVERS:
                for load in (False, True):
                    for kind in kinds:
                        for old in (False,) if quick else (False, True):
                            for wdep in (False, True) if (gen == "write_config" and not quick) else (False,):
                                # a crash inside save j depends on c0..cj only and every prefix of a session is a work item of its own
                                # (same alphabet, same dimensions): each item enumerates the crash points of its LAST save, so that every
                                # (session prefix, crash point) is executed exactly once
                                out.append({"part": "B", "hist": [cfgs[i] for i in h], "gen": gen, "load": load, "older": cfgs[HIST_OLDER] if old else None,
                                            "kind": kind, "write_deprecated": wdep, "crash_in": "last_save"})
    # ---- part B: destination name shapes (one destination): 1 save by every save function, 2 saves (thorough: every function)
    for shape in SHAPES_QUICK if quick else tuple(DEST_SHAPES):
        name, real = DEST_SHAPES[shape]
        assert name_shape(name) == shape, (name, shape)
        for saves in (1, 2):
            for h in histories(alphabet, saves):
                for gen in SAVERS if (saves == 1 or not quick) else ("write_config",):
                    for kind in kinds:
                        for old in (False, True) if (saves == 1 or not quick) else (False,):
                            out.append({"part": "B", "hist": [cfgs[i] for i in h], "gen": gen, "load": False, "older": cfgs[HIST_OLDER] if old else None, "kind": kind,
                                        "write_deprecated": False, "crash_in": "last_save", "name": name, "real": real})
    # ---- part B: two sibling configurations of one directory saved alternately (the save of the first alone is the family above)
    for pair in SIBLINGS_QUICK if quick else SIBLINGS_THOROUGH:
        for order in ([0, 1], [0, 1, 0]) if quick else ([0, 1], [0, 1, 0], [0, 1, 0, 1]):
            for hs in (SIBLING_HISTS, SIBLING_HISTS[::-1]):
                tg = [{"name": n, "real": f"real/t{k}.cfg", "hist": [CONFIGS_QUICK[i] for i in hs[k][: order.count(k) + 1]]} for k, n in enumerate(pair)]
                for gen in SAVERS:
                    for load in (False, True):
                        for kind in kinds:
                            for old in (False, True):
                                out.append({"part": "B", "targets": tg, "order": order, "gen": gen, "load": load, "older": cfgs[HIST_OLDER] if old else None, "kind": kind,
                                            "write_deprecated": False, "crash_in": "last_save"})
    # the subprocess items take seconds each: spread them over the list so that they land in different worker chunks
    stride = max(1, len(out) // max(1, len(sub)))
    for n, it in enumerate(sub):
        out.insert(n * (stride + 1), it)
    return out


# --------------------------------------------------------------------------------------------------
# part A
# --------------------------------------------------------------------------------------------------


def site_of(exc: BaseException) -> str:
    import traceback

    for fr in reversed(traceback.extract_tb(exc.__traceback__)):
        if "/mck/" not in fr.filename and "/site-packages/" not in fr.filename:
            return f"{os.path.basename(fr.filename)}:{fr.name}"
    return "?"


def set_epoch_all(d: str) -> None:
    for root, _dirs, fs in os.walk(d):
        for f in fs:
            p = os.path.join(root, f)
            if not os.path.islink(p):
                os.utime(p, ns=(EPOCH_NS, EPOCH_NS))


def full_stat(d: str) -> Dict[str, tuple]:
    """{relpath: (kind, ino, mtime_ns, size, payload)} for every non-directory under d (symlinks are not followed)"""
    out: Dict[str, tuple] = {}
    for root, _dirs, fs in os.walk(d):
        for f in sorted(fs):
            p = os.path.join(root, f)
            st = os.lstat(p)
            rel = os.path.relpath(p, d)
            if os.path.islink(p):
                out[rel] = ("l", st.st_ino, None, None, os.readlink(p))
            else:
                with open(p, "rb") as fh:
                    out[rel] = ("f", st.st_ino, st.st_mtime_ns, st.st_size, fh.read())
    return out


def read_through(p: str) -> Optional[bytes]:
    try:
        with open(p, "rb") as f:
            return f.read()
    except OSError:
        return None


def part_a(e: Env, gen_name: str, a: Dict[str, str], b: Dict[str, str], r: common.Result, link: int = 0) -> None:
    g = gens()[gen_name]
    case = {"part": "A", "gen": gen_name, "a": a, "b": b, "files": e.files, "link": link}
    via = f" [destination reached through {link} symlink(s)]" if link else ""
    same_cfg = a == b

    def generate(tag: str, cfgs: List[Dict[str, str]], log: Optional[list] = None, before: Optional[list] = None) -> Optional[str]:
        d = e.fresh(tag)
        if g.prepare:
            g.prepare(d)
        if link and tag == "A":  # the reference generation (into an empty directory) writes a plain file
            prep_links(d, g.dest, link)
        for n, cfg in enumerate(cfgs):
            last = n == len(cfgs) - 1
            if last and before is not None:
                set_epoch_all(d)
                before.append(full_stat(d))
            try:
                if last and log is not None:
                    with faultfs.FaultFS(d) as fs:
                        g.run(e, cfg, d)
                    log.extend(fs.log)
                else:
                    g.run(e, cfg, d)
            except (Exception, SystemExit) as ex:  # noqa: BLE001 -- observation
                s = site_of(ex)
                r.violation({"kind": "exception", "exc": type(ex).__name__, "site": s, "gen": gen_name, "generation": n},
                            f"{gen_name}: generation #{n} for {cfg} raised {type(ex).__name__}: {ex} at {s}", case)
                return None
        return d

    log: List[dict] = []
    bef: List[dict] = []
    d = generate("A", [a, b], log, bef)
    if d is None:
        return
    after = full_stat(d)
    before = bef[0]
    dref = generate("Aref", [b])
    if dref is None:
        return
    r.evals += 1
    # the destination, followed through a symlink
    drel = g.dest
    real_rel = os.path.relpath(os.path.realpath(os.path.join(d, drel)), os.path.realpath(d))
    ref = read_through(os.path.join(dref, drel))
    if link:
        # the scenario itself, measured: before the second generation dest is a link (chain of `link` links) ending at a regular file
        shape = [before.get(rel, ("-",))[0] for rel in link_paths(drel, link)]
        if shape != ["l"] * link + ["f"]:
            r.count("A_link_destination_not_preserved_by_first_generation")  # nothing promises it for a first write: counted
            return
        r.count(f"A_destination_through_{link}_symlink{'s' if link > 1 else ''}")
        real_rel = link_paths(drel, link)[-1]  # where the chain ended BEFORE the generation under test
    chain = sorted({real_rel, drel} | (set(link_paths(drel, link)) if link else set()))
    prev = before.get(real_rel, (None,) * 5)[4]
    new = read_through(os.path.join(d, drel)) if link else after.get(real_rel, (None,) * 5)[4]  # changed case: what dest now reads as
    if ref is None or prev is None:
        # observation, not a harness error: a generation completed without raising and its destination does not exist
        r.violation({"kind": "output_missing_after_generation", "site": g.site, "gen": gen_name, "generation": "first" if prev is None else "into_empty_directory"},
                    f"{gen_name}: {drel} does not exist after generating {a if prev is None else b} "
                    f"(files present: {sorted(before if prev is None else full_stat(dref))})", case)
        return
    if any(c in prev for c in SEP_BYTES) or any(c in ref for c in SEP_BYTES):
        # measured coverage of the text alphabet: a splitlines()-only line boundary really reached this output
        r.count("A_separator_in_" + ("unchanged" if ref == prev else "changed") + "_output")
    if ref == prev:
        r.count("A_unchanged_output" + ("" if same_cfg else "_for_changed_configuration"))
        r.outcome(("A", gen_name, "unchanged", common.h64(_norm(e, prev))) + ((link,) if link else ()))
        diffs = []
        for rel in chain:  # the real file and every link leading to it: kind, inode, mtime / link text, size, bytes
            x, y = before.get(rel), after.get(rel)
            if x != y:
                names = ("kind", "st_ino", "st_mtime_ns", "st_size", "bytes")
                diffs += [names[i] for i in range(5) if y is None or x[i] != y[i]]
        ops = [o["op"] for o in log if o["path"] in chain]
        if diffs or ops:
            r.violation(
                {"kind": "unchanged_output_rewritten", "site": g.site, "gen": gen_name, "changed": "+".join(sorted(set(diffs))) or "none", "ops": "+".join(sorted(set(ops))) or "none", "same_configuration": same_cfg, **({"dest_links": link} if link else {})},
                f"{gen_name}{via}: regenerating {'the same configuration ' + str(a) if same_cfg else str(b) + ' over ' + str(a) + ' (identical output)'} touched {drel}: "
                f"changed {sorted(set(diffs))}, operations {ops}", case)
        if same_cfg:
            other = sorted(rel for rel in set(before) | set(after) if rel not in chain and before.get(rel) != after.get(rel))
            if other:
                r.violation(
                    {"kind": "unchanged_regeneration_modifies_other_file", "site": g.site, "gen": gen_name, "files": "+".join(_classify_other(x) for x in other), **({"dest_links": link} if link else {})},
                    f"{gen_name}{via}: regenerating the same configuration {a} modified / created {other}", case)
    else:
        r.count("A_changed_output")
        r.outcome(("A", gen_name, "changed", common.h64(_norm(e, prev)), common.h64(_norm(e, ref))) + ((link,) if link else ()))
        if new != ref:
            r.violation(
                {"kind": "changed_output_not_written", "site": g.site, "gen": gen_name, "result": "old_bytes" if new == prev else "missing" if new is None else "other_bytes", **({"dest_links": link} if link else {})},
                f"{gen_name}{via}: generating {b} over the output of {a} left {new!r}, a generation into an empty directory gives {ref!r}", case)
        if gen_name in ("write_config:save_old", "write_config:symlink"):
            old = read_through(os.path.join(d, drel + ".old"))
            if old != prev:
                r.violation({"kind": "backup_is_not_previous", "site": "core.py:_save_old", "gen": gen_name, "result": "missing" if old is None else "other_bytes"},
                            f"{gen_name}: after saving {b} over {a}, {drel}.old holds {old!r} instead of the previous configuration", case)
        if gen_name == "write_config:symlink" and not os.path.islink(os.path.join(d, drel)):
            r.count("A_symlink_replaced_by_save")  # only a source comment ("Preserve symlinks") promises this: counted, not a violation
        if link and any(before[rel] != after.get(rel) for rel in chain if before.get(rel, ("-",))[0] == "l"):
            r.count("A_link_replaced_by_changed_generation")  # only a source comment ("Preserve symlinks") promises this: counted, not a violation


def _norm(e: Env, data: bytes) -> bytes:
    """outputs may embed the per-worker scratch path of the Kconfig file (json_menus ids): not part of a counted outcome"""
    base = os.path.dirname(e.kpath)
    return data.replace(base.encode(), b"<K>").replace(base.replace("/", "-").lstrip("-").encode(), b"<K>")


def _classify_other(rel: str) -> str:
    return "old" if rel.endswith(".old") else "cdep" if rel.endswith(".cdep") else "auto.conf" if rel.endswith("auto.conf") else "input" if "sdkconfig" in rel else "other"


# --------------------------------------------------------------------------------------------------
# part H: unchanged regeneration by SEPARATE kconfgen processes whose string hashing differs
# --------------------------------------------------------------------------------------------------

# rename tables over the options of TREE: one option with two / three deprecated aliases (plain and inverted), aliases of one
# option coming from two rename files (--sdkconfig-rename + COMPONENT_SDKCONFIG_RENAMES); "single" (one alias per option) is
# the table of part A
H_TABLES: Dict[str, List[str]] = {
    "single": [RENAMES],
    "two_aliases": ["CONFIG_OLDN CONFIG_N\nCONFIG_OLD_N2 CONFIG_N\nCONFIG_OLDP CONFIG_NEWP\nCONFIG_OLD_P2 CONFIG_NEWP\nCONFIG_OLD_I !CONFIG_NEWI\n"],
    "three_aliases": [
        "CONFIG_OLDN CONFIG_N\nCONFIG_OLD_N2 CONFIG_N\nCONFIG_LEGACY_N CONFIG_N\n"
        "CONFIG_OLDS CONFIG_S\nCONFIG_OLD_S2 CONFIG_S\nCONFIG_SS_OLD CONFIG_S\n"
        "CONFIG_OLD_I !CONFIG_NEWI\nCONFIG_OLD_I2 CONFIG_NEWI\nCONFIG_NOT_NEWI !CONFIG_NEWI\nCONFIG_OLDH CONFIG_H\n"
    ],
    "two_files": [
        "CONFIG_OLDN CONFIG_N\nCONFIG_OLDP CONFIG_NEWP\nCONFIG_OLD_B CONFIG_B\n",
        "CONFIG_OLD_N2 CONFIG_N\nCONFIG_OLD_P2 !CONFIG_NEWP\nCONFIG_OLD_B2 CONFIG_B\nCONFIG_OLD_B3 CONFIG_B\n",
    ],
}
# PYTHONHASHSEED of the successive kconfgen processes (fixed lists; what a build system's fresh interpreters pick at random)
H_SEEDS = {"quick": [0, 1, 2, 3], "thorough": [0, 1, 2, 3, 4, 5, 6]}


def alias_groups(renames: List[str]) -> List[List[str]]:
    """deprecated names per replacement option, groups of two or more only (file order)"""
    groups: Dict[str, List[str]] = {}
    for text in renames:
        for line in text.splitlines():
            old, new = line.split()
            groups.setdefault(new.lstrip("!"), []).append(old[len("CONFIG_"):])
    return [g for g in groups.values() if len(g) > 1]


def hash_control(groups: List[List[str]], seeds: List[int]) -> int:
    """sensitivity control, independent of the implementation: number of distinct iteration orders of set(<alias names>) over
    the seed list, measured in bare interpreters started with these PYTHONHASHSEED values"""
    code = "import sys;print([list(set(g)) for g in %r])" % (groups,)
    seen = set()
    for sd in seeds:
        ev = dict(os.environ)
        ev["PYTHONHASHSEED"] = str(sd)
        seen.add(subprocess.run([sys.executable, "-S", "-c", code], env=ev, stdout=subprocess.PIPE, text=True, timeout=60).stdout)
    return len(seen)


def part_h(e: Env, item: dict, r: common.Result) -> None:
    renames: List[str] = item["renames"]
    cfg, seeds, inplace = item["cfg"], [int(x) for x in item["seeds"]], bool(item.get("inplace"))
    fmts = ["config"] if inplace else list(item.get("formats") or KCONFGEN_FORMATS)
    case = {"part": "H", "renames": renames, "cfg": cfg, "seeds": seeds, "inplace": inplace, "formats": fmts, "files": e.files}
    d = e.fresh("H")
    rfiles = []
    for n, text in enumerate(renames):
        rfiles.append(os.path.join(d, f"rename{n}.txt"))
        with open(rfiles[-1], "w") as f:
            f.write(text)
    sdk = os.path.join(d, "sdkconfig" if inplace else "in.sdkconfig")
    with open(sdk, "w") as f:
        f.write(e.sdkconfig_text(cfg))
    dests = {fmt: ("sdkconfig" if inplace else "deps/auto.conf" if fmt == "cdep_tree" else "out." + fmt) for fmt in fmts}
    args = ["--kconfig", e.kpath, "--config", sdk, "--sdkconfig-rename", rfiles[0], "--env", "IDF_TARGET=esp32"]
    for fmt in fmts:
        args += ["--output", fmt, os.path.join(d, "deps" if fmt == "cdep_tree" else dests[fmt])]
    groups = alias_groups(renames)
    what = f"kconfgen processes with PYTHONHASHSEED {seeds}, {'in place, ' if inplace else ''}rename table {renames}, configuration {cfg}"
    if groups and hash_control(groups, seeds) > 1:
        r.count("H_items_whose_seeds_order_an_alias_set_differently")  # the seed list can expose a set()-ordered alias list
    prev: Optional[Dict[str, tuple]] = None
    for n, sd in enumerate(seeds):
        ev = dict(os.environ)
        ev.update({"TMPDIR": common.RUN_DIR, "PYTHONHASHSEED": str(sd), "COMPONENT_SDKCONFIG_RENAMES": " ".join(rfiles[1:])})
        p = subprocess.run([sys.executable, "-m", "kconfgen"] + args, env=ev, cwd=d, stdout=subprocess.PIPE, stderr=subprocess.PIPE, text=True, timeout=300)
        r.count("H_kconfgen_processes")
        if p.returncode != 0:
            r.violation({"kind": "exception", "exc": "kconfgen_exit_status", "site": "kconfgen/core.py:main", "gen": "kconfgen-processes", "generation": "first" if n == 0 else "later"},
                        f"{what}: process #{n} exited with {p.returncode}: {p.stderr[-300:]}", case)
            return
        cur = full_stat(d)
        if prev is not None:
            r.evals += 1
            for fmt in fmts:
                drel = dests[fmt]
                site = "kconfgen/core.py:write_cdep_tree" if fmt == "cdep_tree" else f"kconfgen/core.py:update_if_changed({fmt})"
                x, y = prev.get(drel), cur.get(drel)
                if x is None:
                    r.violation({"kind": "output_missing_after_generation", "site": site, "gen": f"kconfgen-processes:{fmt}", "generation": "first"},
                                f"{what}: {drel} does not exist after process #{n - 1}", case)
                    continue
                r.count("H_unchanged_regenerations")
                r.outcome(("H", fmt, inplace, len(groups), common.h64(_norm(e, x[4]))))
                if x != y:
                    names = ("kind", "st_ino", "st_mtime_ns", "st_size", "bytes")
                    diffs = [names[i] for i in range(5) if y is None or x[i] != y[i]]
                    r.violation(
                        {"kind": "unchanged_output_rewritten", "site": site, "gen": f"kconfgen-processes:{fmt}", "changed": "+".join(sorted(set(diffs))), "ops": "not_observable",
                         "same_configuration": True, "across": "processes_with_other_hash_seed", "max_aliases_per_option": max([len(g) for g in groups] or [1]), "rename_files": len(renames)},
                        f"{what}: process #{n} (PYTHONHASHSEED={sd}) regenerated the unchanged configuration and touched {drel}: changed {diffs}"
                        + (f"; first differing line: {_first_diff(x[4], y[4])}" if y is not None and x[4] != y[4] else ""), case)
            other = sorted(rel for rel in set(prev) | set(cur) if rel not in dests.values() and prev.get(rel) != cur.get(rel))
            if other:
                r.violation({"kind": "unchanged_regeneration_modifies_other_file", "site": "kconfgen/core.py:main", "gen": "kconfgen-processes", "files": "+".join(sorted({_classify_other(x) for x in other})),
                             "across": "processes_with_other_hash_seed"},
                            f"{what}: process #{n} (PYTHONHASHSEED={sd}) regenerated the unchanged configuration and modified / created {other}", case)
        set_epoch_all(d)
        prev = full_stat(d)


def _first_diff(a: bytes, b: bytes) -> str:
    la, lb = a.splitlines(), b.splitlines()
    for x, y in zip(la, lb):
        if x != y:
            return f"{x!r} -> {y!r}"
    return f"length {len(la)} -> {len(lb)} lines"


# --------------------------------------------------------------------------------------------------
# part B
# --------------------------------------------------------------------------------------------------


def pattern(data: Optional[bytes], new: bytes, prev: bytes, others: List[Tuple[str, Optional[bytes]]]) -> str:
    if data is None:
        return "missing"
    if data == new:
        return "NEW"
    if data == prev:
        return "PREV"
    for name, text in others:
        if text is not None and data == text:
            return name
    if data == b"":
        return "empty"
    if new.startswith(data):
        return "prefix_of_NEW"
    if prev.startswith(data):
        return "prefix_of_PREV"
    return "other"


def op_class(op: dict, cut: Optional[int], dest_rels: Tuple[str, ...]) -> str:
    what = "dest" if op["path"] in dest_rels else "old" if op["path"].endswith(".old") else "other"
    s = f"{op['op']}:{what}"
    if op["op"] == "write" and cut is not None:
        s += ":cut=0" if cut == 0 else ":cut=all_but_one" if cut == op["n"] - 1 else ":cut=inside"
    return s


def _step(k, before: Dict[str, str], after: Dict[str, str]) -> None:
    """moves a session instance from configuration `before` to configuration `after`"""
    for name in sorted(before):
        if name not in after:
            k.syms[name].unset_value()
    for name in sorted(after):
        k.syms[name].set_value(after[name])


def _save_to_empty(save: Callable[[Any, str], None], k) -> bytes:
    p = impl.tmpfile("c13ref")
    save(k, p)
    data = read_through(p)
    for q in (p, p + ".old"):
        if os.path.lexists(q):
            os.unlink(q)
    if data is None:
        raise ReferenceSaveFailed("a completed save (no fault injected) left nothing at the destination it was asked to write")
    return data


class ReferenceSaveFailed(Exception):
    """an observation about the implementation, not a harness error: reported as a violation by run_item / replay"""


def session_texts(e: Env, save: Callable[[Any, str], None], hist: List[Dict[str, str]], load: bool) -> List[bytes]:
    """texts[0]: what an independent instance holding hist[0] saves; texts[j]: what a twin of the session (same load, same
    set/unset history up to step j) saves into an empty location"""
    texts = [_save_to_empty(save, e.inst(hist[0]).k)]
    for j in range(1, len(hist)):
        i = e.inst({})
        if load:
            p = impl.tmpfile("c13load")
            with open(p, "wb") as f:
                f.write(texts[0])
            i.k.load_config(p)
            os.unlink(p)
        for m in range(1, j + 1):
            _step(i.k, hist[m - 1], hist[m])
        texts.append(_save_to_empty(save, i.k))
    return texts


def name_shape(name: str) -> str:
    """class of a destination file name: where its dots are"""
    dname, base = os.path.split(name)
    shape = "dotfile" if base.startswith(".") else ""
    dots = base.lstrip(".").count(".")
    shape += ("_" if shape and dots else "") + ("" if not dots else "extension" if dots == 1 else "two_dots")
    shape = shape or "plain"
    return ("dotted_dir/" if "." in dname else "subdir/" if dname else "") + shape


def b_targets(item: dict) -> Tuple[List[dict], List[int]]:
    """(targets, order): targets = [{"name": destination relative to the project directory, "real": file a symlink destination points
    to, "hist": [c0, c1, ..]}], order = the target of each successive save.  One target saved n times unless the item names siblings."""
    if "targets" in item:
        return [dict(t) for t in item["targets"]], [int(x) for x in item["order"]]
    hist = item["hist"] if "hist" in item else [item["a"], item["b"]]
    return [{"name": item.get("name", "sdkconfig"), "real": item.get("real", "real/sdkconfig.real"), "hist": hist}], [0] * (len(hist) - 1)


def part_b(e: Env, item: dict, r: common.Result, only: Optional[list] = None) -> None:
    targets, order = b_targets(item)
    gen, load = item.get("gen", "write_config"), bool(item.get("load", False))
    older_cfg, kind, wdep = item["older"], item["kind"], item["write_deprecated"]
    nsaves = len(order)
    site, save = saver(gen, wdep)
    case = dict(item)
    case["files"] = e.files
    case["crash"] = None
    nt = len(targets)

    texts = [session_texts(e, save, t["hist"], load) for t in targets]
    older = _save_to_empty(save, e.inst(older_cfg).k) if older_cfg is not None else None
    if any(tx[j] == tx[j - 1] for tx in texts for j in range(1, len(tx))):
        r.skipped += 1  # outside the statement's second sentence: some save of the history saves nothing (part A covers it)
        return
    root = e.fresh("B")
    d = os.path.join(root, "proj")
    os.mkdir(d)
    dests, dest_rels = [], []
    for t, tx in zip(targets, texts):
        dest = os.path.join(d, t["name"])
        os.makedirs(os.path.dirname(dest), exist_ok=True)
        if kind == "regular":
            real = dest
        else:
            real = os.path.join(d, t["real"])
            os.makedirs(os.path.dirname(real), exist_ok=True)
            os.symlink(os.path.relpath(real, os.path.dirname(dest)) if kind == "symlink" else real, dest)
        with open(real, "wb") as f:
            f.write(tx[0])
        if older is not None:
            with open(dest + ".old", "wb") as f:
                f.write(older)
        dests.append(dest)
        dest_rels.append((t["name"], os.path.relpath(real, d)))
    pre = faultfs.snapshot(d)
    shapes = [name_shape(t["name"]) for t in targets]
    sig_name: Dict[str, Any] = {} if shapes[0] == "plain" and nt == 1 else {"dest_name": shapes[0]}
    if nt > 1:
        sig_name = {"dest_name": "+".join(shapes), "siblings": nt}
    hist_str = " ; ".join(f"{t['name']}: " + " -> ".join(str(c) for c in t["hist"]) for t in targets) + (f" ; saves in the order {[targets[i]['name'] for i in order]}" if nt > 1 else "")
    what = f"{gen} session {hist_str} ({kind}, .old {'present' if older is not None else 'absent'}, instance {'loaded from dest' if load else 'fresh'})"
    # global save number k (1-based) -> (target, number of that target's save)
    steps: List[Tuple[int, int]] = []
    cnt = [0] * nt
    for t in order:
        cnt[t] += 1
        steps.append((t, cnt[t]))

    def look() -> List[tuple]:
        return [(read_through(p), read_through(p + ".old"), os.path.islink(p)) for p in dests]

    def session(crash: Optional[tuple], upto: int, seen: Optional[list] = None) -> Tuple[faultfs.FaultFS, List[int]]:
        """the session's saves 1..upto on fresh instances (one per destination); `seen` collects (dest, .old, dest still a symlink) of
        every destination after every save"""
        insts = []
        for p in dests:
            i = e.inst({})
            if load:
                i.k.load_config(p)
            insts.append(i)
        marks: List[int] = []
        with faultfs.FaultFS(d, crash=crash) as fs:
            try:
                for t, j in steps[:upto]:
                    _step(insts[t].k, targets[t]["hist"][j - 1], targets[t]["hist"][j])
                    save(insts[t].k, dests[t])
                    marks.append(len(fs.log))
                    if seen is not None:
                        seen.append(look())
            except faultfs.Crash:
                pass
        return fs, marks

    def names_for(t: int, j: int) -> List[Tuple[str, Optional[bytes]]]:
        out = [(f"EARLIER{j - 1 - m}", texts[t][m]) for m in range(j - 2, -1, -1)] + [("OLDER", older)]
        for u in range(nt):
            if u != t:
                out += [("SIBLING_TEXT", x) for x in texts[u]]
        return out

    def siblings_changed(t: int, before: List[tuple], now: List[tuple]) -> List[str]:
        """files of the OTHER destinations that differ from what they held when this save started"""
        out = []
        for u in range(nt):
            if u != t:
                out += [w for w, x, y in (("dest", before[u][0], now[u][0]), ("old", before[u][1], now[u][1])) if x != y]
        return out

    # ---- crash-free
    initial = look()
    seen: List[list] = []
    try:
        fs, marks = session(None, nsaves, seen)
    except Exception as ex:  # noqa: BLE001 -- observation
        s = site_of(ex)
        r.violation({"kind": "exception", "exc": type(ex).__name__, "site": s, "part": "B", "gen": gen, "dest_kind": kind, "save": "first" if not seen else "later", **sig_name},
                    f"{what}: save #{len(seen) + 1} raised {type(ex).__name__}: {ex} at {s}", case)
        return
    dry = fs.log
    for k in range(1, nsaves + 1):
        r.evals += 1
        t, j = steps[k - 1]
        D, O, still_link = seen[k - 1][t]
        new, prev = texts[t][j], texts[t][j - 1]
        if kind != "regular" and not still_link:
            r.count("B_symlink_replaced_by_save")  # only a source comment ("Preserve symlinks") promises this: counted, not a violation
        if D != new or O != prev:
            pd, po = pattern(D, new, prev, names_for(t, j)), pattern(O, new, prev, names_for(t, j))
            r.violation(
                {"kind": "completed_save_wrong", "site": site, "gen": gen, "save": "first" if j == 1 else "later", "dest_kind": kind, "old_present": older is not None,
                 "dest": pd, "old": po, "dest_is_symlink": still_link, **sig_name},
                f"{what}: after the completed save #{k} ({targets[t]['name']}) dest is {pd}, {targets[t]['name']}.old is {po} (expected NEW / PREV), symlink kept: {still_link}; "
                f"files now: {sorted(x for x, v in faultfs.tree_state(d).items() if v is not None)}", case)
        ch = siblings_changed(t, seen[k - 2] if k > 1 else initial, seen[k - 1])
        if ch:
            r.violation(
                {"kind": "save_modifies_sibling_configuration", "site": site, "gen": gen, "dest_kind": kind, "old_present": older is not None, "files": "+".join(ch), "when": "completed_save", **sig_name},
                f"{what}: the completed save #{k} of {targets[t]['name']} changed the {ch} file(s) of the sibling configuration(s) {[x['name'] for n, x in enumerate(targets) if n != t]}", case)
    r.count("B_saves", nsaves)
    r.count("B_sessions")
    if nsaves > 1:
        r.count(f"B_sessions_of_{nsaves}_saves")
    if nt > 1:
        r.count("B_sibling_sessions")
    r.count("B_dest_name:" + "+".join(shapes))
    r.count("B_ops", len(dry))
    # per save: its window of operations; the backup step is everything before the open(dest, "w") of the new configuration;
    # first operation that modifies the destination itself (as target, or as source of a rename): while none has completed
    # the destination is the untouched previous file, whatever the implementation considers its backup step to be
    windows = []
    for k in range(1, nsaves + 1):
        rels = dest_rels[steps[k - 1][0]]
        lo, hi = (marks[k - 2] if k > 1 else 0), marks[k - 1]
        opens = [o["i"] for o in dry[lo:hi] if o["op"] == "open" and o["path"] in rels and not o["path"].endswith(".old")]
        touching = [o["i"] for o in dry[lo:hi] if o["path"] in rels or o.get("src") in rels]
        windows.append((lo, hi, opens[-1] if opens else hi, touching[0] if touching else hi))
    # ---- every crash point of every save
    for point in faultfs.crash_points(dry):
        if only is not None and tuple(only) != point:
            continue
        k = next(n + 1 for n, w in enumerate(windows) if w[0] <= point[0] < w[1])
        if only is None and item.get("crash_in") == "last_save" and k != nsaves:
            continue  # executed by the work item of the session prefix that ends with save k
        t, j = steps[k - 1]
        lo, hi, backup_end, first_dest_op = windows[k - 1]
        new, prev = texts[t][j], texts[t][j - 1]
        faultfs.restore(d, pre)
        try:
            fs2, _ = session(point, k)
        except Exception as ex:  # noqa: BLE001
            raise RuntimeError(f"crashed session raised {ex!r} before its crash point") from ex
        if not fs2.crashed or not faultfs.same_prefix(dry, fs2.log) or len(fs2.log) != point[0] + 1:
            raise RuntimeError(f"crashed session diverged from the dry run: {fs2.log} vs {dry} at {point}")
        r.evals += 1
        r.count("crash_points")
        if j > 1:
            r.count("crash_points_in_later_save")
        if nt > 1:
            r.count("crash_points_in_sibling_session")
        if point[1] is not None:
            r.count("write_cuts")
        cls = op_class(dry[point[0]], point[1], dest_rels[t])
        r.count("crash@" + cls)
        now = look()
        D, O = now[t][0], now[t][1]
        pd, po = pattern(D, new, prev, names_for(t, j)), pattern(O, new, prev, names_for(t, j))
        r.outcome(("B", gen, kind, older is not None, load, "first" if j == 1 else "later", cls, pd, po) + ((tuple(shapes),) if sig_name else ()))
        in_backup = point[0] < backup_end or point[0] <= first_dest_op
        c = dict(case)
        c["crash"] = [point[0], point[1]]
        if not (D == new or O == prev or (in_backup and D == prev)):
            r.violation(
                {"kind": "both_copies_lost", "site": site, "gen": gen, "save": "first" if j == 1 else "later", "dest_kind": kind, "old_present": older is not None,
                 "crash_at": cls, "dest": pd, "old": po, "backup_finished": not in_backup, **sig_name},
                f"{what}: save #{k} of {nsaves} ({targets[t]['name']}) dies at {cls} {point} (operations of this save {[(o['op'], o['path']) for o in dry[lo:hi]]}): "
                f"dest is {pd}, {targets[t]['name']}.old is {po} -- neither the complete new configuration nor the complete previous one (the text save #{k} found) survives", c)
        ch = siblings_changed(t, seen[k - 2] if k > 1 else initial, now)
        if ch:
            r.violation(
                {"kind": "save_modifies_sibling_configuration", "site": site, "gen": gen, "dest_kind": kind, "old_present": older is not None, "files": "+".join(ch), "when": "crash_at:" + cls, **sig_name},
                f"{what}: save #{k} of {targets[t]['name']}, dying at {cls} {point}, changed the {ch} file(s) of the sibling configuration(s) "
                f"{[x['name'] for n, x in enumerate(targets) if n != t]} (operations of this save {[(o['op'], o['path']) for o in dry[lo:hi]]})", c)


# --------------------------------------------------------------------------------------------------


def run_item(item) -> common.Result:
    r = common.Result()
    r.programs = 1
    e = env(item.get("tree", "base"))
    if item["part"] == "A":
        part_a(e, item["gen"], item["a"], item["b"], r, int(item.get("link", 0)))
        r.sample = {"part": "A", "generator": item["gen"], "tree": item.get("tree", "base"), "a": item["a"], "b": item["b"], "symlinks_to_destination": int(item.get("link", 0))}
    elif item["part"] == "H":
        part_h(e, item, r)
        r.sample = {"part": "H", "rename_files": item["renames"], "configuration": item["cfg"], "PYTHONHASHSEED_of_successive_processes": item["seeds"], "in_place": bool(item.get("inplace"))}
    else:
        try:
            part_b(e, item, r)
        except ReferenceSaveFailed as x:
            r.violation({"kind": "completed_save_left_no_destination", "gen": item.get("gen", "write_config")}, f"[{item.get('gen', 'write_config')}] {x}", dict(item, files=e.files, reference_save_failed=True))
        tg, order = b_targets(item)
        r.sample = {"part": "B", "dest": item["kind"], "older_old_present": item["older"] is not None, "destinations": [{"name": t["name"], "history": t["hist"]} for t in tg], "order_of_saves": order,
                    "save_function": item.get("gen", "write_config"), "instance_loaded_dest": bool(item.get("load")), "write_deprecated": item["write_deprecated"], "tree": TREE}
    return r


def replay(case) -> List[dict]:
    r = common.Result()
    e = Env(case["files"])
    if case["part"] == "A":
        part_a(e, case["gen"], case["a"], case["b"], r, int(case.get("link", 0)))
    elif case["part"] == "H":
        part_h(e, case, r)
    else:
        try:
            part_b(e, case, r, only=case.get("crash"))
        except ReferenceSaveFailed as x:
            r.violation({"kind": "completed_save_left_no_destination", "gen": case.get("gen", "write_config")}, f"[{case.get('gen', 'write_config')}] {x}", case)
    return r.viols

"""C13 -- outputs are rewritten only when they change, and a save never loses both copies.

Part A (exploration of generation pairs).  For every generator G and every ordered pair of configurations (a, b):
generate with a (fresh Kconfig / fresh kconfgen run), force every mtime under the output directory to a fixed epoch,
record (st_ino, st_mtime_ns, st_size, bytes) of every file, generate again with b.  Reference for "what b's output is":
G run for b into an empty directory.  If that equals the existing destination (a == b, or a change that is invisible in
this format) the destination must be untouched: same inode, mtime still the epoch, same size, same bytes, and no
mutating file-system operation on it (fault file system in logging mode); for a == b nothing else in the directory
may change either (no stray `.old`).  Otherwise the destination must hold exactly the reference bytes.
Generators: write_config (plain / save_old / write_deprecated / header / through a symlink), write_autoconf (+deprecated),
write_min_config x4, sync_deps' auto.conf, and the real kconfgen click command (in-process, one invocation = one
"process": report singleton reset, environment restored) for every --output format incl. cdep_tree and the in-place
`--config sdkconfig --output config sdkconfig` flow; a subset of formats additionally through `python -m kconfgen`.

Part B (fault enumeration).  `write_config(dest, save_old=True)` of configuration b over an existing complete
configuration a; dest a regular file or a symlink; `.old` absent (first generation) or holding an older complete
configuration (second generation); every crash point (before every mutating operation, inside every write at every cut
point -- this includes the chunked-write model of shutil.copyfile used for symlinks), each on a fresh copy of the
pre-state.  Oracle at every crash point:  dest == complete new  OR  dest.old == complete previous  OR  (the crash is
before the backup step has finished AND dest == complete previous).  Crash-free: dest == new and .old == previous (write_config docstring).
"""

from __future__ import annotations

import itertools
import os
import shutil
import subprocess
import sys
from typing import Any, Callable, Dict, List, Optional, Tuple

from .. import common, faultfs, impl

ID = "C13"
LEVEL = "fault_enumeration"
RULE = (
    "part A: every generator (13 library variants, 10 in-process kconfgen flows, 3/9 kconfgen subprocess flows) x every ordered "
    "pair of configurations (a, b) incl. a == b; three real generations per pair (a, then b over it, b into an empty directory). "
    "part B: write_config(save_old=True) of b over a for every ordered pair with different texts x {regular file, relative "
    "symlink, absolute symlink (thorough)} x {.old absent, older .old present} x write_deprecated {False, True}; crash-free run "
    "then every crash point (before each mutating FS operation; inside each write at 0 / every line boundary / middle of last "
    "line / all-but-one), each on a fresh copy of the pre-state. evaluations = generation pairs + executed crash points + "
    "crash-free saves. distinct_nontrivial = distinct (generator, unchanged|changed, previous bytes, new bytes) of part A and "
    "distinct (destination kind, crash operation, surviving pattern of dest, surviving pattern of .old) of part B."
)
ASSUMPTIONS = [
    "'unchanged' is decided on the output: the same generator run for b into an empty directory produces the bytes already in the "
    "destination (this is what the docstrings of write_config/write_autoconf/sync_deps promise); mtimes are compared with a forced "
    "epoch, never with the clock",
    "an in-process kconfgen invocation stands for a process: KconfigReport singleton reset() before, os.environ restored after; "
    "kconfgen's temp files live in TMPDIR (the run directory on tmpfs)",
    "crash model: process death, completed operations persist, no reordering; shutil.copyfile is modelled as create/truncate + one "
    "write with cut points; 'complete configuration' = byte-identical to the full text",
    "part B third disjunct as decided in DESIGN.md C13: dest == complete previous counts while the backup has not finished = the "
    "crash precedes the open(dest, 'w') of the new text, or no operation on the destination itself has completed yet",
]

EPOCH_NS = 1_000_000_000 * 10**9

TREE = '''mainmenu "T"

config FOO_BAR
    bool "foo bar"
    help
        Foo bar help.

menu "M1"

config B
    bool "b"
    default y
    help
        B help.

config N
    int "n"
    default 5
    range 0 100
    help
        N help.

config H
    hex "h"
    default 0x1f
    help
        H help.

endmenu

comment "a comment"

config S
    string "s"
    default "a\\"b\\\\c d"
    help
        S help.

config U
    int "u"
    depends on B
    default 1
    help
        U help.

config NEWP
    bool "newp"
    help
        NEWP help.

config NEWI
    bool "newi"
    default y
    help
        NEWI help.
'''
RENAMES = "CONFIG_OLDP CONFIG_NEWP\nCONFIG_OLD_I !CONFIG_NEWI\nCONFIG_OLDN CONFIG_N\n"
FILES = {"Kconfig": TREE, "sdkconfig.rename": RENAMES}

CONFIGS_QUICK: List[Dict[str, str]] = [
    {},
    {"FOO_BAR": "y", "N": "7"},
    {"B": "n"},
    {"S": 'x\\y"z', "H": "0x2a"},
    {"NEWP": "y", "NEWI": "n"},
    {"N": "5"},  # user value equal to the default: only the `# default:` marker of sdkconfig changes
    {"S": "caf\u00e9 \u4e2d"},  # multi-byte UTF-8 in every output (bytes on disk != characters)
]
CONFIGS_THOROUGH = CONFIGS_QUICK + [
    {"U": "6", "B": "n"},  # hidden user value
    {"S": ""},
    {"NEWI": "n"},
    {"FOO_BAR": "y", "N": "7", "S": "line", "NEWP": "y"},
]


# --------------------------------------------------------------------------------------------------
# environment: tree + configurations -> instances / sdkconfig texts
# --------------------------------------------------------------------------------------------------


class Env:
    def __init__(self, files: Dict[str, str]):
        self.files = files
        self.root = os.path.join(impl.wdir(), "c13")
        self.kpath = impl.put_program(files)
        self.rpath = os.path.join(os.path.dirname(self.kpath), "sdkconfig.rename")
        self._sdk: Dict[str, str] = {}

    def inst(self, cfg: Dict[str, str]):
        i = impl.Inst(self.files)
        i.k.load_rename_files([self.rpath])
        for name in sorted(cfg):
            i.k.syms[name].set_value(cfg[name])
        return i

    def sdkconfig_text(self, cfg: Dict[str, str]) -> str:
        key = repr(sorted(cfg.items()))
        if key not in self._sdk:
            self._sdk[key] = self.inst(cfg).config_text()
        return self._sdk[key]

    def fresh(self, tag: str) -> str:
        d = os.path.join(self.root, tag)
        if os.path.lexists(d):
            shutil.rmtree(d)
        os.makedirs(d)
        return d


_env: Optional[Env] = None


def env() -> Env:
    global _env
    if _env is None:
        _env = Env(FILES)
    return _env


# --------------------------------------------------------------------------------------------------
# generators
# --------------------------------------------------------------------------------------------------


class Gen:
    def __init__(self, name: str, site: str, dest: str, run: Callable[[Env, Dict[str, str], str], None], prepare: Optional[Callable[[str], None]] = None, same_only: bool = False):
        self.name, self.site, self.dest, self.run, self.prepare, self.same_only = name, site, dest, run, prepare, same_only


def _api(fn: Callable[[Any, str], Any], dest: str):
    def run(e: Env, cfg: Dict[str, str], d: str) -> None:
        fn(e.inst(cfg).k, os.path.join(d, dest))

    return run


def _prep_symlink(d: str) -> None:
    os.mkdir(os.path.join(d, "real"))
    os.symlink(os.path.join("real", "sdkconfig.real"), os.path.join(d, "sdkconfig"))


KCONFGEN_FORMATS = ("config", "header", "cmake", "docs", "json", "json_menus", "savedefconfig", "report", "cdep_tree")


def kconfgen_args(e: Env, fmt: str, d: str, inplace: bool) -> Tuple[List[str], str]:
    sdk = os.path.join(d, "sdkconfig" if inplace else "in.sdkconfig")
    out = sdk if inplace else os.path.join(d, "deps" if fmt == "cdep_tree" else "out." + fmt)
    args = ["--kconfig", e.kpath, "--config", sdk, "--sdkconfig-rename", e.rpath, "--env", "IDF_TARGET=esp32", "--output", fmt, out]
    return args, sdk


def kconfgen_inprocess(args: List[str]) -> None:
    """One kconfgen invocation = one process: no report state carried over, environment restored afterwards."""
    import threading

    import esp_kconfiglib.report as rep
    import kconfgen.core as kg

    if rep.KconfigReport._instance is not None:
        rep.KconfigReport._instance.reset()
    saved_env = dict(os.environ)
    hooks = (sys.excepthook, getattr(threading, "excepthook", None))
    try:
        kg.main.main(args=list(args), standalone_mode=False)
    finally:
        for k in list(os.environ):
            if k not in saved_env:
                del os.environ[k]
        for k, v in saved_env.items():
            if os.environ.get(k) != v:
                os.environ[k] = v
        sys.excepthook = hooks[0]
        if hooks[1] is not None:
            threading.excepthook = hooks[1]


def _kconfgen(fmt: str, how: str, inplace: bool = False):
    def run(e: Env, cfg: Dict[str, str], d: str) -> None:
        args, sdk = kconfgen_args(e, fmt, d, inplace)
        if not (inplace and os.path.exists(sdk)):
            with open(sdk, "w") as f:  # the project configuration kconfgen reads (in place: only the first time)
                f.write(e.sdkconfig_text(cfg))
            os.utime(sdk, ns=(EPOCH_NS, EPOCH_NS))
        if how == "inprocess":
            kconfgen_inprocess(args)
        else:
            ev = dict(os.environ)
            ev["TMPDIR"] = common.RUN_DIR
            p = subprocess.run([sys.executable, "-m", "kconfgen"] + args, env=ev, cwd=d, stdout=subprocess.PIPE, stderr=subprocess.PIPE, text=True, timeout=300)
            if p.returncode != 0:
                raise RuntimeError(f"kconfgen exited with {p.returncode}: {p.stderr[-300:]}")

    return run


def generators() -> Dict[str, Gen]:
    g: List[Gen] = [
        Gen("write_config", "core.py:write_config", "sdkconfig", _api(lambda k, p: k.write_config(p, save_old=False), "sdkconfig")),
        Gen("write_config:save_old", "core.py:write_config", "sdkconfig", _api(lambda k, p: k.write_config(p), "sdkconfig")),
        Gen("write_config:deprecated", "core.py:write_config", "sdkconfig", _api(lambda k, p: k.write_config(p, write_deprecated=True), "sdkconfig")),
        Gen("write_config:header", "core.py:write_config", "sdkconfig", _api(lambda k, p: k.write_config(p, header="# hdr\n"), "sdkconfig")),
        Gen("write_config:symlink", "core.py:write_config", "sdkconfig", _api(lambda k, p: k.write_config(p), "sdkconfig"), prepare=_prep_symlink),
        Gen("write_autoconf", "core.py:write_autoconf", "sdkconfig.h", _api(lambda k, p: k.write_autoconf(p), "sdkconfig.h")),
        Gen("write_autoconf:deprecated", "core.py:write_autoconf", "sdkconfig.h", _api(lambda k, p: k.write_autoconf(p, header="/* h */\n", write_deprecated=True), "sdkconfig.h")),
        Gen("sync_deps", "core.py:_write_old_vals", "deps/auto.conf", _api(lambda k, p: k.sync_deps(os.path.dirname(p)), "deps/auto.conf")),
    ]
    for labels, norm in itertools.product((False, True), repeat=2):
        g.append(Gen(f"write_min_config:labels={int(labels)},normalize_unset={int(norm)}", "core.py:write_min_config", "sdkconfig.defaults",
                     _api(lambda k, p, la=labels, no=norm: k.write_min_config(p, labels=la, normalize_unset=no), "sdkconfig.defaults")))
    g.append(Gen("write_min_config:header", "core.py:write_min_config", "sdkconfig.defaults", _api(lambda k, p: k.write_min_config(p, header="# min\n"), "sdkconfig.defaults")))
    for fmt in KCONFGEN_FORMATS:
        dest = "deps/auto.conf" if fmt == "cdep_tree" else "out." + fmt
        site = "kconfgen/core.py:write_cdep_tree" if fmt == "cdep_tree" else f"kconfgen/core.py:update_if_changed({fmt})"
        g.append(Gen(f"kconfgen:{fmt}", site, dest, _kconfgen(fmt, "inprocess")))
        g.append(Gen(f"kconfgen-subprocess:{fmt}", site, dest, _kconfgen(fmt, "subprocess")))
    # the two interactive front ends: the config server's `save` request handler and menuconfig's _do_save (real functions)
    def _server_save(k, p):
        import kconfserver.core as ks

        err = ks.handle_request(k, {"version": 3, "save": p})
        if err:
            raise RuntimeError(f"kconfserver save reported {err}")

    def _menuconfig_save(k, p):
        import types

        from esp_menuconfig.app import MenuConfigApp

        stub = types.SimpleNamespace(state=types.SimpleNamespace(kconf=k, saved=False), notify=lambda *a, **kw: None)
        if MenuConfigApp._do_save(stub, p) is None:
            raise RuntimeError("menuconfig _do_save failed")

    g.append(Gen("kconfserver:save", "kconfserver/core.py:handle_request", "sdkconfig", _api(_server_save, "sdkconfig")))
    g.append(Gen("menuconfig:_do_save", "esp_menuconfig/app.py:_do_save", "sdkconfig", _api(_menuconfig_save, "sdkconfig")))
    g.append(Gen("kconfgen:config:inplace", "kconfgen/core.py:update_if_changed(config)", "sdkconfig", _kconfgen("config", "inprocess", inplace=True), same_only=True))
    return {x.name: x for x in g}


GENS: Optional[Dict[str, Gen]] = None


def gens() -> Dict[str, Gen]:
    global GENS
    if GENS is None:
        GENS = generators()
    return GENS


# --------------------------------------------------------------------------------------------------
# work list
# --------------------------------------------------------------------------------------------------


def items(tier: str, seed: int):
    cfgs = CONFIGS_QUICK if tier == "quick" else CONFIGS_THOROUGH
    out: List[dict] = []
    names = [n for n in gens() if not n.startswith("kconfgen-subprocess:")]
    for n in names:
        for a, b in itertools.product(range(len(cfgs)), repeat=2):
            if gens()[n].same_only and a != b:
                continue
            out.append({"part": "A", "gen": n, "a": cfgs[a], "b": cfgs[b]})
    sub: List[dict] = []
    for fmt in ("config", "header", "json") if tier == "quick" else KCONFGEN_FORMATS:
        for a, b in ((1, 1), (1, 3)) if tier == "quick" else ((1, 1), (1, 3), (0, 5), (4, 0)):
            sub.append({"part": "A", "gen": f"kconfgen-subprocess:{fmt}", "a": cfgs[a], "b": cfgs[b]})
    kinds = ("regular", "symlink") if tier == "quick" else ("regular", "symlink", "symlink_abs")
    for a, b in itertools.permutations(range(len(cfgs)), 2):
        for kind in kinds:
            for old in (False, True):
                for wdep in (False, True):
                    older = cfgs[[i for i in range(len(cfgs)) if i not in (a, b)][0]]
                    out.append({"part": "B", "a": cfgs[a], "b": cfgs[b], "older": older if old else None, "kind": kind, "write_deprecated": wdep})
    # the subprocess items take seconds each: spread them over the list so that they land in different worker chunks
    stride = max(1, len(out) // max(1, len(sub)))
    for n, it in enumerate(sub):
        out.insert(n * (stride + 1), it)
    return out


# --------------------------------------------------------------------------------------------------
# part A
# --------------------------------------------------------------------------------------------------


def site_of(exc: BaseException) -> str:
    import traceback

    for fr in reversed(traceback.extract_tb(exc.__traceback__)):
        if "/mck/" not in fr.filename and "/site-packages/" not in fr.filename:
            return f"{os.path.basename(fr.filename)}:{fr.name}"
    return "?"


def set_epoch_all(d: str) -> None:
    for root, _dirs, fs in os.walk(d):
        for f in fs:
            p = os.path.join(root, f)
            if not os.path.islink(p):
                os.utime(p, ns=(EPOCH_NS, EPOCH_NS))


def full_stat(d: str) -> Dict[str, tuple]:
    """{relpath: (kind, ino, mtime_ns, size, payload)} for every non-directory under d (symlinks are not followed)"""
    out: Dict[str, tuple] = {}
    for root, _dirs, fs in os.walk(d):
        for f in sorted(fs):
            p = os.path.join(root, f)
            st = os.lstat(p)
            rel = os.path.relpath(p, d)
            if os.path.islink(p):
                out[rel] = ("l", st.st_ino, None, None, os.readlink(p))
            else:
                with open(p, "rb") as fh:
                    out[rel] = ("f", st.st_ino, st.st_mtime_ns, st.st_size, fh.read())
    return out


def read_through(p: str) -> Optional[bytes]:
    try:
        with open(p, "rb") as f:
            return f.read()
    except OSError:
        return None


def part_a(e: Env, gen_name: str, a: Dict[str, str], b: Dict[str, str], r: common.Result) -> None:
    g = gens()[gen_name]
    case = {"part": "A", "gen": gen_name, "a": a, "b": b, "files": e.files}
    same_cfg = a == b

    def generate(tag: str, cfgs: List[Dict[str, str]], log: Optional[list] = None, before: Optional[list] = None) -> Optional[str]:
        d = e.fresh(tag)
        if g.prepare:
            g.prepare(d)
        for n, cfg in enumerate(cfgs):
            last = n == len(cfgs) - 1
            if last and before is not None:
                set_epoch_all(d)
                before.append(full_stat(d))
            try:
                if last and log is not None:
                    with faultfs.FaultFS(d) as fs:
                        g.run(e, cfg, d)
                    log.extend(fs.log)
                else:
                    g.run(e, cfg, d)
            except (Exception, SystemExit) as ex:  # noqa: BLE001 -- observation
                s = site_of(ex)
                r.violation({"kind": "exception", "exc": type(ex).__name__, "site": s, "gen": gen_name, "generation": n},
                            f"{gen_name}: generation #{n} for {cfg} raised {type(ex).__name__}: {ex} at {s}", case)
                return None
        return d

    log: List[dict] = []
    bef: List[dict] = []
    d = generate("A", [a, b], log, bef)
    if d is None:
        return
    after = full_stat(d)
    before = bef[0]
    dref = generate("Aref", [b])
    if dref is None:
        return
    r.evals += 1
    # the destination, followed through a symlink
    drel = g.dest
    real_rel = os.path.relpath(os.path.realpath(os.path.join(d, drel)), os.path.realpath(d))
    ref = read_through(os.path.join(dref, drel))
    prev = before.get(real_rel, (None,) * 5)[4]
    new = after.get(real_rel, (None,) * 5)[4]
    if ref is None or prev is None:
        # observation, not a harness error: a generation completed without raising and its destination does not exist
        r.violation({"kind": "output_missing_after_generation", "site": g.site, "gen": gen_name, "generation": "first" if prev is None else "into_empty_directory"},
                    f"{gen_name}: {drel} does not exist after generating {a if prev is None else b} "
                    f"(files present: {sorted(before if prev is None else full_stat(dref))})", case)
        return
    if ref == prev:
        r.count("A_unchanged_output" + ("" if same_cfg else "_for_changed_configuration"))
        r.outcome(("A", gen_name, "unchanged", common.h64(_norm(e, prev))))
        diffs = []
        for rel in sorted({real_rel, drel}):
            x, y = before.get(rel), after.get(rel)
            if x != y:
                names = ("kind", "st_ino", "st_mtime_ns", "st_size", "bytes")
                diffs += [names[i] for i in range(5) if y is None or x[i] != y[i]]
        ops = [o["op"] for o in log if o["path"] in (drel, real_rel)]
        if diffs or ops:
            r.violation(
                {"kind": "unchanged_output_rewritten", "site": g.site, "gen": gen_name, "changed": "+".join(sorted(set(diffs))) or "none", "ops": "+".join(sorted(set(ops))) or "none", "same_configuration": same_cfg},
                f"{gen_name}: regenerating {'the same configuration ' + str(a) if same_cfg else str(b) + ' over ' + str(a) + ' (identical output)'} touched {drel}: "
                f"changed {sorted(set(diffs))}, operations {ops}", case)
        if same_cfg:
            other = sorted(rel for rel in set(before) | set(after) if rel not in (drel, real_rel) and before.get(rel) != after.get(rel))
            if other:
                r.violation(
                    {"kind": "unchanged_regeneration_modifies_other_file", "site": g.site, "gen": gen_name, "files": "+".join(_classify_other(x) for x in other)},
                    f"{gen_name}: regenerating the same configuration {a} modified / created {other}", case)
    else:
        r.count("A_changed_output")
        r.outcome(("A", gen_name, "changed", common.h64(_norm(e, prev)), common.h64(_norm(e, ref))))
        if new != ref:
            r.violation(
                {"kind": "changed_output_not_written", "site": g.site, "gen": gen_name, "result": "old_bytes" if new == prev else "missing" if new is None else "other_bytes"},
                f"{gen_name}: generating {b} over the output of {a} left {new!r}, a generation into an empty directory gives {ref!r}", case)
        if gen_name in ("write_config:save_old", "write_config:symlink"):
            old = read_through(os.path.join(d, drel + ".old"))
            if old != prev:
                r.violation({"kind": "backup_is_not_previous", "site": "core.py:_save_old", "gen": gen_name, "result": "missing" if old is None else "other_bytes"},
                            f"{gen_name}: after saving {b} over {a}, {drel}.old holds {old!r} instead of the previous configuration", case)
            if gen_name == "write_config:symlink" and not os.path.islink(os.path.join(d, drel)):
                r.count("A_symlink_replaced_by_save")  # only a source comment ("Preserve symlinks") promises this: counted, not a violation


def _norm(e: Env, data: bytes) -> bytes:
    """outputs may embed the per-worker scratch path of the Kconfig file (json_menus ids): not part of a counted outcome"""
    base = os.path.dirname(e.kpath)
    return data.replace(base.encode(), b"<K>").replace(base.replace("/", "-").lstrip("-").encode(), b"<K>")


def _classify_other(rel: str) -> str:
    return "old" if rel.endswith(".old") else "cdep" if rel.endswith(".cdep") else "auto.conf" if rel.endswith("auto.conf") else "input" if "sdkconfig" in rel else "other"


# --------------------------------------------------------------------------------------------------
# part B
# --------------------------------------------------------------------------------------------------


def pattern(data: Optional[bytes], new: bytes, prev: bytes, older: Optional[bytes]) -> str:
    if data is None:
        return "missing"
    if data == new:
        return "NEW"
    if data == prev:
        return "PREV"
    if older is not None and data == older:
        return "OLDER"
    if data == b"":
        return "empty"
    if new.startswith(data):
        return "prefix_of_NEW"
    if prev.startswith(data):
        return "prefix_of_PREV"
    return "other"


def op_class(op: dict, cut: Optional[int], dest_rels: Tuple[str, ...]) -> str:
    what = "old" if op["path"].endswith(".old") else "dest" if op["path"] in dest_rels else "other"
    s = f"{op['op']}:{what}"
    if op["op"] == "write" and cut is not None:
        s += ":cut=0" if cut == 0 else ":cut=all_but_one" if cut == op["n"] - 1 else ":cut=inside"
    return s


def part_b(e: Env, item: dict, r: common.Result, only: Optional[list] = None) -> None:
    a, b, older_cfg, kind, wdep = item["a"], item["b"], item["older"], item["kind"], item["write_deprecated"]
    case = dict(item)
    case["files"] = e.files
    case["crash"] = None

    def text(cfg: Dict[str, str]) -> bytes:
        p = impl.tmpfile("c13ref")
        e.inst(cfg).k.write_config(p, save_old=False, write_deprecated=wdep)
        data = read_through(p)
        os.unlink(p)
        return data

    prev, new = text(a), text(b)
    older = text(older_cfg) if older_cfg is not None else None
    if prev == new:
        r.skipped += 1  # outside the statement's second sentence: nothing is saved (part A covers it)
        return
    root = e.fresh("B")
    d = os.path.join(root, "proj")
    os.mkdir(d)
    dest = os.path.join(d, "sdkconfig")
    if kind == "regular":
        real = dest
    else:
        os.mkdir(os.path.join(d, "real"))
        real = os.path.join(d, "real", "sdkconfig.real")
        os.symlink(os.path.join("real", "sdkconfig.real") if kind == "symlink" else real, dest)
    with open(real, "wb") as f:
        f.write(prev)
    if older is not None:
        with open(dest + ".old", "wb") as f:
            f.write(older)
    pre = faultfs.snapshot(d)
    dest_rels = ("sdkconfig", os.path.relpath(real, d))

    def save() -> None:
        e.inst(b).k.write_config(dest, save_old=True, write_deprecated=wdep)

    # ---- crash-free
    try:
        with faultfs.FaultFS(d) as fs:
            save()
    except Exception as ex:  # noqa: BLE001 -- observation
        s = site_of(ex)
        r.violation({"kind": "exception", "exc": type(ex).__name__, "site": s, "part": "B", "dest_kind": kind}, f"write_config(save_old=True) raised {type(ex).__name__}: {ex} at {s}", case)
        return
    dry = fs.log
    r.evals += 1
    D, O = read_through(dest), read_through(dest + ".old")
    if kind != "regular" and not os.path.islink(dest):
        r.count("B_symlink_replaced_by_save")  # only a source comment ("Preserve symlinks") promises this: counted, not a violation
    if D != new or O != prev:
        r.violation(
            {"kind": "completed_save_wrong", "site": "core.py:write_config", "dest_kind": kind, "old_present": older is not None, "dest": pattern(D, new, prev, older), "old": pattern(O, new, prev, older),
             "dest_is_symlink": os.path.islink(dest)},
            f"completed write_config(save_old=True) of {b} over {a} ({kind}): dest is {pattern(D, new, prev, older)}, .old is {pattern(O, new, prev, older)}, symlink kept: {os.path.islink(dest)}", case)
    # the backup step is everything before the open(dest, "w") of the new configuration
    opens = [o["i"] for o in dry if o["op"] == "open" and o["path"] in dest_rels and not o["path"].endswith(".old")]
    backup_end = opens[-1] if opens else len(dry)
    # first operation that modifies the destination itself (as target, or as source of a rename): while none has completed
    # the destination is the untouched previous file, whatever the implementation considers its backup step to be
    touching = [o["i"] for o in dry if o["path"] in dest_rels or o.get("src") in dest_rels]
    first_dest_op = touching[0] if touching else len(dry)
    r.count("B_saves")
    r.count("B_ops", len(dry))
    # ---- every crash point
    for point in faultfs.crash_points(dry):
        if only is not None and tuple(only) != point:
            continue
        faultfs.restore(d, pre)
        with faultfs.FaultFS(d, crash=point) as fs2:
            try:
                save()
            except faultfs.Crash:
                pass
            except Exception as ex:  # noqa: BLE001
                raise RuntimeError(f"crashed save raised {ex!r} before its crash point") from ex
        if not fs2.crashed or not faultfs.same_prefix(dry, fs2.log) or len(fs2.log) != point[0] + 1:
            raise RuntimeError(f"crashed save diverged from the dry run: {fs2.log} vs {dry} at {point}")
        r.evals += 1
        r.count("crash_points")
        if point[1] is not None:
            r.count("write_cuts")
        cls = op_class(dry[point[0]], point[1], dest_rels)
        r.count("crash@" + cls)
        D, O = read_through(dest), read_through(dest + ".old")
        pd, po = pattern(D, new, prev, older), pattern(O, new, prev, older)
        r.outcome(("B", kind, older is not None, cls, pd, po))
        in_backup = point[0] < backup_end or point[0] <= first_dest_op
        if not (D == new or O == prev or (in_backup and D == prev)):
            c = dict(case)
            c["crash"] = [point[0], point[1]]
            r.violation(
                {"kind": "both_copies_lost", "site": "core.py:write_config", "dest_kind": kind, "old_present": older is not None, "crash_at": cls, "dest": pd, "old": po, "backup_finished": not in_backup},
                f"write_config(save_old=True) of {b} over {a} ({kind}, .old {'present' if older is not None else 'absent'}) dies at {cls} {point} "
                f"(operations {[(o['op'], o['path']) for o in dry]}): dest is {pd}, .old is {po} -- no complete configuration survives", c)


# --------------------------------------------------------------------------------------------------


def run_item(item) -> common.Result:
    r = common.Result()
    r.programs = 1
    e = env()
    if item["part"] == "A":
        part_a(e, item["gen"], item["a"], item["b"], r)
        r.sample = {"part": "A", "generator": item["gen"], "a": item["a"], "b": item["b"]}
    else:
        part_b(e, item, r)
        r.sample = {"part": "B", "dest": item["kind"], "older_old_present": item["older"] is not None, "a": item["a"], "b": item["b"], "write_deprecated": item["write_deprecated"], "tree": TREE}
    return r


def replay(case) -> List[dict]:
    r = common.Result()
    e = Env(case["files"])
    if case["part"] == "A":
        part_a(e, case["gen"], case["a"], case["b"], r)
    else:
        part_b(e, case, r, only=case.get("crash"))
    return r.viols

"""C13 -- outputs are rewritten only when they change, and a save never loses both copies.

Part A (exploration of generation pairs).  For every generator G and every ordered pair of configurations (a, b):
generate with a (fresh Kconfig / fresh kconfgen run), force every mtime under the output directory to a fixed epoch,
record (st_ino, st_mtime_ns, st_size, bytes) of every file, generate again with b.  Reference for "what b's output is":
G run for b into an empty directory.  If that equals the existing destination (a == b, or a change that is invisible in
this format) the destination must be untouched: same inode, mtime still the epoch, same size, same bytes, and no
mutating file-system operation on it (fault file system in logging mode); for a == b nothing else in the directory
may change either (no stray `.old`).  Otherwise the destination must hold exactly the reference bytes.
Generators: write_config (plain / save_old / write_deprecated / header / through a symlink), write_autoconf (+deprecated),
write_min_config x4, sync_deps' auto.conf, and the real kconfgen click command (in-process, one invocation = one
"process": report singleton reset, environment restored) for every --output format incl. cdep_tree and the in-place
`--config sdkconfig --output config sdkconfig` flow; a subset of formats additionally through `python -m kconfgen`.

Text alphabet of part A.  Besides ASCII and multi-byte UTF-8 the configurations contain string values with every character
that is a line boundary for str.splitlines() but NOT for text-file reading (VT 0x0b, FF 0x0c, FS/GS/RS 0x1c-0x1e, NEL
0x85, U+2028, U+2029): one configuration per character plus one holding all of them (also first / last character of the
value), each regenerated unchanged, changed to / from an ordinary configuration and changed to the next separator.  A
second tree (`sep`) carries the same characters in the Kconfig source itself (string default, symbol prompt, menu title,
comment, help text) so that they reach the outputs that render those (docs, json_menus, the sdkconfig comments) without
any user value.  Any "did it change" decision that is taken on lines instead of on the text is exposed by these.  The
format's own line terminators (LF, CR) are not generated inside values, see ASSUMPTIONS.

Part B (fault enumeration over save histories).  One long-lived Kconfig instance (a session) performs 1, 2 or 3 successive
CHANGED saves to the same destination with backup enabled: hist = [c0, c1, .. cn]; the file initially holds the complete
text of c0 (written by an independent instance); the session instance is fresh or has load_config()ed the destination;
before save j it is moved from c(j-1) to c(j) by unset_value()/set_value().  The save is done through the direct API
(`write_config(dest, save_old=True)`), through the config server's `save` request handler or through menuconfig's
`_do_save` (the real functions).  dest is a regular file or a symlink; `.old` initially absent or holding an older complete
configuration.  The whole session runs once crash-free under the logging fault file system, then once per crash point of
EVERY save of the history (before every mutating operation, inside every write at every cut point -- this includes the
chunked-write model of shutil.copyfile used for symlinks), each on a fresh copy of the pre-state with a fresh instance
that really performs the earlier saves.  With new = complete text of c(j) and previous = the content the destination had
just before save j started (= complete text of c(j-1), checked by the crash-free oracle of save j-1), the oracle at every
crash point of save j is:  dest == new  OR  dest.old == previous  OR  (the crash is before the backup step of THIS save has
finished AND dest == previous).  Crash-free, after every save j: dest == new and .old == previous (write_config docstring).
The reference texts come from twins: a fresh instance that replays the same load / set / unset history and saves through the
same function into an empty location.
"""

from __future__ import annotations

import itertools
import os
import shutil
import subprocess
import sys
from typing import Any, Callable, Dict, List, Optional, Tuple

from .. import common, faultfs, impl

ID = "C13"
LEVEL = "fault_enumeration"
RULE = (
    "part A: every generator (13 library variants, 2 front-end saves, 10 in-process kconfgen flows, 3/9 kconfgen subprocess "
    "flows) x ordered pairs of configurations (a, b): all pairs incl. a == b of the ordinary alphabet; for each of the 9 "
    "configurations whose string value holds a str.splitlines()-only line boundary: unchanged, to and from an ordinary "
    "configuration, to the next separator configuration (thorough: every ordered pair of ordinary + separator configurations); "
    "all 9 pairs of 3 configurations of the `sep` tree whose Kconfig texts (default, prompt, menu, comment, help) hold the "
    "separators. Three real generations per pair (a, then b over it, b into an empty directory). "
    "part B: a session of n successive changed saves c0 -> c1 -> .. -> cn by ONE instance over a destination holding c0: "
    "n = 1 for every ordered pair with different texts (direct API, fresh instance, write_deprecated {False, True}, .old absent / "
    "older .old present); n = 1, 2, 3 over a 3-configuration alphabet (thorough: 4) with consecutive members different x save "
    "function {write_config(save_old=True), kconfserver save request, menuconfig _do_save} x instance {fresh, has loaded the "
    "destination} (thorough: x older .old present, x write_deprecated for the direct API); all x {regular file, relative symlink, "
    "absolute symlink (thorough)}; crash-free session, then every crash point of every save of the session (before each mutating "
    "FS operation; inside each write at 0 / every line boundary / middle of last line / all-but-one), each on a fresh copy of the "
    "pre-state with a fresh instance that performs the earlier saves for real; a crash inside save j depends on c0..cj only and "
    "every session prefix is a work item of its own, so each (prefix, crash point) is executed once: by the item whose last save "
    "it is. evaluations = generation pairs + executed crash "
    "points + crash-free saves. distinct_nontrivial = distinct (generator, unchanged|changed, previous bytes, new bytes) of "
    "part A and distinct (save function, destination kind, older .old, loaded, first|later save, crash operation, surviving "
    "pattern of dest, surviving pattern of .old) of part B."
)
ASSUMPTIONS = [
    "'unchanged' is decided on the output: the same generator run for b into an empty directory produces the bytes already in the "
    "destination (this is what the docstrings of write_config/write_autoconf/sync_deps promise); mtimes are compared with a forced "
    "epoch, never with the clock",
    "an in-process kconfgen invocation stands for a process: KconfigReport singleton reset() before, os.environ restored after; "
    "kconfgen's temp files live in TMPDIR (the run directory on tmpfs)",
    "crash model: process death, completed operations persist, no reordering; shutil.copyfile is modelled as create/truncate + one "
    "write with cut points; 'complete configuration' = byte-identical to the full text",
    "part B third disjunct as decided in DESIGN.md C13: dest == complete previous counts while the backup has not finished = the "
    "crash precedes the open(dest, 'w') of the new text within the save that is interrupted, or no operation of that save on the "
    "destination itself has completed yet",
    "in a session 'previous' of save j is the content the destination had just before save j started, i.e. the complete text the "
    "(crash-free) save j-1 left there; 'new' is what a twin instance with the same load/set/unset history writes into an empty "
    "location through the same save function; a history with two consecutive equal texts is skipped (that save is not a changed "
    "save, part A covers it)",
    "string values never contain the line terminators of the line-oriented output formats themselves (\\n, \\r): such a value is "
    "not representable in sdkconfig (load_config would split the line) -- observed while widening: a bare \\r in a value makes every "
    "_contents_eq/_write_if_changed comparison fail because reading translates it to \\n; not generated, reported separately",
]

EPOCH_NS = 1_000_000_000 * 10**9

TREE = '''mainmenu "T"

config FOO_BAR
    bool "foo bar"
    help
        Foo bar help.

menu "M1"

config B
    bool "b"
    default y
    help
        B help.

config N
    int "n"
    default 5
    range 0 100
    help
        N help.

config H
    hex "h"
    default 0x1f
    help
        H help.

endmenu

comment "a comment"

config S
    string "s"
    default "a\\"b\\\\c d"
    help
        S help.

config U
    int "u"
    depends on B
    default 1
    help
        U help.

config NEWP
    bool "newp"
    help
        NEWP help.

config NEWI
    bool "newi"
    default y
    help
        NEWI help.
'''
RENAMES = "CONFIG_OLDP CONFIG_NEWP\nCONFIG_OLD_I !CONFIG_NEWI\nCONFIG_OLDN CONFIG_N\n"
FILES = {"Kconfig": TREE, "sdkconfig.rename": RENAMES}

CONFIGS_QUICK: List[Dict[str, str]] = [
    {},
    {"FOO_BAR": "y", "N": "7"},
    {"B": "n"},
    {"S": 'x\\y"z', "H": "0x2a"},
    {"NEWP": "y", "NEWI": "n"},
    {"N": "5"},  # user value equal to the default: only the `# default:` marker of sdkconfig changes
    {"S": "caf\u00e9 \u4e2d"},  # multi-byte UTF-8 in every output (bytes on disk != characters)
]
CONFIGS_THOROUGH = CONFIGS_QUICK + [
    {"U": "6", "B": "n"},  # hidden user value
    {"S": ""},
    {"NEWI": "n"},
    {"FOO_BAR": "y", "N": "7", "S": "line", "NEWP": "y"},
]

# Line boundaries of str.splitlines() that are NOT line boundaries when a text file is read (universal newlines know \n, \r, \r\n).
SEP_CHARS = ["\x0b", "\x0c", "\x1c", "\x1d", "\x1e", "\x85", "\u2028", "\u2029"]
SEP_CONFIGS: List[Dict[str, str]] = [{"S": f"p{c}q"} for c in SEP_CHARS] + [{"S": "\u2028a\x0b\x0c b\x1c\x1d\x1e\x85c\u2029", "N": "7"}]
SEP_BYTES = [c.encode("utf-8") for c in SEP_CHARS]

# The same characters in the Kconfig source: default value, symbol prompt, menu title, comment, help text.
TREE_SEP = (
    TREE.replace('default "a\\"b\\\\c d"', 'default "d' + "".join(f"{i}{c}" for i, c in enumerate(SEP_CHARS)) + 'e"')
    .replace('comment "a comment"', 'comment "a\x0ccom\x1ement\u2029"')
    .replace('menu "M1"', 'menu "M\x1d1\u2028"')
    .replace("N help.", "N\x0bhe\x85lp\x1c.")
    .replace('int "n"', 'int "n \x0c n"')
)
assert TREE_SEP.count("\x0c") == 3 and all(TREE_SEP.count(c) >= 2 for c in SEP_CHARS), "TREE_SEP was not built"
TREES = {"base": FILES, "sep": {"Kconfig": TREE_SEP, "sdkconfig.rename": RENAMES}}
SEP_TREE_CONFIGS: List[Dict[str, str]] = [{}, {"N": "7"}, {"S": "p\x0cq"}]

# part B sessions: indices into CONFIGS_QUICK (pairwise different texts in every save function's format)
HIST_QUICK = (0, 1, 3)
HIST_THOROUGH = (0, 1, 3, 4)
HIST_OLDER = 2  # the configuration of a pre-existing older `.old`
SAVERS = ("write_config", "kconfserver:save", "menuconfig:_do_save")


# --------------------------------------------------------------------------------------------------
# environment: tree + configurations -> instances / sdkconfig texts
# --------------------------------------------------------------------------------------------------


class Env:
    def __init__(self, files: Dict[str, str]):
        self.files = files
        self.root = os.path.join(impl.wdir(), "c13")
        self.kpath = impl.put_program(files)
        self.rpath = os.path.join(os.path.dirname(self.kpath), "sdkconfig.rename")
        self._sdk: Dict[str, str] = {}

    def inst(self, cfg: Dict[str, str]):
        i = impl.Inst(self.files)
        i.k.load_rename_files([self.rpath])
        for name in sorted(cfg):
            i.k.syms[name].set_value(cfg[name])
        return i

    def sdkconfig_text(self, cfg: Dict[str, str]) -> str:
        key = repr(sorted(cfg.items()))
        if key not in self._sdk:
            self._sdk[key] = self.inst(cfg).config_text()
        return self._sdk[key]

    def fresh(self, tag: str) -> str:
        d = os.path.join(self.root, tag)
        if os.path.lexists(d):
            shutil.rmtree(d)
        os.makedirs(d)
        return d


_envs: Dict[str, Env] = {}


def env(tree: str = "base") -> Env:
    if tree not in _envs:
        _envs[tree] = Env(TREES[tree])
    return _envs[tree]


# --------------------------------------------------------------------------------------------------
# generators
# --------------------------------------------------------------------------------------------------


class Gen:
    def __init__(self, name: str, site: str, dest: str, run: Callable[[Env, Dict[str, str], str], None], prepare: Optional[Callable[[str], None]] = None, same_only: bool = False):
        self.name, self.site, self.dest, self.run, self.prepare, self.same_only = name, site, dest, run, prepare, same_only


def _api(fn: Callable[[Any, str], Any], dest: str):
    def run(e: Env, cfg: Dict[str, str], d: str) -> None:
        fn(e.inst(cfg).k, os.path.join(d, dest))

    return run


def _prep_symlink(d: str) -> None:
    os.mkdir(os.path.join(d, "real"))
    os.symlink(os.path.join("real", "sdkconfig.real"), os.path.join(d, "sdkconfig"))


KCONFGEN_FORMATS = ("config", "header", "cmake", "docs", "json", "json_menus", "savedefconfig", "report", "cdep_tree")


def kconfgen_args(e: Env, fmt: str, d: str, inplace: bool) -> Tuple[List[str], str]:
    sdk = os.path.join(d, "sdkconfig" if inplace else "in.sdkconfig")
    out = sdk if inplace else os.path.join(d, "deps" if fmt == "cdep_tree" else "out." + fmt)
    args = ["--kconfig", e.kpath, "--config", sdk, "--sdkconfig-rename", e.rpath, "--env", "IDF_TARGET=esp32", "--output", fmt, out]
    return args, sdk


def kconfgen_inprocess(args: List[str]) -> None:
    """One kconfgen invocation = one process: no report state carried over, environment restored afterwards."""
    import threading

    import esp_kconfiglib.report as rep
    import kconfgen.core as kg

    if rep.KconfigReport._instance is not None:
        rep.KconfigReport._instance.reset()
    saved_env = dict(os.environ)
    hooks = (sys.excepthook, getattr(threading, "excepthook", None))
    try:
        kg.main.main(args=list(args), standalone_mode=False)
    finally:
        for k in list(os.environ):
            if k not in saved_env:
                del os.environ[k]
        for k, v in saved_env.items():
            if os.environ.get(k) != v:
                os.environ[k] = v
        sys.excepthook = hooks[0]
        if hooks[1] is not None:
            threading.excepthook = hooks[1]


def _kconfgen(fmt: str, how: str, inplace: bool = False):
    def run(e: Env, cfg: Dict[str, str], d: str) -> None:
        args, sdk = kconfgen_args(e, fmt, d, inplace)
        if not (inplace and os.path.exists(sdk)):
            with open(sdk, "w") as f:  # the project configuration kconfgen reads (in place: only the first time)
                f.write(e.sdkconfig_text(cfg))
            os.utime(sdk, ns=(EPOCH_NS, EPOCH_NS))
        if how == "inprocess":
            kconfgen_inprocess(args)
        else:
            ev = dict(os.environ)
            ev["TMPDIR"] = common.RUN_DIR
            p = subprocess.run([sys.executable, "-m", "kconfgen"] + args, env=ev, cwd=d, stdout=subprocess.PIPE, stderr=subprocess.PIPE, text=True, timeout=300)
            if p.returncode != 0:
                raise RuntimeError(f"kconfgen exited with {p.returncode}: {p.stderr[-300:]}")

    return run


def _server_save(k, p) -> None:
    import kconfserver.core as ks

    err = ks.handle_request(k, {"version": 3, "save": p})
    if err:
        raise RuntimeError(f"kconfserver save reported {err}")


def _menuconfig_save(k, p) -> None:
    import types

    from esp_menuconfig.app import MenuConfigApp

    stub = types.SimpleNamespace(state=types.SimpleNamespace(kconf=k, saved=False), notify=lambda *a, **kw: None)
    if MenuConfigApp._do_save(stub, p) is None:
        raise RuntimeError("menuconfig _do_save failed")


def saver(gen: str, wdep: bool) -> Tuple[str, Callable[[Any, str], None]]:
    """(call site, save function with backup enabled) of a part B save function"""
    if gen == "write_config":
        return "core.py:write_config", lambda k, p: k.write_config(p, save_old=True, write_deprecated=wdep)
    if gen == "kconfserver:save":
        return "kconfserver/core.py:handle_request", _server_save
    if gen == "menuconfig:_do_save":
        return "esp_menuconfig/app.py:_do_save", _menuconfig_save
    raise ValueError(gen)


def generators() -> Dict[str, Gen]:
    g: List[Gen] = [
        Gen("write_config", "core.py:write_config", "sdkconfig", _api(lambda k, p: k.write_config(p, save_old=False), "sdkconfig")),
        Gen("write_config:save_old", "core.py:write_config", "sdkconfig", _api(lambda k, p: k.write_config(p), "sdkconfig")),
        Gen("write_config:deprecated", "core.py:write_config", "sdkconfig", _api(lambda k, p: k.write_config(p, write_deprecated=True), "sdkconfig")),
        Gen("write_config:header", "core.py:write_config", "sdkconfig", _api(lambda k, p: k.write_config(p, header="# hdr\n"), "sdkconfig")),
        Gen("write_config:symlink", "core.py:write_config", "sdkconfig", _api(lambda k, p: k.write_config(p), "sdkconfig"), prepare=_prep_symlink),
        Gen("write_autoconf", "core.py:write_autoconf", "sdkconfig.h", _api(lambda k, p: k.write_autoconf(p), "sdkconfig.h")),
        Gen("write_autoconf:deprecated", "core.py:write_autoconf", "sdkconfig.h", _api(lambda k, p: k.write_autoconf(p, header="/* h */\n", write_deprecated=True), "sdkconfig.h")),
        Gen("sync_deps", "core.py:_write_old_vals", "deps/auto.conf", _api(lambda k, p: k.sync_deps(os.path.dirname(p)), "deps/auto.conf")),
    ]
    for labels, norm in itertools.product((False, True), repeat=2):
        g.append(Gen(f"write_min_config:labels={int(labels)},normalize_unset={int(norm)}", "core.py:write_min_config", "sdkconfig.defaults",
                     _api(lambda k, p, la=labels, no=norm: k.write_min_config(p, labels=la, normalize_unset=no), "sdkconfig.defaults")))
    g.append(Gen("write_min_config:header", "core.py:write_min_config", "sdkconfig.defaults", _api(lambda k, p: k.write_min_config(p, header="# min\n"), "sdkconfig.defaults")))
    for fmt in KCONFGEN_FORMATS:
        dest = "deps/auto.conf" if fmt == "cdep_tree" else "out." + fmt
        site = "kconfgen/core.py:write_cdep_tree" if fmt == "cdep_tree" else f"kconfgen/core.py:update_if_changed({fmt})"
        g.append(Gen(f"kconfgen:{fmt}", site, dest, _kconfgen(fmt, "inprocess")))
        g.append(Gen(f"kconfgen-subprocess:{fmt}", site, dest, _kconfgen(fmt, "subprocess")))
    # the two interactive front ends: the config server's `save` request handler and menuconfig's _do_save (real functions)
    g.append(Gen("kconfserver:save", "kconfserver/core.py:handle_request", "sdkconfig", _api(_server_save, "sdkconfig")))
    g.append(Gen("menuconfig:_do_save", "esp_menuconfig/app.py:_do_save", "sdkconfig", _api(_menuconfig_save, "sdkconfig")))
    g.append(Gen("kconfgen:config:inplace", "kconfgen/core.py:update_if_changed(config)", "sdkconfig", _kconfgen("config", "inprocess", inplace=True), same_only=True))
    return {x.name: x for x in g}


GENS: Optional[Dict[str, Gen]] = None


def gens() -> Dict[str, Gen]:
    global GENS
    if GENS is None:
        GENS = generators()
    return GENS


# --------------------------------------------------------------------------------------------------
# work list
# --------------------------------------------------------------------------------------------------


def histories(alphabet, saves: int) -> List[tuple]:
    """every sequence c0 .. c<saves> over the alphabet whose consecutive members differ"""
    out = [(x,) for x in alphabet]
    for _ in range(saves):
        out = [h + (x,) for h in out for x in alphabet if x != h[-1]]
    return out


def items(tier: str, seed: int):
    quick = tier == "quick"
    cfgs = CONFIGS_QUICK if quick else CONFIGS_THOROUGH
    out: List[dict] = []
    names = [n for n in gens() if not n.startswith("kconfgen-subprocess:")]
    # ---- part A: ordinary alphabet, separator alphabet, separator tree
    if quick:
        pairs = [(cfgs[a], cfgs[b]) for a, b in itertools.product(range(len(cfgs)), repeat=2)]
        for n, sc in enumerate(SEP_CONFIGS):
            pairs += [(sc, sc), (sc, cfgs[1]), (cfgs[1], sc), (sc, SEP_CONFIGS[(n + 1) % len(SEP_CONFIGS)])]
    else:
        allc = cfgs + SEP_CONFIGS
        pairs = [(a, b) for a, b in itertools.product(allc, repeat=2)]
    work = [("base", a, b) for a, b in pairs] + [("sep", a, b) for a, b in itertools.product(SEP_TREE_CONFIGS, repeat=2)]
    for n in names:
        for tree, a, b in work:
            if gens()[n].same_only and a != b:
                continue
            out.append({"part": "A", "gen": n, "a": a, "b": b, "tree": tree})
    sub: List[dict] = []
    for fmt in ("config", "header", "json") if quick else KCONFGEN_FORMATS:
        for a, b in ((1, 1), (1, 3)) if quick else ((1, 1), (1, 3), (0, 5), (4, 0)):
            sub.append({"part": "A", "gen": f"kconfgen-subprocess:{fmt}", "a": cfgs[a], "b": cfgs[b], "tree": "base"})
        sub.append({"part": "A", "gen": f"kconfgen-subprocess:{fmt}", "a": SEP_CONFIGS[-1], "b": SEP_CONFIGS[-1], "tree": "base"})
        if not quick:
            sub.append({"part": "A", "gen": f"kconfgen-subprocess:{fmt}", "a": {}, "b": {}, "tree": "sep"})
    # ---- part B: single saves over every ordered pair (direct API, fresh instance)
    kinds = ("regular", "symlink") if quick else ("regular", "symlink", "symlink_abs")
    for a, b in itertools.permutations(range(len(cfgs)), 2):
        for kind in kinds:
            for old in (False, True):
                for wdep in (False, True):
                    older = cfgs[[i for i in range(len(cfgs)) if i not in (a, b)][0]]
                    out.append({"part": "B", "a": cfgs[a], "b": cfgs[b], "older": older if old else None, "kind": kind, "write_deprecated": wdep})
    # ---- part B: sessions of 1..3 successive changed saves by one instance
    alphabet = HIST_QUICK if quick else HIST_THOROUGH
    for saves in (1, 2, 3):
        for h in histories(alphabet, saves):
            for gen in SAVERS:
                for load in (False, True):
                    for kind in kinds:
                        for old in (False,) if quick else (False, True):
                            for wdep in (False, True) if (gen == "write_config" and not quick) else (False,):
                                # a crash inside save j depends on c0..cj only and every prefix of a session is a work item of its own
                                # (same alphabet, same dimensions): each item enumerates the crash points of its LAST save, so that every
                                # (session prefix, crash point) is executed exactly once
                                out.append({"part": "B", "hist": [cfgs[i] for i in h], "gen": gen, "load": load, "older": cfgs[HIST_OLDER] if old else None,
                                            "kind": kind, "write_deprecated": wdep, "crash_in": "last_save"})
    # the subprocess items take seconds each: spread them over the list so that they land in different worker chunks
    stride = max(1, len(out) // max(1, len(sub)))
    for n, it in enumerate(sub):
        out.insert(n * (stride + 1), it)
    return out


# --------------------------------------------------------------------------------------------------
# part A
# --------------------------------------------------------------------------------------------------


def site_of(exc: BaseException) -> str:
    import traceback

    for fr in reversed(traceback.extract_tb(exc.__traceback__)):
        if "/mck/" not in fr.filename and "/site-packages/" not in fr.filename:
            return f"{os.path.basename(fr.filename)}:{fr.name}"
    return "?"


def set_epoch_all(d: str) -> None:
    for root, _dirs, fs in os.walk(d):
        for f in fs:
            p = os.path.join(root, f)
            if not os.path.islink(p):
                os.utime(p, ns=(EPOCH_NS, EPOCH_NS))


def full_stat(d: str) -> Dict[str, tuple]:
    """{relpath: (kind, ino, mtime_ns, size, payload)} for every non-directory under d (symlinks are not followed)"""
    out: Dict[str, tuple] = {}
    for root, _dirs, fs in os.walk(d):
        for f in sorted(fs):
            p = os.path.join(root, f)
            st = os.lstat(p)
            rel = os.path.relpath(p, d)
            if os.path.islink(p):
                out[rel] = ("l", st.st_ino, None, None, os.readlink(p))
            else:
                with open(p, "rb") as fh:
                    out[rel] = ("f", st.st_ino, st.st_mtime_ns, st.st_size, fh.read())
    return out


def read_through(p: str) -> Optional[bytes]:
    try:
        with open(p, "rb") as f:
            return f.read()
    except OSError:
        return None


def part_a(e: Env, gen_name: str, a: Dict[str, str], b: Dict[str, str], r: common.Result) -> None:
    g = gens()[gen_name]
    case = {"part": "A", "gen": gen_name, "a": a, "b": b, "files": e.files}
    same_cfg = a == b

    def generate(tag: str, cfgs: List[Dict[str, str]], log: Optional[list] = None, before: Optional[list] = None) -> Optional[str]:
        d = e.fresh(tag)
        if g.prepare:
            g.prepare(d)
        for n, cfg in enumerate(cfgs):
            last = n == len(cfgs) - 1
            if last and before is not None:
                set_epoch_all(d)
                before.append(full_stat(d))
            try:
                if last and log is not None:
                    with faultfs.FaultFS(d) as fs:
                        g.run(e, cfg, d)
                    log.extend(fs.log)
                else:
                    g.run(e, cfg, d)
            except (Exception, SystemExit) as ex:  # noqa: BLE001 -- observation
                s = site_of(ex)
                r.violation({"kind": "exception", "exc": type(ex).__name__, "site": s, "gen": gen_name, "generation": n},
                            f"{gen_name}: generation #{n} for {cfg} raised {type(ex).__name__}: {ex} at {s}", case)
                return None
        return d

    log: List[dict] = []
    bef: List[dict] = []
    d = generate("A", [a, b], log, bef)
    if d is None:
        return
    after = full_stat(d)
    before = bef[0]
    dref = generate("Aref", [b])
    if dref is None:
        return
    r.evals += 1
    # the destination, followed through a symlink
    drel = g.dest
    real_rel = os.path.relpath(os.path.realpath(os.path.join(d, drel)), os.path.realpath(d))
    ref = read_through(os.path.join(dref, drel))
    prev = before.get(real_rel, (None,) * 5)[4]
    new = after.get(real_rel, (None,) * 5)[4]
    if ref is None or prev is None:
        # observation, not a harness error: a generation completed without raising and its destination does not exist
        r.violation({"kind": "output_missing_after_generation", "site": g.site, "gen": gen_name, "generation": "first" if prev is None else "into_empty_directory"},
                    f"{gen_name}: {drel} does not exist after generating {a if prev is None else b} "
                    f"(files present: {sorted(before if prev is None else full_stat(dref))})", case)
        return
    if any(c in prev for c in SEP_BYTES) or any(c in ref for c in SEP_BYTES):
        # measured coverage of the text alphabet: a splitlines()-only line boundary really reached this output
        r.count("A_separator_in_" + ("unchanged" if ref == prev else "changed") + "_output")
    if ref == prev:
        r.count("A_unchanged_output" + ("" if same_cfg else "_for_changed_configuration"))
        r.outcome(("A", gen_name, "unchanged", common.h64(_norm(e, prev))))
        diffs = []
        for rel in sorted({real_rel, drel}):
            x, y = before.get(rel), after.get(rel)
            if x != y:
                names = ("kind", "st_ino", "st_mtime_ns", "st_size", "bytes")
                diffs += [names[i] for i in range(5) if y is None or x[i] != y[i]]
        ops = [o["op"] for o in log if o["path"] in (drel, real_rel)]
        if diffs or ops:
            r.violation(
                {"kind": "unchanged_output_rewritten", "site": g.site, "gen": gen_name, "changed": "+".join(sorted(set(diffs))) or "none", "ops": "+".join(sorted(set(ops))) or "none", "same_configuration": same_cfg},
                f"{gen_name}: regenerating {'the same configuration ' + str(a) if same_cfg else str(b) + ' over ' + str(a) + ' (identical output)'} touched {drel}: "
                f"changed {sorted(set(diffs))}, operations {ops}", case)
        if same_cfg:
            other = sorted(rel for rel in set(before) | set(after) if rel not in (drel, real_rel) and before.get(rel) != after.get(rel))
            if other:
                r.violation(
                    {"kind": "unchanged_regeneration_modifies_other_file", "site": g.site, "gen": gen_name, "files": "+".join(_classify_other(x) for x in other)},
                    f"{gen_name}: regenerating the same configuration {a} modified / created {other}", case)
    else:
        r.count("A_changed_output")
        r.outcome(("A", gen_name, "changed", common.h64(_norm(e, prev)), common.h64(_norm(e, ref))))
        if new != ref:
            r.violation(
                {"kind": "changed_output_not_written", "site": g.site, "gen": gen_name, "result": "old_bytes" if new == prev else "missing" if new is None else "other_bytes"},
                f"{gen_name}: generating {b} over the output of {a} left {new!r}, a generation into an empty directory gives {ref!r}", case)
        if gen_name in ("write_config:save_old", "write_config:symlink"):
            old = read_through(os.path.join(d, drel + ".old"))
            if old != prev:
                r.violation({"kind": "backup_is_not_previous", "site": "core.py:_save_old", "gen": gen_name, "result": "missing" if old is None else "other_bytes"},
                            f"{gen_name}: after saving {b} over {a}, {drel}.old holds {old!r} instead of the previous configuration", case)
            if gen_name == "write_config:symlink" and not os.path.islink(os.path.join(d, drel)):
                r.count("A_symlink_replaced_by_save")  # only a source comment ("Preserve symlinks") promises this: counted, not a violation


def _norm(e: Env, data: bytes) -> bytes:
    """outputs may embed the per-worker scratch path of the Kconfig file (json_menus ids): not part of a counted outcome"""
    base = os.path.dirname(e.kpath)
    return data.replace(base.encode(), b"<K>").replace(base.replace("/", "-").lstrip("-").encode(), b"<K>")


def _classify_other(rel: str) -> str:
    return "old" if rel.endswith(".old") else "cdep" if rel.endswith(".cdep") else "auto.conf" if rel.endswith("auto.conf") else "input" if "sdkconfig" in rel else "other"


# --------------------------------------------------------------------------------------------------
# part B
# --------------------------------------------------------------------------------------------------


def pattern(data: Optional[bytes], new: bytes, prev: bytes, others: List[Tuple[str, Optional[bytes]]]) -> str:
    if data is None:
        return "missing"
    if data == new:
        return "NEW"
    if data == prev:
        return "PREV"
    for name, text in others:
        if text is not None and data == text:
            return name
    if data == b"":
        return "empty"
    if new.startswith(data):
        return "prefix_of_NEW"
    if prev.startswith(data):
        return "prefix_of_PREV"
    return "other"


def op_class(op: dict, cut: Optional[int], dest_rels: Tuple[str, ...]) -> str:
    what = "old" if op["path"].endswith(".old") else "dest" if op["path"] in dest_rels else "other"
    s = f"{op['op']}:{what}"
    if op["op"] == "write" and cut is not None:
        s += ":cut=0" if cut == 0 else ":cut=all_but_one" if cut == op["n"] - 1 else ":cut=inside"
    return s


def _step(k, before: Dict[str, str], after: Dict[str, str]) -> None:
    """moves a session instance from configuration `before` to configuration `after`"""
    for name in sorted(before):
        if name not in after:
            k.syms[name].unset_value()
    for name in sorted(after):
        k.syms[name].set_value(after[name])


def _save_to_empty(save: Callable[[Any, str], None], k) -> bytes:
    p = impl.tmpfile("c13ref")
    save(k, p)
    data = read_through(p)
    for q in (p, p + ".old"):
        if os.path.lexists(q):
            os.unlink(q)
    if data is None:
        raise RuntimeError("the reference save into an empty location wrote nothing")
    return data


def session_texts(e: Env, save: Callable[[Any, str], None], hist: List[Dict[str, str]], load: bool) -> List[bytes]:
    """texts[0]: what an independent instance holding hist[0] saves; texts[j]: what a twin of the session (same load, same
    set/unset history up to step j) saves into an empty location"""
    texts = [_save_to_empty(save, e.inst(hist[0]).k)]
    for j in range(1, len(hist)):
        i = e.inst({})
        if load:
            p = impl.tmpfile("c13load")
            with open(p, "wb") as f:
                f.write(texts[0])
            i.k.load_config(p)
            os.unlink(p)
        for m in range(1, j + 1):
            _step(i.k, hist[m - 1], hist[m])
        texts.append(_save_to_empty(save, i.k))
    return texts


def part_b(e: Env, item: dict, r: common.Result, only: Optional[list] = None) -> None:
    hist: List[Dict[str, str]] = item["hist"] if "hist" in item else [item["a"], item["b"]]
    gen, load = item.get("gen", "write_config"), bool(item.get("load", False))
    older_cfg, kind, wdep = item["older"], item["kind"], item["write_deprecated"]
    nsaves = len(hist) - 1
    site, save = saver(gen, wdep)
    case = dict(item)
    case["files"] = e.files
    case["crash"] = None

    texts = session_texts(e, save, hist, load)
    older = _save_to_empty(save, e.inst(older_cfg).k) if older_cfg is not None else None
    if any(texts[j] == texts[j - 1] for j in range(1, len(texts))):
        r.skipped += 1  # outside the statement's second sentence: some save of the history saves nothing (part A covers it)
        return
    root = e.fresh("B")
    d = os.path.join(root, "proj")
    os.mkdir(d)
    dest = os.path.join(d, "sdkconfig")
    if kind == "regular":
        real = dest
    else:
        os.mkdir(os.path.join(d, "real"))
        real = os.path.join(d, "real", "sdkconfig.real")
        os.symlink(os.path.join("real", "sdkconfig.real") if kind == "symlink" else real, dest)
    with open(real, "wb") as f:
        f.write(texts[0])
    if older is not None:
        with open(dest + ".old", "wb") as f:
            f.write(older)
    pre = faultfs.snapshot(d)
    dest_rels = ("sdkconfig", os.path.relpath(real, d))
    what = f"{gen} session {' -> '.join(str(c) for c in hist)} ({kind}, .old {'present' if older is not None else 'absent'}, instance {'loaded from dest' if load else 'fresh'})"

    def session(crash: Optional[tuple], upto: int, seen: Optional[list] = None) -> Tuple[faultfs.FaultFS, List[int]]:
        """the session's saves 1..upto on a fresh instance; `seen` collects (dest, .old, dest still a symlink) after every save"""
        i = e.inst({})
        if load:
            i.k.load_config(dest)
        marks: List[int] = []
        with faultfs.FaultFS(d, crash=crash) as fs:
            try:
                for j in range(1, upto + 1):
                    _step(i.k, hist[j - 1], hist[j])
                    save(i.k, dest)
                    marks.append(len(fs.log))
                    if seen is not None:
                        seen.append((read_through(dest), read_through(dest + ".old"), os.path.islink(dest)))
            except faultfs.Crash:
                pass
        return fs, marks

    def names_for(j: int) -> List[Tuple[str, Optional[bytes]]]:
        return [(f"EARLIER{j - 1 - m}", texts[m]) for m in range(j - 2, -1, -1)] + [("OLDER", older)]

    # ---- crash-free
    seen: List[tuple] = []
    try:
        fs, marks = session(None, nsaves, seen)
    except Exception as ex:  # noqa: BLE001 -- observation
        s = site_of(ex)
        r.violation({"kind": "exception", "exc": type(ex).__name__, "site": s, "part": "B", "gen": gen, "dest_kind": kind, "save": "first" if not seen else "later"},
                    f"{what}: save #{len(seen) + 1} raised {type(ex).__name__}: {ex} at {s}", case)
        return
    dry = fs.log
    for j in range(1, nsaves + 1):
        r.evals += 1
        D, O, still_link = seen[j - 1]
        new, prev = texts[j], texts[j - 1]
        if kind != "regular" and not still_link:
            r.count("B_symlink_replaced_by_save")  # only a source comment ("Preserve symlinks") promises this: counted, not a violation
        if D != new or O != prev:
            pd, po = pattern(D, new, prev, names_for(j)), pattern(O, new, prev, names_for(j))
            r.violation(
                {"kind": "completed_save_wrong", "site": site, "gen": gen, "save": "first" if j == 1 else "later", "dest_kind": kind, "old_present": older is not None,
                 "dest": pd, "old": po, "dest_is_symlink": still_link},
                f"{what}: after the completed save #{j} dest is {pd}, .old is {po} (expected NEW / PREV), symlink kept: {still_link}", case)
    r.count("B_saves", nsaves)
    r.count("B_sessions")
    if nsaves > 1:
        r.count(f"B_sessions_of_{nsaves}_saves")
    r.count("B_ops", len(dry))
    # per save: its window of operations; the backup step is everything before the open(dest, "w") of the new configuration;
    # first operation that modifies the destination itself (as target, or as source of a rename): while none has completed
    # the destination is the untouched previous file, whatever the implementation considers its backup step to be
    windows = []
    for j in range(1, nsaves + 1):
        lo, hi = (marks[j - 2] if j > 1 else 0), marks[j - 1]
        opens = [o["i"] for o in dry[lo:hi] if o["op"] == "open" and o["path"] in dest_rels and not o["path"].endswith(".old")]
        touching = [o["i"] for o in dry[lo:hi] if o["path"] in dest_rels or o.get("src") in dest_rels]
        windows.append((lo, hi, opens[-1] if opens else hi, touching[0] if touching else hi))
    # ---- every crash point of every save
    for point in faultfs.crash_points(dry):
        if only is not None and tuple(only) != point:
            continue
        j = next(n + 1 for n, w in enumerate(windows) if w[0] <= point[0] < w[1])
        if only is None and item.get("crash_in") == "last_save" and j != nsaves:
            continue  # executed by the work item of the session prefix c0 .. cj
        lo, hi, backup_end, first_dest_op = windows[j - 1]
        new, prev = texts[j], texts[j - 1]
        faultfs.restore(d, pre)
        try:
            fs2, _ = session(point, j)
        except Exception as ex:  # noqa: BLE001
            raise RuntimeError(f"crashed session raised {ex!r} before its crash point") from ex
        if not fs2.crashed or not faultfs.same_prefix(dry, fs2.log) or len(fs2.log) != point[0] + 1:
            raise RuntimeError(f"crashed session diverged from the dry run: {fs2.log} vs {dry} at {point}")
        r.evals += 1
        r.count("crash_points")
        if j > 1:
            r.count("crash_points_in_later_save")
        if point[1] is not None:
            r.count("write_cuts")
        cls = op_class(dry[point[0]], point[1], dest_rels)
        r.count("crash@" + cls)
        D, O = read_through(dest), read_through(dest + ".old")
        pd, po = pattern(D, new, prev, names_for(j)), pattern(O, new, prev, names_for(j))
        r.outcome(("B", gen, kind, older is not None, load, "first" if j == 1 else "later", cls, pd, po))
        in_backup = point[0] < backup_end or point[0] <= first_dest_op
        if not (D == new or O == prev or (in_backup and D == prev)):
            c = dict(case)
            c["crash"] = [point[0], point[1]]
            r.violation(
                {"kind": "both_copies_lost", "site": site, "gen": gen, "save": "first" if j == 1 else "later", "dest_kind": kind, "old_present": older is not None,
                 "crash_at": cls, "dest": pd, "old": po, "backup_finished": not in_backup},
                f"{what}: save #{j} of {nsaves} dies at {cls} {point} (operations of this save {[(o['op'], o['path']) for o in dry[lo:hi]]}): "
                f"dest is {pd}, .old is {po} -- neither the complete new configuration nor the complete previous one (the text save #{j} found) survives", c)


# --------------------------------------------------------------------------------------------------


def run_item(item) -> common.Result:
    r = common.Result()
    r.programs = 1
    e = env(item.get("tree", "base"))
    if item["part"] == "A":
        part_a(e, item["gen"], item["a"], item["b"], r)
        r.sample = {"part": "A", "generator": item["gen"], "tree": item.get("tree", "base"), "a": item["a"], "b": item["b"]}
    else:
        part_b(e, item, r)
        r.sample = {"part": "B", "dest": item["kind"], "older_old_present": item["older"] is not None, "history": item.get("hist") or [item["a"], item["b"]],
                    "save_function": item.get("gen", "write_config"), "instance_loaded_dest": bool(item.get("load")), "write_deprecated": item["write_deprecated"], "tree": TREE}
    return r


def replay(case) -> List[dict]:
    r = common.Result()
    e = Env(case["files"])
    if case["part"] == "A":
        part_a(e, case["gen"], case["a"], case["b"], r)
    else:
        part_b(e, case, r, only=case.get("crash"))
    return r.viols

"""C04 -- both parsers accept the same language and build the same configuration.

Every program of the families below is parsed by the legacy line parser (parser_version=1) and by the pyparsing
parser (parser_version=2).  Oracle: accept/reject agree (an exception that is not a KconfigError is a disagreement by
itself); on accept the structural dumps (mck/dump.py) are equal and the sdkconfig / header / JSON outputs are equal in
the all-default configuration and in every single-option perturbation of it.

String literals (family `strlit`): every literal built from an ordered sequence of content features -- the other kind of
quote, an escaped quote of the own kind, an escaped backslash, an escaped quote of the other kind, `$(MACRO)`, `$(ENV)`,
`${ENV}`, `$ENV`, a `#` -- of length <= 2 (quick) / 3 (thorough, a feature may occur twice), joined by `-` or by one blank,
with / without a leading and a trailing blank, double- and single-quoted, is placed in every position that takes a string:
inline prompt (+ `if`), `prompt` (+ `if`), choice prompt, `warning`, comment / menu / mainmenu title, `default` value
(+ `if`), comparison operand in depends / prompt-if / if-entry / visible-if / select-if (right and left of the operator),
two literals on one line (the second one carrying the escape or the reference), `set` / `set default` value, macro value,
`rsource` path.  Where the documents say nothing a feature is not generated (references in prompts / titles, escapes and
references in macro values, escapes and `$(..)` in paths, single quotes for menu / mainmenu titles and paths).  A violation
of this family is named by the smallest literal that still shows the same failure class (`trigger`).

Environment dimension: the referenced variable MCKENV is, besides "set to plain text" (all programs), {unset, set to the
empty string, set to text with a blank, set to text with both kinds of quote} (ENV_STATES) for the string-literal programs
whose literal holds an environment reference -- every reference form `$(ENV)`, `${ENV}`, `$ENV`, as the whole literal
(+ leading / trailing blank) and embedded next to every other feature (quick: `${ENV}` only for the embedded ones), in every
value and comparison position -- and for the programs of the expr / symform / lexical families that mention MCKENV.
Source paths are not generated under these states (the documents say nothing about unset / empty variables in paths).

Every parse runs under a CPU-time limit; a parser that does not return is reported like a non-KconfigError exception.
"""

from __future__ import annotations

import glob
import itertools
import json
import os
import signal
from typing import Any, Dict, Iterator, List, Optional, Tuple

from .. import common, dump, impl, kgen

ID = "C04"
LEVEL = "exploration"
RULE = (
    "all programs of: (a) option matrix (every option kind, with/without `if`, for config/menuconfig/choice, alone and in all "
    "ordered pairs); (b) every expression of the expression alphabet (all symbol forms, all operators, precedence probes, depth<=2 "
    "quick / 3 thorough) in every expression position; (c) all structure shapes with <=3 (quick) / 4 (thorough) entries over "
    "{menu, if, choice, comment, config, menuconfig, (o)(r)source, macro}; (d) lexical variants of fixed programs; (e) a negative "
    "family both parsers must reject; (f) every Kconfig fixture under test/; (g) string literals: {double, single quoted} x every "
    "ordered sequence of <=2 (quick) / <=3 (thorough, repeats allowed) of {other quote kind, escaped own quote, escaped backslash, "
    "escaped other quote, $(MACRO), $(ENV), ${ENV}, $ENV, #} (quick: 6 of the 9) x {joined by '-', by one blank} x {leading, "
    "trailing blank} x 24 positions (prompts, titles, default values, comparison operands on either side, two literals on one "
    "line, set values, macro value, rsource path); violations of (g) carry the minimal literal of the same position that shows "
    "the same failure class; (h) environment states of the referenced variable {unset, empty, text with a blank, text with quotes} x "
    "every string-literal program of <=1 feature (+ leading / trailing blank) holding $(ENV) / ${ENV} / $ENV, and of 2 features holding one "
    "(quick: ${ENV}; thorough: any form), in the 14 value / comparison positions x {dq, sq}, plus the expr / symform / lexical programs "
    "that mention the variable. distinct_nontrivial = distinct (accept/reject, structural dump) outcomes."
)
ASSUMPTIONS = [
    "structural equality is judged on mck/dump.py's dump (node order, kinds, names, types, prompts, expr_str of every condition, help, parents, per-symbol properties)",
    "environment for $-expansion: MCKENV=envval is set, MCKUNSET is unset; programs with an `env` field override MCKENV for both parses (None = unset)",
    "string literals: backslash escapes and unescaped quotes of the other kind are part of the language in every string position (shipped fixtures and language.rst examples use them); macro / environment references only in values and expression operands; menu / mainmenu titles and source paths only double-quoted (language.rst)",
    "a parse that uses more than 2 s (string-literal programs) / 20 s (others) of CPU time is reported as non-termination (typical parse: 1..300 ms)",
]

I = "    "


def mm(body: str) -> str:
    return 'mainmenu "T"\n\n' + body


def cfgblock(name: str, lines: List[str], kw: str = "config", ind: str = I) -> str:
    return f"{ind}{kw} {name}\n" + "".join(f"{ind}{I}{l}\n" for l in lines) + "\n"


AUX = cfgblock("A", ['bool "a"']) + cfgblock("B", ['bool "b"']) + cfgblock("N", ['int "n"', "default 3"]) + cfgblock("S", ['string "s"', 'default "v"']) + cfgblock("H", ['hex "h"', "default 0x5"]) + cfgblock("TB", ['bool "tb"']) + cfgblock("TI", ['int "ti"', "default 1"]) + cfgblock("TS", ['string "ts"', 'default "x"'])


# --------------------------------------------------------------------------------------------------
# (a) option matrix
# --------------------------------------------------------------------------------------------------

def option_lines(typ: str, cond: str) -> Dict[str, str]:
    c = f" if {cond}" if cond else ""
    d: Dict[str, str] = {
        "prompt": f'prompt "p"{c}',
        "depends": "depends on A" + (f" && {cond}" if cond else ""),
        "help": "help\n" + I * 3 + "Some help text.\n" + "\n" + I * 3 + "Second paragraph." if not cond else "help\n" + I * 3 + "One line.",
        "warning": 'warning "careful"',
    }
    if typ == "bool":
        d.update({"default": f"default y{c}", "default_sym": f"default B{c}", "select": f"select TB{c}", "imply": f"imply TB{c}",
                  "set": f"set TI=7{c}", "set_str": f'set TS="w"{c}', "set_default": f"set default TI=8{c}", "set_sym": f"set TS=S{c}"})
    elif typ == "int":
        d.update({"default": f"default 5{c}", "default_sym": f"default N{c}", "range": f"range 1 9{c}", "range_sym": f"range N 99{c}", "default_neg": f"default -4{c}"})
    elif typ == "hex":
        d.update({"default": f"default 0x1F{c}", "range": f"range 0x0 0xff{c}"})
    elif typ == "string":
        d.update({"default": f'default "str"{c}', "default_sym": f"default S{c}", "default_esc": f'default "a\\"b"{c}', "default_if_word": f'default "a if b"{c}',
                  "default_hash": f'default "a # b"{c}', "default_2sp": f'default "two  spaces"{c}', "default_sq": f"default 'single'{c}"})
    elif typ == "float":
        d.update({"default": f"default 1.5{c}", "range": f"range 0.5 9.5{c}", "default_exp": f"default 1e3{c}"})
    return d


def fam_options(tier: str) -> Iterator[Dict[str, Any]]:
    for kw in ("config", "menuconfig"):
        for typ in ("bool", "int", "hex", "string", "float"):
            for cond in ("", "B"):
                opts = option_lines(typ, cond)
                names = sorted(opts)
                # inline prompt forms
                for pform in (f'{typ} "inline"', f'{typ} "inline" if B', typ):
                    yield {"family": "opt1", "construct": f"{kw}/{typ}/typeline:{'if' in pform}", "files": {"Kconfig": mm(AUX + cfgblock("T", [pform], kw))}}
                for o in names:
                    yield {"family": "opt1", "construct": f"{kw}/{typ}/{o}/{'if' if cond else 'plain'}", "files": {"Kconfig": mm(AUX + cfgblock("T", [f'{typ} "t"' if o != "prompt" else typ, opts[o]], kw))}}
                if kw == "menuconfig" and tier == "quick":
                    continue
                for o1, o2 in itertools.permutations(names, 2):
                    if "help" == o1:
                        continue  # help must be last in its block for parser 1 (everything indented after it is help text)
                    if tier == "quick" and cond and typ not in ("bool", "string"):
                        continue
                    first = f'{typ} "t"' if "prompt" not in (o1, o2) else typ
                    yield {"family": "opt2", "construct": f"{typ}/{o1}+{o2}", "files": {"Kconfig": mm(AUX + cfgblock("T", [first, opts[o1], opts[o2]], kw))}}
    # choice options
    members = cfgblock("M1", ['bool "m1"'], ind=I * 2) + cfgblock("M2", ['bool "m2"'], ind=I * 2)
    copts = {
        "prompt": 'prompt "c"', "prompt_if": 'prompt "c" if B', "bool": "bool", "bool_prompt": 'bool "c"', "default": "default M2", "default_if": "default M2 if B",
        "depends": "depends on A", "help": "help\n" + I * 3 + "Choice help.",
    }
    for name in ("", "CH"):
        for n in range(1, 4):
            for combo in itertools.permutations(sorted(copts), n):
                if "help" in combo[:-1]:
                    continue
                if n == 3 and tier == "quick" and name:
                    continue
                if sum(1 for x in combo if x.startswith("prompt") or x == "bool_prompt") > 1:
                    continue
                body = f"{I}choice{' ' + name if name else ''}\n" + "".join(f"{I}{I}{copts[o]}\n" for o in combo) + "\n" + members + f"{I}endchoice\n"
                yield {"family": "choiceopt", "construct": "+".join(combo), "files": {"Kconfig": mm(AUX + body)}}
    # menu / comment options
    for opts in (["depends on A"], ["visible if B"], ["depends on A", "visible if B"], ["visible if B", "depends on A"], ["depends on A", "depends on B"], [],
                 ["visible if A", "visible if B"], ["visible if A", "depends on B", "visible if B"]):
        body = f'{I}menu "m"\n' + "".join(f"{I}{I}{o}\n" for o in opts) + "\n" + cfgblock("X", ['bool "x"'], ind=I * 2) + f"{I}endmenu\n"
        yield {"family": "menuopt", "construct": "+".join(opts) or "none", "files": {"Kconfig": mm(AUX + body)}}
    for opts in (["depends on A"], ["depends on A", "depends on B"], []):
        body = f'{I}comment "note"\n' + "".join(f"{I}{I}{o}\n" for o in opts) + "\n"
        yield {"family": "commentopt", "construct": "+".join(opts) or "none", "files": {"Kconfig": mm(AUX + body + cfgblock("X", ['bool "x"']))}}


# --------------------------------------------------------------------------------------------------
# (b) expressions in every position
# --------------------------------------------------------------------------------------------------

SYMFORMS = ["A", "y", "n", '"y"', "0x1F", "-5", "7", "1.5", "1.2.3", '"str"', '"a\\"b"', "'sq'", "$(MAC)", '"$(MAC)"', '"${MCKENV}"', '"${MCKUNSET}"', '"$(MCKUNSET)"', "UNDEF"]


def expr_alphabet(tier: str) -> List[str]:
    ex: List[str] = ["A", "!A", "(A)", "!(A)", "!!A", "A && B", "A || B", "A&&B", "A||B"]
    for op in ("=", "!=", "<", "<=", ">", ">="):
        ex += [f"N {op} 3", f"N{op}3", f"S {op} \"v\"", f"N {op} H"]
    for f in SYMFORMS:
        ex += [f"S = {f}", f"{f} != N"]
    prec = ["A || B && C", "A && B || C", "!A && B", "!A = y", "!(A && B)", "!(A || B) && C", "(A || B) && C", "A || (B && C)", "A && B && C", "A || B || C",
            "A && (B || (C && D))", "((A))", "A = y && B != n", "N < 5 || N >= 7 && A", "!A || !B", "A && !B && !C", "(A && B) || (C && D)", "!(!A)"]
    ex += prec
    if tier == "thorough":
        atoms = ["A", "!B", "N = 3", "S != \"v\"", "(A || C)"]
        for a, b, c in itertools.product(atoms, repeat=3):
            ex.append(f"{a} && {b} || {c}")
            ex.append(f"{a} || {b} && {c}")
            ex.append(f"!({a} && {b}) || {c}")
    return list(dict.fromkeys(ex))


POSITIONS = {
    "depends": lambda e: cfgblock("T", ['bool "t"', f"depends on {e}"]),
    "prompt_if": lambda e: cfgblock("T", ["bool", f'prompt "t" if {e}']),
    "inline_prompt_if": lambda e: cfgblock("T", [f'bool "t" if {e}']),
    "default_if": lambda e: cfgblock("T", ['int "t"', f"default 4 if {e}", "default 2"]),
    "default_value_expr": lambda e: cfgblock("T", ['bool "t"', f"default {e}"]),
    "range_if": lambda e: cfgblock("T", ['int "t"', f"range 1 9 if {e}", "default 2"]),
    "select_if": lambda e: cfgblock("T", ['bool "t"', f"select TB if {e}"]),
    "imply_if": lambda e: cfgblock("T", ['bool "t"', f"imply TB if {e}"]),
    "set_if": lambda e: cfgblock("T", ['bool "t"', f"set TI=7 if {e}"]),
    "set_default_if": lambda e: cfgblock("T", ['bool "t"', f"set default TI=7 if {e}"]),
    "menu_depends": lambda e: f'{I}menu "m"\n{I}{I}depends on {e}\n\n' + cfgblock("T", ['bool "t"'], ind=I * 2) + f"{I}endmenu\n",
    "menu_visible_if": lambda e: f'{I}menu "m"\n{I}{I}visible if {e}\n\n' + cfgblock("T", ['bool "t"'], ind=I * 2) + f"{I}endmenu\n",
    "if_entry": lambda e: f"{I}if {e}\n\n" + cfgblock("T", ['bool "t"'], ind=I * 2) + f"{I}endif\n",
    "choice_prompt_if": lambda e: f'{I}choice\n{I}{I}prompt "c" if {e}\n\n' + cfgblock("T", ['bool "t"'], ind=I * 2) + f"{I}endchoice\n",
    "choice_default_if": lambda e: f'{I}choice\n{I}{I}prompt "c"\n{I}{I}default T if {e}\n\n' + cfgblock("T0", ['bool "t0"'], ind=I * 2) + cfgblock("T", ['bool "t"'], ind=I * 2) + f"{I}endchoice\n",
    "comment_depends": lambda e: f'{I}comment "c"\n{I}{I}depends on {e}\n\n' + cfgblock("T", ['bool "t"']),
}
AUX2 = AUX + cfgblock("C", ['bool "c"']) + cfgblock("D", ['bool "d"'])


def fam_expr(tier: str) -> Iterator[Dict[str, Any]]:
    exprs = expr_alphabet(tier)
    positions = list(POSITIONS)
    quick_positions = ("depends", "prompt_if", "default_if", "imply_if", "set_if", "menu_visible_if", "if_entry", "choice_default_if")
    for pos in positions:
        for e in exprs:
            if pos == "default_value_expr" and any(x in e for x in ('"', "'", "$", "0x", "1.5", "1.2.3", "-5", "7")) and "=" not in e:
                continue
            if tier == "quick" and pos not in quick_positions and e not in exprs[:9]:
                continue
            yield {"family": "expr", "construct": f"{pos}", "expr": e, "files": {"Kconfig": mm("MAC = 42\n\n" + AUX2 + POSITIONS[pos](e))}}
    # symbol forms as VALUES (default / range / set)
    for f in SYMFORMS:
        for typ, line in (("string", "default {}"), ("int", "default {}"), ("hex", "default {}"), ("float", "default {}"), ("int", "range {} 99"), ("int", "range 0 {}")):
            yield {"family": "symform", "construct": f"{typ}/{line.split()[0]}", "expr": f, "files": {"Kconfig": mm("MAC = 42\n\n" + AUX + cfgblock("T", [f'{typ} "t"', line.format(f)]))}}
        yield {"family": "symform", "construct": "set_value", "expr": f, "files": {"Kconfig": mm("MAC = 42\n\n" + AUX + cfgblock("T", ['bool "t"', f"set TS={f}"]))}}
        yield {"family": "symform", "construct": "set_default_value", "expr": f, "files": {"Kconfig": mm("MAC = 42\n\n" + AUX + cfgblock("T", ['bool "t"', f"set default TI={f}"]))}}
    for name, op, val in (("M1", "=", "5"), ("M1", ":=", "5"), ("M2", "=", '"text"'), ("M3", "=", "0x10"), ("M4", ":=", "y"), ("M5", "=", "1.5"), ("M6", "=", "-3")):
        yield {"family": "macro", "construct": f"{op}/{val}", "files": {"Kconfig": mm(f"{I}{name} {op} {val}\n\n" + AUX + cfgblock("T", ['string "t"', f'default "$({name})"']) + cfgblock("T2", ['int "t2"', f"default $({name})"] if val in ("5", "-3") else ['string "t2"', f'default "$({name})"']))}}


# --------------------------------------------------------------------------------------------------
# (c) structure shapes
# --------------------------------------------------------------------------------------------------

LEAVES = ("config", "menuconfig", "comment", "macro", "rsource", "orsource_missing", "source_abs", "osource")
CONTAINERS = ("menu", "if", "choice")


def shapes(n: int) -> Iterator[list]:
    """all ordered forests with exactly n nodes over LEAVES + CONTAINERS (containers have a child forest)"""
    if n == 0:
        yield []
        return
    for first_size in range(1, n + 1):
        for rest in shapes(n - first_size):
            if first_size == 1:
                for k in LEAVES:
                    yield [(k, None)] + rest
            for k in CONTAINERS:
                for kids in shapes(first_size - 1):
                    yield [(k, kids)] + rest


class Namer:
    def __init__(self):
        self.i = 0
        self.files: Dict[str, str] = {}

    def nxt(self) -> int:
        self.i += 1
        return self.i


def render_shape(forest: list, ind: str, nm: Namer, in_choice: bool = False) -> str:
    out = ""
    for k, kids in forest:
        i = nm.nxt()
        if k == "config":
            out += cfgblock(f"X{i}", [f'bool "x{i}"'], ind=ind)
        elif k == "menuconfig":
            out += cfgblock(f"X{i}", [f'bool "x{i}"'], kw="menuconfig", ind=ind)
        elif k == "comment":
            out += f'{ind}comment "c{i}"\n\n'
        elif k == "macro":
            out += f"{ind}MV{i} = {i}\n\n"
        elif k in ("rsource", "osource", "source_abs"):
            fn = f"Kconfig.s{i}"
            nm.files[fn] = cfgblock(f"X{i}", [f'bool "x{i}"'], ind="")
            if k == "rsource":
                out += f'{ind}rsource "{fn}"\n\n'
            elif k == "osource":
                out += f'{ind}osource "$MCKDIR/{fn}"\n\n'
            else:
                out += f'{ind}source "$MCKDIR/{fn}"\n\n'
        elif k == "orsource_missing":
            out += f'{ind}orsource "Kconfig.missing{i}"\n\n'
        elif k == "menu":
            out += f'{ind}menu "m{i}"\n\n' + render_shape(kids, ind + I, nm) + f"{ind}endmenu\n\n"
        elif k == "if":
            out += f"{ind}if A\n\n" + render_shape(kids, ind + I, nm, in_choice) + f"{ind}endif\n\n"
        elif k == "choice":
            out += f'{ind}choice\n{ind}{I}prompt "ch{i}"\n\n' + render_shape(kids, ind + I, nm, True) + f"{ind}endchoice\n\n"
    return out


def fam_structure(tier: str) -> Iterator[Dict[str, Any]]:
    maxn = 3 if tier == "quick" else 4
    for n in range(1, maxn + 1):
        for forest in shapes(n):
            nm = Namer()
            body = render_shape(forest, I, nm)
            files = {"Kconfig": mm(cfgblock("A", ['bool "a"']) + body)}
            files.update(nm.files)
            yield {"family": "structure", "construct": shape_sig(forest), "files": files, "needs_dir": True}


def shape_sig(forest) -> str:
    return "[" + ",".join(k + (shape_sig(kids) if kids is not None else "") for k, kids in forest) + "]"


# --------------------------------------------------------------------------------------------------
# (d) lexical variants
# --------------------------------------------------------------------------------------------------


def fam_lexical(tier: str) -> Iterator[Dict[str, Any]]:
    base_cfg = lambda lines: mm(AUX + cfgblock("T", lines))  # noqa: E731
    V = {
        "inline_comment_after_option": base_cfg(['bool "t" # trailing comment', "default y # another"]),
        "inline_comment_after_config": mm(AUX + f"{I}config T # ignore me\n{I}{I}bool \"t\"\n"),
        "hash_in_prompt": base_cfg(['bool "t # not a comment"']),
        "hash_in_string_default": base_cfg(['string "t"', 'default "a#b"']),
        "continuation_in_depends": base_cfg(['bool "t"', "depends on A && \\\n" + I * 3 + "B"]),
        "continuation_in_default": base_cfg(['int "t"', "default 5 if A || \\\n" + I * 3 + "B", "default 1"]),
        "blank_line_inside_block": mm(AUX + f'{I}config T\n{I}{I}bool "t"\n\n{I}{I}default y\n'),
        "help_blank_lines": base_cfg(['bool "t"', "help\n" + I * 3 + "first\n\n" + I * 3 + "second\n\n\n" + I * 3 + "third"]),
        "help_overindented": base_cfg(['bool "t"', "help\n" + I * 3 + "first\n" + I * 5 + "deeper\n" + I * 3 + "back"]),
        "help_with_keywords": base_cfg(['bool "t"', "help\n" + I * 3 + "config FOO is mentioned\n" + I * 3 + "default y if that"]),
        "tabs_for_indent": 'mainmenu "T"\n\n' + "config A\n\tbool \"a\"\n\nconfig T\n\tbool \"t\"\n\tdepends on A\n",
        "single_quotes_prompt": base_cfg(["bool 't'"]),
        "single_in_double": base_cfg(['bool "it\'s"']),
        "double_in_single": base_cfg(["bool 'say \"hi\"'"]),
        "prompt_two_blanks": base_cfg(['bool "two  blanks"']),
        "prompt_word_if": base_cfg(['bool "on if off"']),
        "prompt_leading_trailing_blank": base_cfg(['bool " padded "']),
        "prompt_escaped_quote": base_cfg(['bool "a \\"q\\" b"']),
        "no_space_around_ops": base_cfg(['bool "t"', "depends on A&&B||!A"]),
        "extra_spaces": base_cfg(['bool   "t"', "depends   on   A", "default   y   if   B"]),
        "trailing_spaces": mm(AUX + f'{I}config T   \n{I}{I}bool "t"   \n{I}{I}default y   \n'),
        "menu_title_special": mm(AUX + f'{I}menu "a # b if c"\n\n' + cfgblock("T", ['bool "t"'], ind=I * 2) + f"{I}endmenu\n"),
        "comment_text_special": mm(AUX + f'{I}comment "x  y # z"\n\n' + cfgblock("T", ['bool "t"'])),
        "mainmenu_special": 'mainmenu "My  Title # 1"\n\n' + cfgblock("T", ['bool "t"']),
        "no_blank_between_entries": 'mainmenu "T"\n' + f'{I}config A\n{I}{I}bool "a"\n{I}config T\n{I}{I}bool "t"\n{I}{I}depends on A\n',
        "no_indent_under_mainmenu": 'mainmenu "T"\n\nconfig A\n    bool "a"\n\nconfig T\n    bool "t"\n    default y if A\n',
        "comment_lines_everywhere": 'mainmenu "T"\n# c1\n\n    # c2\n' + f'{I}config T\n{I}{I}# c3\n{I}{I}bool "t"\n{I}{I}# c4\n{I}{I}default y\n# c5\n',
        "lowercase_name": mm(cfgblock("lower_case", ['bool "l"'])),
        "digits_name": mm(cfgblock("X9_9", ['bool "l"']) + cfgblock("T", ['bool "t"', "depends on X9_9"])),
        "type_after_options": base_cfg(["default y", 'bool "t"']),
        "prompt_before_type": base_cfg(['prompt "t"', "bool"]),
        "multiple_depends": base_cfg(['bool "t"', "depends on A", "depends on B"]),
        "multiple_defaults_ranges": base_cfg(['int "t"', "range 1 5 if A", "range 2 8", "default 3 if B", "default 4"]),
        "string_default_backslash": base_cfg(['string "t"', 'default "a\\\\b"']),
        "string_default_empty": base_cfg(['string "t"', 'default ""']),
        "int_default_quoted": base_cfg(['int "t"', 'default "7"']),
        "bool_default_quoted": base_cfg(['bool "t"', 'default "y"']),
        "option_env": base_cfg(['string "t"', 'option env="MCKENV"']),
        "env_in_string": base_cfg(['string "t"', 'default "pre-${MCKENV}-post"']),
        "env_dollar_plain": base_cfg(['string "t"', 'default "$MCKENV"']),
        "endmenu_comment": mm(f'{I}menu "m"\n\n' + cfgblock("T", ['bool "t"'], ind=I * 2) + f"{I}endmenu # m\n"),
        "if_parenthesised": mm(AUX + f"{I}if (A)\n\n" + cfgblock("T", ['bool "t"'], ind=I * 2) + f"{I}endif\n"),
        "choice_with_type_and_members_ifs": mm(AUX + f'{I}choice CH\n{I}{I}bool "c"\n{I}{I}default M2 if A\n\n{I}{I}if B\n\n' + cfgblock("M1", ['bool "m1"'], ind=I * 3) + f"{I}{I}endif\n\n" + cfgblock("M2", ['bool "m2"'], ind=I * 2) + f"{I}endchoice\n"),
        "member_depends_on_previous": mm(f'{I}choice\n{I}{I}prompt "c"\n\n' + cfgblock("M1", ['bool "m1"'], ind=I * 2) + cfgblock("M2", ['bool "m2"', "depends on M1"], ind=I * 2) + f"{I}endchoice\n"),
        "implicit_submenu": mm(cfgblock("P", ['bool "p"']) + cfgblock("Q", ['bool "q"', "depends on P"]) + cfgblock("R", ['bool "r"', "depends on Q"]) + cfgblock("Z", ['bool "z"'])),
        "symbol_defined_twice": mm(AUX + cfgblock("T", ['bool "t"', "default y"]) + cfgblock("T", ["bool", "default n if A"])),
        "ignore_pragma": mm(AUX + f'{I}config T # ignore: multiple-definition\n{I}{I}bool "t"\n\n' + cfgblock("T", ["bool"])),
        "set_spacing_variants": base_cfg(['bool "t"', "set TI = 7", 'set TS="w"', "set default TI= 9"]),
        "warning_then_help": base_cfg(['bool "t"', 'warning "w  w"', "help\n" + I * 3 + "h"]),
        "deep_nesting": mm(AUX + f'{I}menu "m1"\n{I}{I}depends on A\n\n{I}{I}if B\n\n{I}{I}{I}menu "m2"\n{I}{I}{I}{I}visible if A\n\n' + cfgblock("T", ['bool "t"'], ind=I * 4) + f"{I}{I}{I}endmenu\n\n{I}{I}endif\n\n{I}endmenu\n"),
    }
    for name, text in V.items():
        yield {"family": "lexical", "construct": name, "files": {"Kconfig": text}}


# --------------------------------------------------------------------------------------------------
# (e) negative family
# --------------------------------------------------------------------------------------------------


def fam_negative(tier: str) -> Iterator[Dict[str, Any]]:
    N = {
        "missing_endmenu": mm(f'{I}menu "m"\n\n' + cfgblock("T", ['bool "t"'], ind=I * 2)),
        "missing_endif": mm(f"{I}if A\n\n" + cfgblock("T", ['bool "t"'], ind=I * 2)),
        "missing_endchoice": mm(f'{I}choice\n{I}{I}prompt "c"\n\n' + cfgblock("T", ['bool "t"'], ind=I * 2)),
        "stray_endmenu": mm(cfgblock("T", ['bool "t"']) + f"{I}endmenu\n"),
        "stray_endif": mm(cfgblock("T", ['bool "t"']) + f"{I}endif\n"),
        "no_type": mm(cfgblock("T", ['prompt "t"'])),
        "no_type_no_prompt": mm(cfgblock("T", ["default y"])),
        "unknown_keyword": mm(cfgblock("T", ['bool "t"', "frobnicate y"])),
        "unknown_entry": mm(f"{I}konfig T\n{I}{I}bool\n"),
        "expr_dangling_op": mm(AUX + cfgblock("T", ['bool "t"', "depends on A &&"])),
        "expr_unbalanced": mm(AUX + cfgblock("T", ['bool "t"', "depends on (A && B"])),
        "expr_double_op": mm(AUX + cfgblock("T", ['bool "t"', "depends on A && || B"])),
        "expr_empty": mm(AUX + cfgblock("T", ['bool "t"', "depends on"])),
        "set_no_value": mm(AUX + cfgblock("T", ['bool "t"', "set TI="])),
        "set_no_equal": mm(AUX + cfgblock("T", ['bool "t"', "set TI 7"])),
        "set_to_expression": mm(AUX + cfgblock("T", ['bool "t"', "set TI=A && B"])),
        "range_one_bound": mm(AUX + cfgblock("T", ['int "t"', "range 1"])),
        "prompt_unquoted": mm(cfgblock("T", ["bool", "prompt hello"])),
        "prompt_unterminated": mm(cfgblock("T", ['bool "unterminated'])),
        "config_no_name": mm(f'{I}config\n{I}{I}bool "t"\n'),
        "config_quoted_name": mm(f'{I}config "T"\n{I}{I}bool "t"\n'),
        "menu_no_title": mm(f"{I}menu\n\n" + cfgblock("T", ['bool "t"'], ind=I * 2) + f"{I}endmenu\n"),
        "two_mainmenus": 'mainmenu "A"\n\nmainmenu "B"\n\n' + cfgblock("T", ['bool "t"']),
        "no_mainmenu": cfgblock("T", ['bool "t"'], ind=""),
        "source_missing_file": mm(f'{I}rsource "Kconfig.nope"\n'),
        "source_unquoted": mm(f"{I}rsource Kconfig.nope\n"),
        "two_types": mm(cfgblock("T", ['bool "t"', "int"])),
        "tristate": mm(cfgblock("T", ['tristate "t"'])),
        "choice_optional": mm(f'{I}choice\n{I}{I}prompt "c"\n{I}{I}optional\n\n' + cfgblock("T", ['bool "t"'], ind=I * 2) + f"{I}endchoice\n"),
        "select_expression": mm(AUX + cfgblock("T", ['bool "t"', "select A && B"])),
        "default_missing_value": mm(cfgblock("T", ['bool "t"', "default"])),
        "if_without_expr": mm(f"{I}if\n\n" + cfgblock("T", ['bool "t"'], ind=I * 2) + f"{I}endif\n"),
        "undefined_macro": mm(cfgblock("T", ['int "t"', "default $(MCKUNSET)"])),
        "help_empty": mm(cfgblock("T", ['bool "t"', "help"]) + cfgblock("U", ['bool "u"'])),
        "visible_if_on_config": mm(AUX + cfgblock("T", ['bool "t"', "visible if A"])),
        "depends_without_on": mm(AUX + cfgblock("T", ['bool "t"', "depends A"])),
    }
    for name, text in N.items():
        yield {"family": "negative", "construct": name, "files": {"Kconfig": text}}


def fam_source_twice(tier: str) -> Iterator[Dict[str, Any]]:
    """the same file sourced more than once (template idiom), with nothing / a macro / an entry between the two source lines"""
    heads = {
        "menu": f'menu "tmpl"\n{I}depends on $(TEN)\n\n{I}config TF\n{I}{I}bool "f"\n{I}{I}default y\n\nendmenu\n',
        "choice": f'choice\n{I}prompt "tmpl"\n\n{I}config TA\n{I}{I}bool "a"\n\n{I}config TB\n{I}{I}bool "b"\n\nendchoice\n',
        "if": f'if $(TEN)\n\n{I}config TF\n{I}{I}bool "f"\n\nendif\n',
        "config": f'config TF\n{I}bool "f"\n{I}depends on $(TEN)\n',
        "comment": f'comment "tmpl"\n\nconfig TF\n{I}bool "f"\n',
    }
    between = {"nothing": "", "macro": f"{I}TEN = B\n{I}TSUF = 2\n\n", "config": cfgblock("MID", ['bool "mid"']), "comment": f'{I}comment "mid"\n\n'}
    for hk, head in heads.items():
        for bk, btw in between.items():
            for how in ("rsource", "orsource"):
                for times in (2, 3):
                    body = f"{I}TEN = A\n{I}TSUF = 1\n\n" + cfgblock("A", ['bool "a"', "default y"]) + cfgblock("B", ['bool "b"'])
                    body += f'{I}{how} "Kconfig.tmpl"\n\n' + (btw + f'{I}{how} "Kconfig.tmpl"\n\n') * (times - 1) + cfgblock("TAIL", ['int "tail"', "default 7"])
                    yield {"family": "source_twice", "construct": f"{hk}/{bk}/{how}/x{times}", "files": {"Kconfig": mm(body), "Kconfig.tmpl": head}}
    # sourced from inside containers
    for cont in ("menu", "if", "choice"):
        open_, close = {"menu": (f'{I}menu "outer"\n\n', f"{I}endmenu\n\n"), "if": (f"{I}if A\n\n", f"{I}endif\n\n"), "choice": (f'{I}choice\n{I}{I}prompt "outer"\n\n', f"{I}endchoice\n\n")}[cont]
        body = cfgblock("A", ['bool "a"', "default y"]) + open_ + f'{I}{I}rsource "Kconfig.tmpl"\n\n{I}{I}rsource "Kconfig.tmpl2"\n\n' + close + cfgblock("TAIL", ['int "tail"', "default 7"])
        yield {"family": "source_twice", "construct": f"two_files_in_{cont}", "files": {"Kconfig": mm(body), "Kconfig.tmpl": cfgblock("S1", ['bool "s1"'], ind=""), "Kconfig.tmpl2": cfgblock("S2", ['bool "s2"'], ind="")}}


def fam_source_nested(tier: str) -> Iterator[Dict[str, Any]]:
    """relative source statements inside sourced files that live in other directories"""
    leaf = cfgblock("LEAF", ['bool "leaf"', "default y"], ind="")
    for how_top in ("rsource", "orsource", "source_abs"):
        for how_mid in ("rsource", "orsource"):
            for mid_dir, leaf_rel in (("sub", "Kconfig.leaf"), ("sub", "deep/Kconfig.leaf"), ("sub/more", "../Kconfig.leaf"), ("", "sub/Kconfig.leaf")):
                mid_path = (mid_dir + "/" if mid_dir else "") + "Kconfig.mid"
                leaf_path = os.path.normpath(os.path.join(mid_dir, leaf_rel))
                top_line = f'{I}source "$MCKDIR/{mid_path}"' if how_top == "source_abs" else f'{I}{how_top} "{mid_path}"'
                mid = cfgblock("MID", ['bool "mid"'], ind="") + f'{how_mid} "{leaf_rel}"\n\n' + cfgblock("AFTER", ['int "after"', "default 3 if LEAF", "default 4"], ind="")
                body = cfgblock("A", ['bool "a"']) + top_line + "\n\n" + cfgblock("TAIL", ['bool "tail"', "depends on LEAF"])
                yield {"family": "source_nested", "construct": f"{how_top}>{how_mid}:{mid_dir or '.'}:{leaf_rel}", "files": {"Kconfig": mm(body), mid_path: mid, leaf_path: leaf}}
                # optional source of a file that does not exist, from inside the sub-directory file
                mid2 = cfgblock("MID", ['bool "mid"'], ind="") + f'orsource "{leaf_rel}.missing"\n\n' + cfgblock("AFTER", ['int "after"', "default 4"], ind="")
                yield {"family": "source_nested", "construct": f"{how_top}>orsource_missing:{mid_dir or '.'}", "files": {"Kconfig": mm(body.replace("depends on LEAF", "depends on A")), mid_path: mid2}}


def fam_after_help(tier: str) -> Iterator[Dict[str, Any]]:
    """what directly follows a help text (parser 1 fetches that line on a separate code path)"""
    helpcfg = lambda: f'{I}config H1\n{I}{I}bool "h1"\n{I}{I}help\n{I}{I}{I}Some help.\n'  # noqa: E731
    followers = {
        "if_continued": f"{I}if A && \\\n{I}{I}{I}!B\n\n" + cfgblock("T", ['bool "t"'], ind=I * 2) + f"{I}endif\n",
        "if_continued_no_blank": None,
        "depends_like_config_continued": f"{I}config T\n{I}{I}bool \\\n{I}{I}{I}\"t\"\n",
        "menu": f'{I}menu "m"\n\n' + cfgblock("T", ['bool "t"'], ind=I * 2) + f"{I}endmenu\n",
        "comment_hash": f"{I}# a comment line\n" + cfgblock("T", ['bool "t"']),
        "macro": f"{I}MV = 3\n\n" + cfgblock("T", ['int "t"', "default $(MV)"]),
        "source": f'{I}rsource "Kconfig.after"\n',
        "choice": f'{I}choice\n{I}{I}prompt "c"\n\n' + cfgblock("T", ['bool "t"'], ind=I * 2) + f"{I}endchoice\n",
        "endmenu": None,
    }
    for name, fol in followers.items():
        for blank in ("\n", ""):
            if name == "if_continued_no_blank":
                continue
            if name == "endmenu":
                text = mm(AUX + f'{I}menu "outer"\n\n' + "".join("    " + l + "\n" if l else "\n" for l in helpcfg().rstrip("\n").split("\n")) + blank + f"{I}endmenu\n")
                files = {"Kconfig": text}
            else:
                files = {"Kconfig": mm(AUX + helpcfg() + blank + fol), "Kconfig.after": cfgblock("T", ['bool "t"'], ind="")}
            yield {"family": "after_help", "construct": f"{name}/{'blank' if blank else 'noblank'}", "files": files}


# --------------------------------------------------------------------------------------------------
# (g) string literals: quote kind x content features x position
# --------------------------------------------------------------------------------------------------

SAUX = cfgblock("B", ['bool "b"']) + cfgblock("S", ['string "s"', 'default "v"']) + cfgblock("TS", ['string "ts"', 'default "x"'])
QNAME = {'"': "dq", "'": "sq"}
QCHAR = {"dq": '"', "sq": "'"}


def str_fragments(q: str) -> Dict[str, Tuple[str, str]]:
    """feature -> (source text, value after escape / reference processing) of a literal quoted with `q`"""
    o = "'" if q == '"' else '"'
    return {
        "other": (f"it{o}s", f"it{o}s"),    # the other kind of quote, unescaped (language.rst: "Name of the ship's captain")
        "escq": (f"a\\{q}b", f"a{q}b"),     # escaped quote of the own kind
        "escbs": ("c\\\\d", "c\\d"),        # escaped backslash
        "esco": (f"e\\{o}f", f"e{o}f"),     # escaped quote of the other kind
        "macro": ("$(MAC)", "42"),          # preprocessor macro reference
        "envp": ("$(MCKENV)", "envval"),    # environment variable through the macro form
        "envb": ("${MCKENV}", "envval"),    # environment variable, documented form
        "envd": ("$MCKENV", "envval"),      # environment variable, plain form
        "hash": ("g#h", "g#h"),             # comment character inside the literal
    }


# states of the referenced environment variable besides the stock one (MCKENV=envval); None = not in the environment
ENV_STATES: Dict[str, Optional[str]] = {"unset": None, "empty": "", "blank": "env val", "quotes": "e\"n'v"}
ENV_FEATURES = ("envp", "envb", "envd")
ESC_FEATURES = ("escq", "escbs", "esco")
REF_FEATURES = ("macro", "envp", "envb", "envd")
ALL_FEATURES = ("other", "escq", "escbs", "esco", "macro", "envp", "envb", "envd", "hash")
QUICK_FEATURES = ("other", "escq", "escbs", "macro", "envb", "hash")


def _cfgT(lines: List[str]) -> str:
    return cfgblock("T", lines)


# position -> (quote kinds generated there, features generated there, renderer(literal) -> text below the mainmenu line).
# Prompts / titles: the documents mention macro and environment references only for values and expressions, so no reference
# features there.  menu / mainmenu titles and source paths are documented as DOUBLE-quoted strings.  Macro values and source
# paths: the documents say nothing about escapes or nested references there, so only quotes / `#` / blanks (paths: + $ENV forms).
_TXT = ("other", "escq", "escbs", "esco", "hash")
_VAL = ALL_FEATURES
STR_POSITIONS: Dict[str, Tuple[str, Tuple[str, ...], Any]] = {
    "inline_prompt": ("\"'", _TXT, lambda x: _cfgT([f"bool {x}"])),
    "inline_prompt_if": ("\"'", _TXT, lambda x: _cfgT([f"bool {x} if B"])),
    "prompt": ("\"'", _TXT, lambda x: _cfgT(["bool", f"prompt {x}"])),
    "prompt_if": ("\"'", _TXT, lambda x: _cfgT(["bool", f"prompt {x} if B"])),
    "choice_prompt": ("\"'", _TXT, lambda x: f"{I}choice\n{I}{I}prompt {x}\n\n" + cfgblock("T", ['bool "t"'], ind=I * 2) + f"{I}endchoice\n"),
    "warning": ("\"'", _TXT, lambda x: _cfgT(['bool "t"', f"warning {x}"])),
    "comment_title": ("\"'", _TXT, lambda x: f"{I}comment {x}\n\n" + _cfgT(['bool "t"'])),
    "menu_title": ('"', _TXT, lambda x: f"{I}menu {x}\n\n" + cfgblock("T", ['bool "t"'], ind=I * 2) + f"{I}endmenu\n"),
    "mainmenu_title": ('"', _TXT, None),
    "default": ("\"'", _VAL, lambda x: _cfgT(['string "t"', f"default {x}"])),
    "default_if": ("\"'", _VAL, lambda x: _cfgT(['string "t"', f"default {x} if B", 'default "z"'])),
    # two literals on one line: the OTHER literal carries the escape / the reference (parser 1 chooses its string scanner per LINE)
    "default_if_cmp_esc": ("\"'", _VAL, lambda x: _cfgT(['string "t"', f'default {x} if S = "k\\\\l"', 'default "z"'])),
    "default_esc_if_cmp": ("\"'", _VAL, lambda x: _cfgT(['string "t"', f'default "k\\\\l" if S = {x}', 'default "z"'])),
    "default_ref_if_cmp": ("\"'", _VAL, lambda x: _cfgT(['string "t"', f'default "${{MCKENV}}" if S != {x}', 'default "z"'])),
    "cmp_depends": ("\"'", _VAL, lambda x: _cfgT(['bool "t"', f"depends on S = {x}"])),
    "cmp_depends_lhs": ("\"'", _VAL, lambda x: _cfgT(['bool "t"', f"depends on {x} != S && B"])),
    "cmp_prompt_if": ("\"'", _VAL, lambda x: _cfgT(["bool", f'prompt "t" if S = {x}'])),
    "cmp_if_entry": ("\"'", _VAL, lambda x: f"{I}if S = {x}\n\n" + cfgblock("T", ['bool "t"'], ind=I * 2) + f"{I}endif\n"),
    "cmp_menu_visible": ("\"'", _VAL, lambda x: f'{I}menu "m"\n{I}{I}visible if S != {x}\n\n' + cfgblock("T", ['bool "t"'], ind=I * 2) + f"{I}endmenu\n"),
    "cmp_select_if": ("\"'", _VAL, lambda x: _cfgT(['bool "t"', f"select B if S = {x}"])),
    "set_value": ("\"'", _VAL, lambda x: _cfgT(['bool "t"', f"set TS={x}"])),
    "set_default_value": ("\"'", _VAL, lambda x: _cfgT(['bool "t"', f"set default TS={x} if B"])),
    "macro_value": ("\"'", ("other", "hash"), lambda x: f"{I}MV = {x}\n\n" + _cfgT(['string "t"', 'default "$(MV)"'])),
    "rsource_path": ('"', ("other", "hash", "envb", "envd"), None),
}


def strlit_label(seq, joiner: str, lead: bool, trail: bool) -> str:
    mods = (["blank"] if joiner == " " and len(seq) > 1 else []) + (["lead"] if lead else []) + (["trail"] if trail else [])
    return (">".join(seq) if seq else "plain") + ("~" + "~".join(mods) if mods else "")


def strlit_case(pos: str, qn: str, seq, joiner: str, lead: bool, trail: bool, env: Optional[str] = None) -> Optional[Dict[str, Any]]:
    """the program for one literal in one position, or None when that literal is not generated there
    (env: name of a non-stock state of the referenced environment variable, see ENV_STATES)"""
    quotes, feats, render = STR_POSITIONS[pos]
    q = QCHAR[qn]
    seq = list(seq)
    if q not in quotes or any(f not in feats for f in seq):
        return None
    if env is not None and (pos == "rsource_path" or not any(f in ENV_FEATURES for f in seq)):
        return None
    if len(seq) < 2:
        joiner = "-"
    fr = str_fragments(q)
    src = joiner.join(fr[f][0] for f in seq) if seq else "w"
    val = joiner.join(fr[f][1] for f in seq) if seq else "w"
    if lead:
        src, val = " " + src, " " + val
    if trail:
        src, val = src + " ", val + " "
    lit = q + src + q
    head = "MAC = 42\n\n"
    if pos == "mainmenu_title":
        files = {"Kconfig": f"mainmenu {lit}\n\n" + head + SAUX + cfgblock("T", ['bool "t"'])}
    elif pos == "rsource_path":
        files = {"Kconfig": mm(head + SAUX + f"{I}rsource {q}Kconfig.{src}{q}\n\n" + cfgblock("TAIL", ['bool "tail"'])), "Kconfig." + val: cfgblock("T", ['bool "t"'], ind="")}
        lit = f"{q}Kconfig.{src}{q}"
    else:
        files = {"Kconfig": mm(head + SAUX + render(lit))}
    out = {"family": "strlit", "construct": f"{pos}/{qn}/{strlit_label(seq, joiner, lead, trail)}", "lit": lit, "files": files,
           "strlit": {"pos": pos, "q": qn, "seq": seq, "joiner": joiner, "lead": bool(lead), "trail": bool(trail)}}
    if env is not None:
        out["construct"] += "@env=" + env
        out["strlit"]["env"] = env
        out["envstate"] = env
        out["env"] = {"MCKENV": ENV_STATES[env]}
    return out


def strlit_shapes(tier: str) -> List[Tuple[Tuple[str, ...], str, bool, bool]]:
    """(ordered feature sequence, joiner, leading blank, trailing blank) of every literal of the bounded family"""
    feats = QUICK_FEATURES if tier == "quick" else ALL_FEATURES
    maxn = 2 if tier == "quick" else 3
    # ordered sequences; a feature may occur twice (a-a, and a-b-a at length 3: e.g. two references enclosing the literal)
    seqs: List[Tuple[str, ...]] = [()] + [(f,) for f in feats] + list(itertools.product(feats, repeat=2))
    if maxn >= 3:
        seqs += list(itertools.permutations(feats, 3)) + [(a, b, a) for a, b in itertools.permutations(feats, 2)]
    out = [(seq, "-", False, False) for seq in seqs]
    for seq in seqs:  # leading / trailing / both blanks
        if len(seq) <= (1 if tier == "quick" else 2):
            out += [(seq, "-", lead, trail) for lead, trail in ((True, False), (False, True), (True, True))]
    for seq in seqs:  # one blank inside the literal
        if len(seq) == 2:
            out.append((seq, " ", False, False))
            if tier != "quick":
                out.append((seq, " ", True, True))
    return out


def fam_strings(tier: str) -> Iterator[Dict[str, Any]]:
    shapes_ = strlit_shapes(tier)
    for pos, (quotes, _feats, _render) in STR_POSITIONS.items():
        for q in quotes:
            for seq, joiner, lead, trail in shapes_:
                p = strlit_case(pos, QNAME[q], seq, joiner, lead, trail)
                if p is not None:
                    yield p
    # environment states of the referenced variable
    eshapes = strlit_env_shapes(tier)
    for env in ENV_STATES:
        for pos, (quotes, _feats, _render) in STR_POSITIONS.items():
            for q in quotes:
                for seq, joiner, lead, trail in eshapes:
                    p = strlit_case(pos, QNAME[q], seq, joiner, lead, trail, env)
                    if p is not None:
                        yield p


def strlit_env_shapes(tier: str) -> List[Tuple[Tuple[str, ...], str, bool, bool]]:
    """literals explored under every environment state: the reference alone (every form; + leading / trailing blank) and
    next to one other feature (before / after it, joined by '-' and by a blank; quick: ${ENV} only)"""
    out: List[Tuple[Tuple[str, ...], str, bool, bool]] = []
    for f in ENV_FEATURES:
        out += [((f,), "-", lead, trail) for lead, trail in ((False, False), (True, False), (False, True), (True, True))]
    feats = QUICK_FEATURES if tier == "quick" else ALL_FEATURES
    forms = ("envb",) if tier == "quick" else ENV_FEATURES
    pairs: List[Tuple[str, ...]] = []
    for e in forms:
        for f in feats:
            pairs += [(e, f), (f, e)]
    for seq in dict.fromkeys(pairs):
        out += [(seq, "-", False, False), (seq, " ", False, False)]
    return out


def with_env_states(progs: List[Dict[str, Any]]) -> Iterator[Dict[str, Any]]:
    """the programs of the other families that mention the variable, once per non-stock environment state"""
    for p in progs:
        if p["family"] in ("expr", "symform", "lexical") and "MCKENV" in p.get("files", {}).get("Kconfig", ""):
            for env, val in ENV_STATES.items():
                yield dict(p, envstate=env, env={"MCKENV": val})


def fam_fixtures(tier: str) -> Iterator[Dict[str, Any]]:
    root = common.REPO_ROOT
    pats = ["test/kconfiglib/kconfigs/ok/*.in", "test/kconfiglib/kconfigs/warnings/*.in", "test/kconfiglib/kconfigs/errors/*.in", "test/kconfiglib/kconfigs/Kconfig.*",
            "test/kconfserver/Kconfig", "test/gen_kconfig_doc/Kconfig", "test/menuconfig/kconfigs/*", "test/kconfcheck/Kconfig"]
    seen = []
    for p in pats:
        for f in sorted(glob.glob(os.path.join(root, p))):
            if os.path.isfile(f) and f not in seen:
                seen.append(f)
                yield {"family": "fixture", "construct": os.path.relpath(f, root), "path": f}


FAMILIES = (fam_options, fam_expr, fam_structure, fam_lexical, fam_negative, fam_source_twice, fam_source_nested, fam_after_help, fam_strings, fam_fixtures)


def items(tier: str, seed: int):
    out = []
    for fam in FAMILIES:
        out.extend(fam(tier))
    out.extend(list(with_env_states(out)))
    # group small programs so that per-item overhead stays low; groups are strided (program i goes to group i mod n) so that
    # neighbouring programs -- which tend to share a slow or non-terminating construct -- land in different work items
    n = max(1, (len(out) + 7) // 8)
    return [out[i::n] for i in range(n)]


# --------------------------------------------------------------------------------------------------
# execution
# --------------------------------------------------------------------------------------------------

ENV = {"MCKENV": "envval", "IDF_TARGET": "chipa", "IDF_ENV_FPGA": "", "TEST_ENV_SET": "EHLO", "MAX_NUMBER_OF_MOTORS": "4"}


class _ParseTimeout(BaseException):
    pass


_armed = False


def _on_alarm(signum, frame):
    if _armed:
        raise _ParseTimeout()


# limits are CPU seconds of this process (ITIMER_VIRTUAL): machine load or a paused VM cannot produce a false "no termination"
PARSE_TIMEOUT_S = 20.0         # a parse of these programs takes 1..300 ms
PARSE_TIMEOUT_STRLIT_S = 2.0   # the string-literal programs are ~15 lines (parser 2: ~15 ms)


def _guarded(fn, timeout: float):
    """runs fn() under a CPU-time interval timer: ("ok", value) | ("timeout", None) | ("exc", exception).  The timer keeps firing
    every 50 ms after the deadline because a single asynchronous exception can be swallowed (e.g. inside a __del__ / callback)."""
    global _armed
    signal.signal(signal.SIGVTALRM, _on_alarm)
    result: Tuple[str, Any] = ("timeout", None)
    try:
        try:
            _armed = True
            signal.setitimer(signal.ITIMER_VIRTUAL, timeout, 0.05)
            result = ("ok", fn())
        except _ParseTimeout:
            result = ("timeout", None)
        except BaseException as e:  # noqa: BLE001
            result = ("exc", e)
    except _ParseTimeout:
        result = ("timeout", None)
    while True:
        try:
            _armed = False
            signal.setitimer(signal.ITIMER_VIRTUAL, 0)
            break
        except _ParseTimeout:
            result = ("timeout", None)
    return result


def parse_with(path: str, version: int, timeout: float = PARSE_TIMEOUT_S, env_over: Optional[Dict[str, Optional[str]]] = None):
    kl = impl.lib()
    c = impl.core()
    old = {}
    env: Dict[str, Optional[str]] = dict(ENV)
    env["MCKDIR"] = os.path.dirname(path)
    env.update(env_over or {})  # a program's own environment state (None = the variable is not in the environment)
    for k, v in env.items():
        old[k] = os.environ.get(k)
        if v is None:
            os.environ.pop(k, None)
        else:
            os.environ[k] = v
    os.environ.pop("MCKUNSET", None)
    cwd = os.getcwd()
    try:
        os.chdir(os.path.dirname(path))
        how, val = _guarded(lambda: kl.Kconfig(path, parser_version=version), timeout)
        if how == "timeout":
            # confirm with twice the budget: a stalled machine (CPU time stolen from the VM is charged to the process) must
            # not be reported as a parser that does not terminate
            how, val = _guarded(lambda: kl.Kconfig(path, parser_version=version), 2 * timeout)
        if how == "ok":
            val.report.reset()
            return ("ok", val)
        if how == "timeout":
            # the parser did not return: reported like an exception that is not a KconfigError
            return ("other_exception", f"NoTermination(>{timeout:g}s cpu)")
        e = val
        if isinstance(e, c.KconfigError):
            return ("kconfig_error", f"{type(e).__name__}")
        if isinstance(e, RecursionError):
            return ("other_exception", "RecursionError")
        if not isinstance(e, Exception):
            raise e
        import traceback

        tb = traceback.extract_tb(e.__traceback__)
        site = "?"
        for fr in reversed(tb):
            if "/mck/" not in fr.filename:
                site = f"{os.path.basename(fr.filename)}:{fr.name}"
                break
        return ("other_exception", f"{type(e).__name__}@{site}")
    finally:
        os.chdir(cwd)
        for k, v in old.items():
            if v is None:
                os.environ.pop(k, None)
            else:
                os.environ[k] = v


def outputs(k) -> Dict[str, str]:
    import kconfgen.core as kg

    out = {"config": k._config_contents(None), "header": k._autoconf_contents(None)}
    try:
        out["json"] = json.dumps(kg.get_json_values(k), sort_keys=True)
    except Exception as e:  # noqa: BLE001
        out["json"] = f"<raised {type(e).__name__}>"
    return out


PERT = {"bool": ["y", "n"], "int": ["7"], "hex": ["0x2A"], "string": ["pert"], "float": ["2.5"]}


def _first_classes(p: Dict[str, Any], timeout: float) -> Tuple[tuple, ...]:
    """failure classes of one program as far as parsing and the structural dump go (used to minimise string literals)"""
    path = impl.put_program(p["files"])
    s1, k1 = parse_with(path, 1, timeout, p.get("env"))
    s2, k2 = parse_with(path, 2, timeout, p.get("env"))
    out = []
    if s1 != "ok" or s2 != "ok":
        if s1 == "other_exception":
            out.append(("parser1_raises", k1))
        if s2 == "other_exception":
            out.append(("parser2_raises", k2))
        if (s1 == "ok") != (s2 == "ok") and "other_exception" not in (s1, s2):
            out.append(("accept_reject", 1 if s1 == "ok" else 2))
        return tuple(out)
    d1, d2 = dump.structural_dump(k1), dump.structural_dump(k2)
    if d1 != d2:
        out.append(("structure_differs", dump.field_class(dump.first_diff(d1, d2))))
    return tuple(out)


_CLASS_MEMO: Dict[str, Tuple[tuple, ...]] = {}


def _strlit_has_class(pos: str, qn: str, shape: tuple, cls: tuple, env: Optional[str] = None) -> Optional[tuple]:
    """the normalised shape if that literal is generated at this position (under the same environment state) and shows
    failure class `cls`, else None"""
    q = strlit_case(pos, qn, *shape, env)
    if q is None:
        return None
    key = q["construct"]
    if key not in _CLASS_MEMO:
        if len(_CLASS_MEMO) > 20000:
            _CLASS_MEMO.clear()
        _CLASS_MEMO[key] = _first_classes(q, PARSE_TIMEOUT_STRLIT_S)
    if cls not in _CLASS_MEMO[key]:
        return None
    d = q["strlit"]
    return (tuple(d["seq"]), d["joiner"], d["lead"], d["trail"])


def _strlit_trigger(p: Dict[str, Any], cls: Optional[tuple]) -> str:
    """names the triggering construct in the violation signature: a smallest literal of the same position and quote kind that
    shows the SAME failure class -- first every single component of the literal on its own (one feature; a leading / trailing
    blank around the plain word), else greedy: drop one feature / one blank at a time, left to right, while the class remains"""
    d = p["strlit"]
    pos, qn, env = d["pos"], d["q"], d.get("env")
    cur = (tuple(d["seq"]), d["joiner"], d["lead"], d["trail"])
    if cls is None:
        return strlit_label(*cur)
    singles = [((f,), "-", False, False) for f in dict.fromkeys(cur[0])]
    singles += [((), "-", True, False)] if cur[2] else []
    singles += [((), "-", False, True)] if cur[3] else []
    if len(cur[0]) + int(cur[2]) + int(cur[3]) > 1:
        for cand in singles:
            got = _strlit_has_class(pos, qn, cand, cls, env)
            if got is not None:
                return strlit_label(*got)
    progress = True
    while progress:
        progress = False
        seq, joiner, lead, trail = cur
        cands = [(seq[:i] + seq[i + 1:], joiner, lead, trail) for i in range(len(seq))]
        if joiner == " " and len(seq) > 1:
            cands.append((seq, "-", lead, trail))
        if lead:
            cands.append((seq, joiner, False, trail))
        if trail:
            cands.append((seq, joiner, lead, False))
        for cand in cands:
            got = _strlit_has_class(pos, qn, cand, cls, env)
            if got is not None:
                cur = got
                progress = True
                break
    return strlit_label(*cur)


def check_one(p: Dict[str, Any], r: common.Result) -> None:
    fam, construct = p["family"], p["construct"]
    if "path" in p:
        path = p["path"]
    else:
        path = impl.put_program(p["files"])
    case = {k: v for k, v in p.items()}
    timeout = PARSE_TIMEOUT_STRLIT_S if fam == "strlit" else PARSE_TIMEOUT_S

    envsig = {"env": p["envstate"]} if p.get("envstate") else {}

    def sb(cls: Optional[tuple]) -> Dict[str, Any]:
        if fam == "strlit":
            # position + quote kind + the minimal literal that still shows this failure class (under the same environment state)
            return {"family": fam, "construct": f"{p['strlit']['pos']}/{p['strlit']['q']}", "trigger": _strlit_trigger(p, cls), **envsig}
        return {"family": fam, "construct": construct if fam != "structure" else fam, **envsig}

    s1, k1 = parse_with(path, 1, timeout, p.get("env"))
    s2, k2 = parse_with(path, 2, timeout, p.get("env"))
    r.evals += 1
    if p.get("envstate"):
        r.count("programs_under_non_stock_environment")
    label = f"[{fam}/{construct}{' MCKENV=' + repr(p['env']['MCKENV']) if p.get('envstate') else ''}{' expr=' + p['expr'] if 'expr' in p else ''}{' literal=' + p['lit'] if 'lit' in p else ''}]"
    if fam == "negative":
        # sources outside the documented language: the statement does not say what must happen; recorded, never alarmed
        r.outcome(("negative", construct, s1, s2))
        r.count("negative_programs")
        if (s1 == "ok") != (s2 == "ok") or "other_exception" in (s1, s2):
            r.count("negative_disagreements_informational")
        return
    if fam == "strlit":
        r.count("string_literal_programs")
    if s1 != "ok" or s2 != "ok":
        r.outcome((s1, k1 if s1 != "ok" else "", s2, k2 if s2 != "ok" else ""))
        if s1 == "other_exception":
            r.violation({"kind": "parser1_raises_non_kconfig_error", "exc": k1, **sb(("parser1_raises", k1))}, f"{label} parser 1 raised {k1}", case)
        if s2 == "other_exception":
            r.violation({"kind": "parser2_raises_non_kconfig_error", "exc": k2, **sb(("parser2_raises", k2))}, f"{label} parser 2 raised {k2} (parser 1: {s1})", case)
        if (s1 == "ok") != (s2 == "ok") and "other_exception" not in (s1, s2):
            acc = 1 if s1 == "ok" else 2
            r.violation({"kind": "accept_reject_disagree", "accepts": acc, **sb(("accept_reject", acc))}, f"{label} parser 1: {s1} {k1 if s1 != 'ok' else ''}; parser 2: {s2} {k2 if s2 != 'ok' else ''}", case)
        return
    d1, d2 = dump.structural_dump(k1), dump.structural_dump(k2)
    r.outcome(("ok", json.dumps(d1, sort_keys=True, default=str)))
    if d1 != d2:
        path_ = dump.first_diff(d1, d2)
        fc = dump.field_class(path_)
        r.violation({"kind": "structure_differs", "field": fc, **sb(("structure_differs", fc))}, f"{label} dumps differ at {path_}: parser1={_at(d1, path_)!r} parser2={_at(d2, path_)!r}", case)
        return
    sigbase = sb(None) if fam != "strlit" else None
    # outputs: all defaults, then every single-option perturbation
    try:
        o1, o2 = outputs(k1), outputs(k2)
    except Exception as e:  # noqa: BLE001
        r.violation({"kind": "output_raises", "exc": type(e).__name__, **(sigbase or sb(None))}, f"{label} computing outputs raised {type(e).__name__}: {e}", case)
        return
    if o1 != o2:
        which = [f for f in o1 if o1[f] != o2[f]]
        r.violation({"kind": "outputs_differ", "formats": which, "config": "defaults", **(sigbase or sb(None))}, f"{label} outputs differ in {which} at defaults", case)
        return
    c = impl.core()
    names = [s.name for s in k1.unique_defined_syms if any(n.prompt for n in s.nodes)]
    if len(names) > 12:
        names = names[:12]
    for n in names:
        for v in PERT.get(c.TYPE_TO_STR[k1.syms[n].orig_type], []):
            # same instances, value set and unset again (C03 owns the soundness of incremental re-evaluation)
            k1.syms[n].set_value(v)
            k2.syms[n].set_value(v)
            r.evals += 1
            try:
                oa, ob = outputs(k1), outputs(k2)
            except Exception as e:  # noqa: BLE001
                r.violation({"kind": "output_raises", "exc": type(e).__name__, **(sigbase or sb(None))}, f"{label} computing outputs with {n}={v} raised {type(e).__name__}: {e}", case)
                return
            if oa != ob:
                which = [f for f in oa if oa[f] != ob[f]]
                r.violation({"kind": "outputs_differ", "formats": which, "config": "perturbed", **(sigbase or sb(None))}, f"{label} outputs differ in {which} with {n}={v}", case)
                return
            k1.syms[n].unset_value()
            k2.syms[n].unset_value()
            if k1.syms[n].choice is not None:
                k1.syms[n].choice.unset_value()
                k2.syms[n].choice.unset_value()


def _at(d: Any, path: str) -> Any:
    import re

    cur = d
    for tok in re.findall(r"\.([A-Za-z0-9_]+)|\[(\d+)\]", path):
        try:
            cur = cur[tok[0]] if tok[0] else cur[int(tok[1])]
        except (KeyError, IndexError, TypeError):
            return "<missing>"
    s = repr(cur)
    return s if len(s) < 200 else s[:200] + "..."


def run_item(group) -> common.Result:
    r = common.Result()
    for p in group:
        r.programs += 1
        check_one(p, r)
    p = group[0]
    r.sample = {"family": p["family"], "construct": p["construct"], "program": p["files"]["Kconfig"] if "files" in p else p["path"]}
    return r


def replay(case) -> List[dict]:
    r = common.Result()
    check_one(case, r)
    return r.viols

"""C11 -- a deprecated name behaves exactly like its replacement.

Base tree with new options of every type (visible, conditionally hidden, promptless), one option whose NAME is also an old
name of the rename alphabet, and options whose names contain the text `CONFIG_` again after the prefix (plus the options a
"remove every CONFIG_" mangling of those names would hit).  Tree shapes:
  plain    no Kconfig expression mentions a deprecated name (the old name has no Symbol object at all);
  mention  every deprecated name of the table occurs in a `default y if <rel>`, a `depends on <rel>` and a
           `select XT if <rel>` condition, so it exists in Kconfig.syms as an undefined, node-less symbol;
  mention_default / mention_depends / mention_select (thorough, 1-line tables): one of the three positions only.
Rename tables = every 1- and 2-line selection of the alphabet (2-line tables also split over two files); the alphabet has
old names and new names with an embedded / doubled prefix (CONFIG_OLD_CONFIG_B, CONFIG_CONFIG_OLD_B, CONFIG_E_CONFIG_B ...).
sdkconfig files = every ordered sequence of <=2 (quick) / <=3 (thorough) lines over
{OLD=v, NEW=v, # OLD is not set, # NEW is not set} for the names the table mentions.

Oracles
  (1) load(file) == load(translate(file)): option values, user values and the re-written sdkconfig, where `translate`
      rewrites a line whose name is not defined in the tree and is mapped (last mapping wins) to a defined option:
      OLD=v -> NEW=v (y/n swapped for `!` renames of bools), `# OLD is not set` -> `# NEW is not set` (NEW=y if inverted);
  (2) an old name whose replacement is defined never appears in missing_syms; any table / file must load without raising;
  (3) a file written with the deprecated block, loaded with the default flag, equals the same file with the block cut out,
      even when the block is edited to contradict the body; loaded with load_deprecated=True, eval_string on each alias
      gives the value that was written, no alias is listed in missing_syms, and (mention trees) the tree's own expressions
      over the alias -- X<i> `default y if <rel>`, XDEP `depends on <rel>...`, XT selected `if <rel>` -- take the value
      that <rel> has for the written entry (<rel> is: OLD for bools, OLD < 8, OLD < 0x20, OLD = "d"; n while OLD is undefined).
"""

from __future__ import annotations

import itertools
import re
from typing import Any, Dict, Iterator, List, Optional, Tuple

from .. import common, impl, kgen
from ..kgen import Cfg, L, Or, Program, Rel, S

ID = "C11"
LEVEL = "exploration"
RULE = (
    "tree shapes {plain, mention} (thorough: + mention_default, mention_depends, mention_select over the 1-line tables) x all 1- and "
    "2-line rename tables over a 19-line alphabet incl. names with the prefix text embedded / doubled (2-line tables as one file and "
    "split over two files; quick crosses the split tables with the plain tree only) x all ordered sdkconfig files of <=2 (quick) / <=3 (thorough) lines over the old/new names of the table in "
    "the forms =v, `is not set`; plus, per tree x single-file table x configuration, the deprecated-block clauses (default flag and "
    "load_deprecated=True). A mention tree is generated per table (it mentions the table's old names that are not defined options; a "
    "table without such a name has no mention tree). distinct_nontrivial = distinct (tree, table, file) triples in which at least one "
    "line uses a deprecated name + distinct (tree, table, configuration) triples whose written file has a deprecated block."
)
ASSUMPTIONS = [
    "a mapping to an option that is not defined carries no obligation except not raising and not disturbing other options",
    "hand-written files carry no `# default:` markers in front of deprecated names",
    "the reference load of a translated file is computed once per (tree, table, translated text): loading is deterministic (the runner "
    "re-executes every reported case twice in fresh processes)",
    "a deprecated name mentioned by a Kconfig expression and NOT loaded from a requested deprecated block is an ordinary undefined "
    "symbol (evaluates to n / its own name); only the equivalence of the two spellings is demanded there",
]

PREFIX = "CONFIG_"

ALPHABET = [
    "CONFIG_OLD_B CONFIG_B",
    "CONFIG_OLD_NB !CONFIG_B",
    "CONFIG_OLD_B2 CONFIG_B",
    "CONFIG_OLD_B CONFIG_BH",
    "CONFIG_OLD_NBH !CONFIG_BH",
    "CONFIG_OLD_I CONFIG_I",
    "CONFIG_OLD_NI !CONFIG_I",
    "CONFIG_OLD_S CONFIG_S",
    "CONFIG_OLD_H CONFIG_H",
    "CONFIG_OLD_U CONFIG_UNDEFINED",
    "CONFIG_old_lower CONFIG_B",
    "CONFIG_DEFINED_OLD CONFIG_B",
    "CONFIG_OLD_BP CONFIG_BP",
    "CONFIG_OLD_B !CONFIG_B",
    # the prefix text again inside a name: old side (its every-CONFIG_-removed form is the old name OLD_B), doubled prefix,
    # new side (its mangled form E_B is another defined option), both sides + inversion, string (mangled form E_S undefined)
    "CONFIG_OLD_CONFIG_B CONFIG_B",
    "CONFIG_CONFIG_OLD_B CONFIG_BH",
    "CONFIG_OLD_EB CONFIG_E_CONFIG_B",
    "CONFIG_OLD_CONFIG_NEB !CONFIG_E_CONFIG_B",
    "CONFIG_OLD_ES CONFIG_E_CONFIG_S",
]

BASE = [
    Cfg("B", "bool", prompt="b"),
    Cfg("BH", "bool", prompt="bh", prompt_cond=S("B"), defaults=[(L("y"), None)]),
    Cfg("BP", "bool", defaults=[(L("y"), S("B"))]),
    Cfg("I", "int", prompt="i", ranges=[(L("0"), L("50"), None)], defaults=[(L("5"), None)]),
    Cfg("H", "hex", prompt="h", defaults=[(L("0x1f"), None)]),
    Cfg("S", "string", prompt="s", defaults=[(L('"d"'), None)]),
    Cfg("DEFINED_OLD", "bool", prompt="an option whose name is also listed as deprecated"),
    Cfg("E_CONFIG_B", "bool", prompt="name with the prefix text inside"),
    Cfg("E_B", "bool", prompt="what E_CONFIG_B becomes when every CONFIG_ is removed"),
    Cfg("E_CONFIG_S", "string", prompt="string, prefix text inside", defaults=[(L('"d"'), None)]),
]
TYPES = {"B": "bool", "BH": "bool", "BP": "bool", "I": "int", "H": "hex", "S": "string", "DEFINED_OLD": "bool",
         "E_CONFIG_B": "bool", "E_B": "bool", "E_CONFIG_S": "string"}
VALS = {"bool": ["y", "n"], "int": ["7", "99"], "hex": ["0x2a"], "string": ['"v w"', '"q\\"x"']}

TREE_KINDS_QUICK = ["plain", "mention"]
TREE_KINDS_SINGLE = ["mention_default", "mention_depends", "mention_select"]  # thorough, 1-line tables


def _split_line(line: str) -> Tuple[str, str, bool]:
    old, new = line.split()
    return old[len(PREFIX):], new.lstrip("!")[len(PREFIX):], new.startswith("!")


def _old_types() -> Dict[str, str]:
    out: Dict[str, str] = {}
    for line in ALPHABET:
        old, new, _inv = _split_line(line)
        t = TYPES.get(new, "bool")
        assert out.setdefault(old, t) == t, old  # an old name has one type over the whole alphabet
    return out


OLD_TYPE = _old_types()


def rel_of(old: str) -> tuple:
    """the condition through which a mention tree refers to an old name; n while the name is undefined"""
    t = OLD_TYPE[old]
    if t == "bool":
        return S(old)
    if t == "int":
        return Rel("<", S(old), L("8"))
    if t == "hex":
        return Rel("<", S(old), L("0x20"))
    return Rel("=", S(old), L('"d"'))


def rel_holds(old: str, written: Optional[str]) -> bool:
    """value of rel_of(old) when the alias was written as `written` (None: `is not set`)"""
    t = OLD_TYPE[old]
    if written is None:
        return False
    if t == "bool":
        return written == "y"
    if t == "int":
        return int(written) < 8
    if t == "hex":
        return int(written, 16) < 0x20
    return written == '"d"'


def mentioned_olds(tab: Tuple[int, ...]) -> List[str]:
    out: List[str] = []
    for i in tab:
        old = _split_line(ALPHABET[i])[0]
        if old not in TYPES and old not in out:
            out.append(old)
    return out


def tree_files(kind: str, tab: Tuple[int, ...]) -> Optional[Dict[str, str]]:
    """None: this tree shape does not exist for the table"""
    ch = list(BASE)
    if kind != "plain":
        olds = mentioned_olds(tab)
        if not olds:
            return None
        rels = [rel_of(o) for o in olds]
        if kind in ("mention", "mention_default"):
            for j, rel in enumerate(rels):
                ch.append(Cfg(f"X{j}", "bool", defaults=[(L("y"), rel)]))
        if kind in ("mention", "mention_depends"):
            dep = rels[0]
            for rel in rels[1:]:
                dep = Or(dep, rel)
            ch.append(Cfg("XDEP", "bool", prompt="legacy option", depends=[dep], defaults=[(L("y"), None)]))
        if kind in ("mention", "mention_select"):
            ch.append(Cfg("XT", "bool"))
            ch.append(Cfg("XSEL", "bool", prompt="legacy selector", defaults=[(L("y"), None)], selects=[("XT", rel) for rel in rels]))
    return kgen.render(Program(children=ch))


def tables(tier: str) -> Iterator[Tuple[Tuple[int, ...], bool]]:
    n = len(ALPHABET)
    for i in range(n):
        yield (i,), False
    for a, b in itertools.permutations(range(n), 2):
        yield (a, b), False
        yield (a, b), True  # split over two files


def mapping_of(tab: Tuple[int, ...]) -> Dict[str, Tuple[str, bool]]:
    m: Dict[str, Tuple[str, bool]] = {}
    for i in tab:
        old, new = ALPHABET[i].split()
        m[old[len("CONFIG_"):]] = (new.lstrip("!")[len("CONFIG_"):], new.startswith("!"))
    return m


def line_alphabet(tab: Tuple[int, ...]) -> List[str]:
    m = mapping_of(tab)
    names: List[Tuple[str, str]] = []  # (name, type)
    for old, (new, inv) in m.items():
        t = TYPES.get(new, "bool")
        names.append((old, t))
        if new in TYPES:
            names.append((new, t))
    out: List[str] = []
    seen = set()
    for name, t in names:
        if name in seen:
            continue
        seen.add(name)
        for v in VALS[t]:
            out.append(f"CONFIG_{name}={v}")
        out.append(f"# CONFIG_{name} is not set")
    return out


def items(tier: str, seed: int):
    tabs = list(tables(tier))
    maxlen = 2 if tier == "quick" else 3
    out = []
    for kind in TREE_KINDS_QUICK:
        # (how a table is split over rename files only concerns the parsing of the table: quick crosses it with the plain tree only)
        ts = tabs if kind == "plain" or tier != "quick" else [t for t in tabs if not t[1]]
        out += [{"tree": kind, "tables": ts[i:i + 6], "maxlen": maxlen} for i in range(0, len(ts), 6)]
    if tier != "quick":
        single = [t for t in tabs if len(t[0]) == 1]
        for kind in TREE_KINDS_SINGLE:
            out += [{"tree": kind, "tables": single[i:i + 6], "maxlen": maxlen} for i in range(0, len(single), 6)]
    return out


def parse_line(line: str) -> Tuple[str, Optional[str]]:
    """(name, value) of an assignment line, (name, None) of an `is not set` line"""
    ms = re.match(r"CONFIG_([^=]+)=(.*)", line)
    if ms:
        return ms.group(1), ms.group(2)
    mu = re.match(r"# CONFIG_([^ ]+) is not set", line)
    return mu.group(1), None


def translate(lines: List[str], m: Dict[str, Tuple[str, bool]]) -> List[str]:
    out = []
    for line in lines:
        name, val = parse_line(line)
        if name in TYPES or name not in m or m[name][0] not in TYPES:
            out.append(line)
            continue
        new, inv = m[name]
        t = TYPES[new]
        if val is not None:
            if inv and t == "bool":
                val = "n" if val.startswith("y") else "y"
            out.append(f"CONFIG_{new}={val}")
        else:
            if inv:
                out.append(f"CONFIG_{new}=y" if t == "bool" else f"# CONFIG_{new} is not set")
            else:
                out.append(f"# CONFIG_{new} is not set")
    return out


def rename_texts(tab: Tuple[int, ...], split: bool) -> List[str]:
    if split and len(tab) == 2:
        return [ALPHABET[tab[0]] + "\n", ALPHABET[tab[1]] + "\n"]
    return ["".join(ALPHABET[i] + "\n" for i in tab)]


def observe(files, rtexts, text, **kw):
    inst = impl.Inst(files, renames=rtexts)
    inst.load_text(text, **kw)
    k = inst.k
    return inst, {
        "values": inst.values(),
        "user": {s.name: s._user_value for s in k.unique_defined_syms},
        "config": inst.config_text(),
        "missing": list(k.missing_syms),
    }


def site_of(e) -> str:
    import os
    import traceback

    tb = traceback.extract_tb(e.__traceback__)
    return next((f"{os.path.basename(fr.filename)}:{fr.name}" for fr in reversed(tb) if "/mck/" not in fr.filename), "?")


def line_class(line: str, m) -> str:
    name, val = parse_line(line)
    if name in TYPES and name in m:
        role = "defined_old"
    elif name in TYPES:
        role = "new"
    else:
        new, inv = m[name]
        role = ("old_inv" if inv else "old") + ("" if new in TYPES else "_undefrepl") + ":" + TYPES.get(new, "?")
        if PREFIX in name or PREFIX in new:
            role += "+prefix_inside_" + "_".join(w for w, n in (("old", name), ("new", new)) if PREFIX in n)
    return role + ("=" + ("set" if val is not None else "notset"))


def check_file(files, kind, tab, split, lines: List[str], r: common.Result, cache: Optional[dict] = None) -> None:
    m = mapping_of(tab)
    rtexts = rename_texts(tab, split)
    text = "".join(l + "\n" for l in lines)
    ttext = "".join(l + "\n" for l in translate(lines, m))
    case = {"files": files, "tree": kind, "table": list(tab), "split": split, "lines": lines}
    label = f"[tree={kind} table={[ALPHABET[i] for i in tab]}{' (2 files)' if split else ''} file={lines}]"
    classes = sorted(line_class(l, m) for l in lines)
    r.evals += 1
    try:
        _, a = observe(files, rtexts, text)
    except Exception as e:  # noqa: BLE001
        r.violation({"kind": "load_raises", "tree": kind, "exc": type(e).__name__, "site": site_of(e), "lines": classes}, f"{label} load raised {type(e).__name__}: {e}", case)
        return
    uses_old = text != ttext
    if not uses_old:
        b = a  # the file is its own translation: only the missing_syms / not-raising clauses apply
    elif cache is not None and ttext in cache:
        b = cache[ttext]
    else:
        try:
            _, b = observe(files, rtexts, ttext)
        except Exception as e:  # noqa: BLE001
            r.violation({"kind": "load_raises", "tree": kind, "exc": type(e).__name__, "site": site_of(e), "lines": ["translated"] + classes},
                        f"{label} loading the translation {translate(lines, m)} raised {type(e).__name__}: {e}", case)
            return
        if cache is not None:
            cache[ttext] = b
    if uses_old:
        r.outcome((kind, tab, split, tuple(lines)))
    for key in ("values", "user", "config"):
        if a[key] != b[key]:
            if key == "config":
                d = f"{a[key]!r} vs {b[key]!r}"
            else:
                d = {n: (a[key][n], b[key][n]) for n in a[key] if a[key][n] != b[key][n]}
            r.violation({"kind": "old_name_differs_from_new_name", "tree": kind, "what": key, "lines": classes},
                        f"{label} loading the file vs. its translation {translate(lines, m)} differ in {key}: {d}", case)
            break
    bad = [n for n, _v in a["missing"] if n in m and m[n][0] in TYPES and n not in TYPES]
    if bad:
        r.violation({"kind": "deprecated_name_reported_unknown", "tree": kind, "lines": classes}, f"{label} missing_syms lists deprecated names {bad}", case)


def check_block(files, kind, tab, split, assign: Dict[str, str], r: common.Result) -> None:
    m = mapping_of(tab)
    rtexts = rename_texts(tab, split)
    case = {"files": files, "tree": kind, "table": list(tab), "split": split, "block_assign": assign}
    label = f"[tree={kind} table={[ALPHABET[i] for i in tab]} cfg={assign} deprecated block]"
    olds = mentioned_olds(tab) if kind != "plain" else []
    r.evals += 1
    try:
        inst = impl.Inst(files, renames=rtexts)
        for n, v in assign.items():
            inst.k.syms[n].set_value(v)
        full = inst.config_text(write_deprecated=True)
        plain = inst.config_text(write_deprecated=False)
    except Exception as e:  # noqa: BLE001
        r.violation({"kind": "write_raises", "tree": kind, "exc": type(e).__name__, "site": site_of(e)}, f"{label} writing raised {type(e).__name__}: {e}", case)
        return
    if "# Deprecated options for backward compatibility" not in full:
        if full != plain:
            r.violation({"kind": "block_missing_but_text_differs", "tree": kind}, f"{label} no block but text differs", case)
        return
    r.outcome((kind, tab, "block", tuple(sorted(assign.items()))))
    cut = re.sub(r"\n# Deprecated options for backward compatibility\n.*?# End of deprecated options\n", "", full, flags=re.S)
    if cut != plain:
        r.violation({"kind": "block_is_not_a_suffix_block", "tree": kind}, f"{label} cutting the block out of the file does not give the file written without it", case)
    # contradicting block: flip every bool alias inside the block, change numbers / strings
    def flip(mo):
        body = mo.group(1)
        out = []
        for line in body.splitlines():
            ms = re.match(r"CONFIG_([^=]+)=(.*)", line)
            mu = re.match(r"# CONFIG_([^ ]+) is not set", line)
            if mu:
                out.append(f"CONFIG_{mu.group(1)}=y")
            elif ms and ms.group(2) == "y":
                out.append(f"# CONFIG_{ms.group(1)} is not set")
            elif ms and ms.group(2).startswith('"'):
                out.append(f'CONFIG_{ms.group(1)}="contradiction"')
            elif ms:
                out.append(f"CONFIG_{ms.group(1)}=11")
            else:
                out.append(line)
        return "\n# Deprecated options for backward compatibility\n" + "\n".join(out) + "\n# End of deprecated options\n"

    contra = re.sub(r"\n# Deprecated options for backward compatibility\n(.*?)# End of deprecated options\n", flip, full, flags=re.S)
    try:
        _, ref = observe(files, rtexts, plain)
        for tag, txt in (("as_written", full), ("contradicting", contra)):
            _, got = observe(files, rtexts, txt)
            for key in ("values", "user", "config", "missing"):
                if got[key] != ref[key]:
                    r.violation({"kind": "block_not_ignored", "tree": kind, "block": tag, "what": key}, f"{label} ({tag} block) default load differs from the block-less file in {key}", case)
                    break
        # explicit request: aliases evaluate to what was written
        inst2 = impl.Inst(files, renames=rtexts)
        inst2.load_text(full, load_deprecated=True)
        k2 = inst2.k
        blk = re.search(r"# Deprecated options for backward compatibility\n(.*?)# End of deprecated options", full, re.S).group(1)
        written: Dict[str, Optional[str]] = {}
        for line in blk.splitlines():
            if not re.match(r"CONFIG_[^=]+=|# CONFIG_[^ ]+ is not set", line):
                continue
            name, val = parse_line(line)
            if name in TYPES:
                continue
            written[name] = val
            # is the alias also a node-less symbol of the tree because an expression of the tree mentions it?
            how = "mentioned_in_kconfig" if name in olds else "not_in_kconfig"
            new = m.get(name, (None, False))[0]
            if TYPES.get(new) != "bool":
                # non-bool aliases: compare by relation
                if val is not None and new in TYPES:
                    ev = k2.eval_string(f"{name} = {val}")
                    if ev != 2:
                        r.violation({"kind": "alias_evaluates_differently", "tree": kind, "alias": how, "type": TYPES[new]}, f"{label} load_deprecated: `{name} = {val}` evaluates to {ev}", case)
                continue
            want = 2 if val == "y" else 0
            ev = k2.eval_string(name)
            if ev != want:
                r.violation({"kind": "alias_evaluates_differently", "tree": kind, "alias": how, "type": "bool", "written": "y" if want else "n"}, f"{label} load_deprecated: alias {name} written as {'y' if want else 'n'} evaluates to {ev}", case)
        lost = [n for n, _v in k2.missing_syms if n in written]
        if lost:
            hows = sorted({"mentioned_in_kconfig" if n in olds else "not_in_kconfig" for n in lost})
            r.violation({"kind": "requested_block_entry_reported_unknown", "tree": kind, "alias": "+".join(hows)}, f"{label} load_deprecated: missing_syms lists the block entries {lost}", case)
        vals_after = inst2.values()
        # the tree's own expressions over the aliases (mention trees)
        if olds:
            holds = [rel_holds(o, written.get(o)) for o in olds]
            want_x = {f"X{j}": h for j, h in enumerate(holds)}
            want_x["XDEP"] = any(holds)
            want_x["XT"] = any(holds)
            diff = {n: (vals_after[n], "y" if w else "n") for n, w in sorted(want_x.items()) if n in vals_after and vals_after[n] != ("y" if w else "n")}
            if diff:
                pos = sorted({"default_if" if n.startswith("X") and n[1:].isdigit() else {"XDEP": "depends_on", "XT": "select_if"}[n] for n in diff})
                r.violation({"kind": "tree_expression_over_alias_differs", "tree": kind, "alias": "mentioned_in_kconfig", "position": pos},
                            f"{label} load_deprecated: block entries {written} but the options whose conditions mention them are (got, want) {diff}", case)
        # (an old name that is ALSO a defined option is assigned by its block entry when the block is requested; the
        # statement only says such entries evaluate to what was written, so that table is exempt from this sanity clause)
        after = {n: v for n, v in vals_after.items() if n in TYPES}
        before = {n: v for n, v in ref["values"].items() if n in TYPES}
        if after != before and not any(old in TYPES for old in m):
            r.violation({"kind": "load_deprecated_changes_values", "tree": kind}, f"{label} load_deprecated=True changes option values: {after} vs {before}", case)
    except Exception as e:  # noqa: BLE001
        r.violation({"kind": "block_load_raises", "tree": kind, "exc": type(e).__name__, "site": site_of(e)}, f"{label} raised {type(e).__name__}: {e}", case)


BLOCK_CFGS = [{}, {"B": "y"}, {"B": "n"}, {"B": "y", "BH": "n", "I": "7", "S": "v w", "H": "0x2a", "E_CONFIG_B": "y", "E_CONFIG_S": "v w"},
              {"B": "y", "DEFINED_OLD": "y", "I": "50"}]


def run_item(item) -> common.Result:
    r = common.Result()
    kind = item["tree"]
    nfiles = 0
    sample_files = None
    for tab, split in item["tables"]:
        tab = tuple(tab)
        files = tree_files(kind, tab)
        if files is None:
            continue  # no old name that a tree could mention
        r.programs += 1
        sample_files = sample_files or (files, tab)
        la = line_alphabet(tab)
        cache: dict = {}
        for n in range(1, item["maxlen"] + 1):
            for lines in itertools.permutations(la, n):
                check_file(files, kind, tab, split, list(lines), r, cache)
                nfiles += 1
        if not split:
            for cfg in BLOCK_CFGS:
                check_block(files, kind, tab, split, cfg, r)
    if sample_files:
        files, tab = sample_files
        r.sample = {"tree": kind, "kconfig": files["Kconfig"], "rename_table": [ALPHABET[i] for i in tab],
                    "sdkconfig_files_per_table": nfiles // max(1, len(item["tables"])), "example_file": line_alphabet(tab)[:2]}
    return r


def replay(case) -> List[dict]:
    r = common.Result()
    kind = case.get("tree", "plain")
    if "lines" in case:
        check_file(case["files"], kind, tuple(case["table"]), case["split"], case["lines"], r)
    else:
        check_block(case["files"], kind, tuple(case["table"]), case["split"], case["block_assign"], r)
    return r.viols

"""C11 -- a deprecated name behaves exactly like its replacement.

Tree with new options of every type (visible, conditionally hidden, promptless) and one option whose NAME is also an old
name of the rename alphabet; rename tables = every 1- and 2-line selection of the alphabet (2-line tables also split over
two files); sdkconfig files = every ordered sequence of <=2 (quick) / <=3 (thorough) lines over
{OLD=v, NEW=v, # OLD is not set, # NEW is not set} for the names the table mentions.

Oracles
  (1) load(file) == load(translate(file)): option values, user values and the re-written sdkconfig, where `translate`
      rewrites a line whose name is not defined in the tree and is mapped (last mapping wins) to a defined option:
      OLD=v -> NEW=v (y/n swapped for `!` renames of bools), `# OLD is not set` -> `# NEW is not set` (NEW=y if inverted);
  (2) an old name whose replacement is defined never appears in missing_syms; any table / file must load without raising;
  (3) a file written with the deprecated block, loaded with the default flag, equals the same file with the block cut out,
      even when the block is edited to contradict the body; loaded with load_deprecated=True, eval_string on each bool
      alias gives the value that was written.
"""

from __future__ import annotations

import itertools
import re
from typing import Any, Dict, Iterator, List, Optional, Tuple

from .. import common, impl, kgen
from ..kgen import Cfg, L, Program, S

ID = "C11"
LEVEL = "exploration"
RULE = (
    "1 tree x all 1- and 2-line rename tables over a 14-line alphabet (2-line tables as one file and split over two files) x all "
    "ordered sdkconfig files of <=2 (quick) / <=3 (thorough) lines over the old/new names of the table in the forms =v, `is not set`; "
    "plus, per table x configuration, the deprecated-block clauses. distinct_nontrivial = distinct (table, file) pairs in which at least "
    "one line uses a deprecated name."
)
ASSUMPTIONS = [
    "a mapping to an option that is not defined carries no obligation except not raising and not disturbing other options",
    "hand-written files carry no `# default:` markers in front of deprecated names",
]

ALPHABET = [
    "CONFIG_OLD_B CONFIG_B",
    "CONFIG_OLD_NB !CONFIG_B",
    "CONFIG_OLD_B2 CONFIG_B",
    "CONFIG_OLD_B CONFIG_BH",
    "CONFIG_OLD_NBH !CONFIG_BH",
    "CONFIG_OLD_I CONFIG_I",
    "CONFIG_OLD_NI !CONFIG_I",
    "CONFIG_OLD_S CONFIG_S",
    "CONFIG_OLD_H CONFIG_H",
    "CONFIG_OLD_U CONFIG_UNDEFINED",
    "CONFIG_old_lower CONFIG_B",
    "CONFIG_DEFINED_OLD CONFIG_B",
    "CONFIG_OLD_BP CONFIG_BP",
    "CONFIG_OLD_B !CONFIG_B",
]

TREE = Program(children=[
    Cfg("B", "bool", prompt="b"),
    Cfg("BH", "bool", prompt="bh", prompt_cond=S("B"), defaults=[(L("y"), None)]),
    Cfg("BP", "bool", defaults=[(L("y"), S("B"))]),
    Cfg("I", "int", prompt="i", ranges=[(L("0"), L("50"), None)], defaults=[(L("5"), None)]),
    Cfg("H", "hex", prompt="h", defaults=[(L("0x1f"), None)]),
    Cfg("S", "string", prompt="s", defaults=[(L('"d"'), None)]),
    Cfg("DEFINED_OLD", "bool", prompt="an option whose name is also listed as deprecated"),
])
TYPES = {"B": "bool", "BH": "bool", "BP": "bool", "I": "int", "H": "hex", "S": "string", "DEFINED_OLD": "bool"}
VALS = {"bool": ["y", "n"], "int": ["7", "99"], "hex": ["0x2a"], "string": ['"v w"', '"q\\"x"']}


def tables(tier: str) -> Iterator[Tuple[Tuple[int, ...], bool]]:
    n = len(ALPHABET)
    for i in range(n):
        yield (i,), False
    for a, b in itertools.permutations(range(n), 2):
        yield (a, b), False
        yield (a, b), True  # split over two files


def mapping_of(tab: Tuple[int, ...]) -> Dict[str, Tuple[str, bool]]:
    m: Dict[str, Tuple[str, bool]] = {}
    for i in tab:
        old, new = ALPHABET[i].split()
        m[old[len("CONFIG_"):]] = (new.lstrip("!")[len("CONFIG_"):], new.startswith("!"))
    return m


def line_alphabet(tab: Tuple[int, ...]) -> List[str]:
    m = mapping_of(tab)
    names: List[Tuple[str, str]] = []  # (name, type)
    for old, (new, inv) in m.items():
        t = TYPES.get(new, "bool")
        names.append((old, t))
        if new in TYPES:
            names.append((new, t))
    out: List[str] = []
    seen = set()
    for name, t in names:
        if name in seen:
            continue
        seen.add(name)
        for v in VALS[t]:
            out.append(f"CONFIG_{name}={v}")
        out.append(f"# CONFIG_{name} is not set")
    return out


def items(tier: str, seed: int):
    files = kgen.render(TREE)
    tabs = list(tables(tier))
    return [{"files": files, "tables": tabs[i:i + 6], "maxlen": 2 if tier == "quick" else 3} for i in range(0, len(tabs), 6)]


def translate(lines: List[str], m: Dict[str, Tuple[str, bool]]) -> List[str]:
    out = []
    for line in lines:
        ms = re.match(r"CONFIG_([^=]+)=(.*)", line)
        mu = re.match(r"# CONFIG_([^ ]+) is not set", line)
        name = ms.group(1) if ms else mu.group(1)
        if name in TYPES or name not in m or m[name][0] not in TYPES:
            out.append(line)
            continue
        new, inv = m[name]
        t = TYPES[new]
        if ms:
            val = ms.group(2)
            if inv and t == "bool":
                val = "n" if val.startswith("y") else "y"
            out.append(f"CONFIG_{new}={val}")
        else:
            if inv:
                out.append(f"CONFIG_{new}=y" if t == "bool" else f"# CONFIG_{new} is not set")
            else:
                out.append(f"# CONFIG_{new} is not set")
    return out


def rename_texts(tab: Tuple[int, ...], split: bool) -> List[str]:
    if split and len(tab) == 2:
        return [ALPHABET[tab[0]] + "\n", ALPHABET[tab[1]] + "\n"]
    return ["".join(ALPHABET[i] + "\n" for i in tab)]


def observe(files, rtexts, text, **kw):
    inst = impl.Inst(files, renames=rtexts)
    inst.load_text(text, **kw)
    k = inst.k
    return inst, {
        "values": inst.values(),
        "user": {s.name: s._user_value for s in k.unique_defined_syms},
        "config": inst.config_text(),
        "missing": list(k.missing_syms),
    }


def site_of(e) -> str:
    import os
    import traceback

    tb = traceback.extract_tb(e.__traceback__)
    return next((f"{os.path.basename(fr.filename)}:{fr.name}" for fr in reversed(tb) if "/mck/" not in fr.filename), "?")


def line_class(line: str, m) -> str:
    ms = re.match(r"CONFIG_([^=]+)=(.*)", line)
    mu = re.match(r"# CONFIG_([^ ]+) is not set", line)
    name = ms.group(1) if ms else mu.group(1)
    if name in TYPES and name in m:
        role = "defined_old"
    elif name in TYPES:
        role = "new"
    else:
        new, inv = m[name]
        role = ("old_inv" if inv else "old") + ("" if new in TYPES else "_undefrepl") + ":" + TYPES.get(new, "?")
    return role + ("=" + ("set" if ms else "notset"))


def check_file(files, tab, split, lines: List[str], r: common.Result) -> None:
    m = mapping_of(tab)
    rtexts = rename_texts(tab, split)
    text = "".join(l + "\n" for l in lines)
    ttext = "".join(l + "\n" for l in translate(lines, m))
    case = {"files": files, "table": list(tab), "split": split, "lines": lines}
    label = f"[table={[ALPHABET[i] for i in tab]}{' (2 files)' if split else ''} file={lines}]"
    classes = sorted(line_class(l, m) for l in lines)
    r.evals += 1
    try:
        _, a = observe(files, rtexts, text)
    except Exception as e:  # noqa: BLE001
        r.violation({"kind": "load_raises", "exc": type(e).__name__, "site": site_of(e), "lines": classes}, f"{label} load raised {type(e).__name__}: {e}", case)
        return
    _, b = observe(files, rtexts, ttext)
    uses_old = text != ttext
    if uses_old:
        r.outcome((tab, split, tuple(lines)))
    for key in ("values", "user", "config"):
        if a[key] != b[key]:
            if key == "config":
                d = f"{a[key]!r} vs {b[key]!r}"
            else:
                d = {n: (a[key][n], b[key][n]) for n in a[key] if a[key][n] != b[key][n]}
            r.violation({"kind": "old_name_differs_from_new_name", "what": key, "lines": classes},
                        f"{label} loading the file vs. its translation {translate(lines, m)} differ in {key}: {d}", case)
            break
    bad = [n for n, _v in a["missing"] if n in m and m[n][0] in TYPES and n not in TYPES]
    if bad:
        r.violation({"kind": "deprecated_name_reported_unknown", "lines": classes}, f"{label} missing_syms lists deprecated names {bad}", case)


def check_block(files, tab, split, assign: Dict[str, str], r: common.Result) -> None:
    m = mapping_of(tab)
    rtexts = rename_texts(tab, split)
    case = {"files": files, "table": list(tab), "split": split, "block_assign": assign}
    label = f"[table={[ALPHABET[i] for i in tab]} cfg={assign} deprecated block]"
    r.evals += 1
    try:
        inst = impl.Inst(files, renames=rtexts)
        for n, v in assign.items():
            inst.k.syms[n].set_value(v)
        full = inst.config_text(write_deprecated=True)
        plain = inst.config_text(write_deprecated=False)
    except Exception as e:  # noqa: BLE001
        r.violation({"kind": "write_raises", "exc": type(e).__name__, "site": site_of(e)}, f"{label} writing raised {type(e).__name__}: {e}", case)
        return
    if "# Deprecated options for backward compatibility" not in full:
        if full != plain:
            r.violation({"kind": "block_missing_but_text_differs"}, f"{label} no block but text differs", case)
        return
    cut = re.sub(r"\n# Deprecated options for backward compatibility\n.*?# End of deprecated options\n", "", full, flags=re.S)
    if cut != plain:
        r.violation({"kind": "block_is_not_a_suffix_block"}, f"{label} cutting the block out of the file does not give the file written without it", case)
    # contradicting block: flip every bool alias inside the block, change numbers / strings
    def flip(mo):
        body = mo.group(1)
        out = []
        for line in body.splitlines():
            ms = re.match(r"CONFIG_([^=]+)=(.*)", line)
            mu = re.match(r"# CONFIG_([^ ]+) is not set", line)
            if mu:
                out.append(f"CONFIG_{mu.group(1)}=y")
            elif ms and ms.group(2) == "y":
                out.append(f"# CONFIG_{ms.group(1)} is not set")
            elif ms and ms.group(2).startswith('"'):
                out.append(f'CONFIG_{ms.group(1)}="contradiction"')
            elif ms:
                out.append(f"CONFIG_{ms.group(1)}=11")
            else:
                out.append(line)
        return "\n# Deprecated options for backward compatibility\n" + "\n".join(out) + "\n# End of deprecated options\n"

    contra = re.sub(r"\n# Deprecated options for backward compatibility\n(.*?)# End of deprecated options\n", flip, full, flags=re.S)
    try:
        _, ref = observe(files, rtexts, plain)
        for tag, txt in (("as_written", full), ("contradicting", contra)):
            _, got = observe(files, rtexts, txt)
            for key in ("values", "user", "config", "missing"):
                if got[key] != ref[key]:
                    r.violation({"kind": "block_not_ignored", "block": tag, "what": key}, f"{label} ({tag} block) default load differs from the block-less file in {key}", case)
                    break
        # explicit request: aliases evaluate to what was written
        inst2 = impl.Inst(files, renames=rtexts)
        inst2.load_text(full, load_deprecated=True)
        k2 = inst2.k
        blk = re.search(r"# Deprecated options for backward compatibility\n(.*?)# End of deprecated options", full, re.S).group(1)
        for line in blk.splitlines():
            ms = re.match(r"CONFIG_([^=]+)=(.*)", line)
            mu = re.match(r"# CONFIG_([^ ]+) is not set", line)
            if not (ms or mu):
                continue
            name = ms.group(1) if ms else mu.group(1)
            if name in TYPES:
                continue
            new = m.get(name, (None, False))[0]
            if TYPES.get(new) != "bool":
                # non-bool aliases: compare by relation
                if ms and new in TYPES:
                    lit = ms.group(2)
                    ev = k2.eval_string(f"{name} = {lit}")
                    if ev != 2:
                        r.violation({"kind": "alias_evaluates_differently", "type": TYPES[new]}, f"{label} load_deprecated: `{name} = {lit}` evaluates to {ev}", case)
                continue
            want = 2 if (ms and ms.group(2) == "y") else 0
            ev = k2.eval_string(name)
            if ev != want:
                r.violation({"kind": "alias_evaluates_differently", "type": "bool", "written": "y" if want else "n"}, f"{label} load_deprecated: alias {name} written as {'y' if want else 'n'} evaluates to {ev}", case)
        vals_after = inst2.values()
        # (an old name that is ALSO a defined option is assigned by its block entry when the block is requested; the
        # statement only says such entries evaluate to what was written, so that table is exempt from this sanity clause)
        if vals_after != ref["values"] and not any(old in TYPES for old in m):
            r.violation({"kind": "load_deprecated_changes_values"}, f"{label} load_deprecated=True changes option values: {vals_after} vs {ref['values']}", case)
    except Exception as e:  # noqa: BLE001
        r.violation({"kind": "block_load_raises", "exc": type(e).__name__, "site": site_of(e)}, f"{label} raised {type(e).__name__}: {e}", case)


BLOCK_CFGS = [{}, {"B": "y"}, {"B": "n"}, {"B": "y", "BH": "n", "I": "7", "S": "v w", "H": "0x2a"}, {"B": "y", "DEFINED_OLD": "y", "I": "50"}]


def run_item(item) -> common.Result:
    r = common.Result()
    r.programs = 1
    files = item["files"]
    nfiles = 0
    for tab, split in item["tables"]:
        tab = tuple(tab)
        la = line_alphabet(tab)
        for n in range(1, item["maxlen"] + 1):
            for lines in itertools.permutations(la, n):
                check_file(files, tab, split, list(lines), r)
                nfiles += 1
        if not split:
            for cfg in BLOCK_CFGS:
                check_block(files, tab, split, cfg, r)
    r.sample = {"rename_table": [ALPHABET[i] for i in item["tables"][0][0]], "sdkconfig_files_per_table": nfiles // max(1, len(item["tables"])), "example_file": line_alphabet(tuple(item["tables"][0][0]))[:2]}
    return r


def replay(case) -> List[dict]:
    r = common.Result()
    if "lines" in case:
        check_file(case["files"], tuple(case["table"]), case["split"], case["lines"], r)
    else:
        check_block(case["files"], tuple(case["table"]), case["split"], case["block_assign"], r)
    return r.viols
